#!/usr/bin/env python3
"""Throwaway prototype: instantiated clang JSON AST -> C, for one root function and its rlbox callees."""
import json, re, sys, collections

txt = open('all.json').read()
dec = json.JSONDecoder(); i = 0; objs = []
while i < len(txt):
    while i < len(txt) and txt[i] in ' \n\r\t': i += 1
    if i >= len(txt): break
    o, j = dec.raw_decode(txt, i); objs.append(o); i = j

FUNC_KINDS = ('FunctionDecl', 'CXXMethodDecl', 'CXXConstructorDecl', 'CXXConversionDecl', 'CXXDestructorDecl')
funcs = {}      # id -> node
parent_rec = {} # func id -> record node
records = {}    # canonical name -> record node
decls = {}      # id -> node (vars/params/fields)

def rec_name(n, tmpl_name=None):
    # canonical spelling used in qualType strings
    args = [c for c in n.get('inner', []) if c.get('kind') == 'TemplateArgument']
    if args:
        def a(c):
            if 'type' in c: return c['type']['qualType']
            if 'value' in c: return str(c['value'])
            inner = c.get('inner', [{}])
            return inner[0].get('type', {}).get('qualType', '?') if inner else '?'
        return n.get('name','_anon') + '<' + ', '.join(a(c) for c in args) + '>'
    return n.get('name', '_anon_' + n.get('id', ''))

def walk(n, rec=None):
    k = n.get('kind')
    if k in ('CXXRecordDecl', 'ClassTemplateSpecializationDecl') and n.get('completeDefinition'):
        records.setdefault(rec_name(n), n); rec = n
    if k in FUNC_KINDS:
        if any(isinstance(c, dict) and c.get('kind') == 'CompoundStmt' for c in n.get('inner', []) or []):
            funcs[n['id']] = n; parent_rec[n['id']] = rec
        elif n['id'] not in funcs:
            funcs.setdefault('decl:' + n['id'], n)
    if 'id' in n and k in ('VarDecl', 'ParmVarDecl', 'FieldDecl'):
        decls[n['id']] = n
    for c in n.get('inner', []) or []:
        if isinstance(c, dict): walk(c, rec)
for o in objs: walk(o)

def strip_ns(s): return re.sub(r'\brlbox::(detail::)?', '', s)

def san(s): return re.sub(r'_+', '_', re.sub(r'[^A-Za-z0-9]', '_', s)).strip('_')

used_records = collections.OrderedDict()

def ctype(q):
    """Map a (desugared) C++ type string to C. References become pointers."""
    q = q.strip()
    q = strip_ns(q)
    m = re.match(r'^(.*?)\s*&&?$', q)
    if m: return ctype(m.group(1)) + ' *'
    m = re.match(r'^(.*?)\s*\*\s*((?:const|volatile|\s)*)$', q)
    if m and '<' not in m.group(2):
        # pointer (outermost)
        base = m.group(1)
        if base.count('<') == base.count('>'):
            return ctype(base) + ' *' + (' ' + m.group(2).strip() if m.group(2).strip() else '')
    quals = []
    while True:
        m = re.match(r'^(const|volatile)\s+(.*)$', q)
        if m: quals.append(m.group(1)); q = m.group(2); continue
        m = re.match(r'^(.*\S)\s+(const|volatile)$', q)
        if m and m.group(1).count('<') == m.group(1).count('>'): quals.append(m.group(2)); q = m.group(1); continue
        break
    base = {'bool': '_Bool', 'uintptr_t': 'unsigned long', 'size_t': 'unsigned long'}.get(q, q)
    if '<' in q or q in records:
        used_records[strip_ns(q)] = True
        base = 'struct S_' + san(strip_ns(q))
    return (' '.join(sorted(set(quals))) + ' ' if quals else '') + base

def qt(n):
    t = n.get('type', {})
    return t.get('desugaredQualType') or t.get('qualType')

def fname(fn):
    return san(fn.get('mangledName') or fn['name'])

needed = collections.OrderedDict()

def is_method(fn): return fn['kind'] in ('CXXMethodDecl', 'CXXConversionDecl') and fn.get('storageClass') != 'static'

def this_type(fn):
    rec = parent_rec.get(fn['id'])
    t = 'struct S_' + san(strip_ns(rec_name(rec))); used_records[strip_ns(rec_name(rec))] = True
    const = ' const' if re.search(r'\) const( |$|noexcept)', fn['type']['qualType']) or fn['type']['qualType'].rstrip().endswith('const') else ''
    return t + const + ' *'

def refdecl_is_ref(rd):
    d = decls.get(rd['id'])
    t = (d or rd).get('type', {})
    q = t.get('desugaredQualType') or t.get('qualType', '')
    return q.rstrip().endswith('&')

def E(n):
    """emit expression; lvalues are emitted as C lvalues"""
    k = n['kind']; inner = [c for c in n.get('inner', []) if isinstance(c, dict)]
    if k in ('ImplicitCastExpr', 'CXXStaticCastExpr', 'CXXReinterpretCastExpr', 'CXXConstCastExpr', 'CStyleCastExpr', 'CXXFunctionalCastExpr'):
        ck = n.get('castKind'); sub = inner[-1]
        if ck in ('LValueToRValue', 'NoOp', 'FunctionToPointerDecay', 'ArrayToPointerDecay', 'ConstructorConversion'):
            if ck == 'NoOp' and n.get('valueCategory') == 'lvalue' or ck != 'NoOp': return E(sub)
            return f'(({ctype(qt(n))})({E(sub)}))'
        if ck in ('UncheckedDerivedToBase', 'DerivedToBase', 'BaseToDerived'):
            if n.get('valueCategory') == 'lvalue':   # glvalue of class type: cast the address
                return f'(*({ctype(qt(n))} *)&({E(sub)}))'
            return f'(({ctype(qt(n))})({E(sub)}))'   # pointer
        if ck == 'NullToPointer': return f'(({ctype(qt(n))})0)'
        return f'(({ctype(qt(n))})({E(sub)}))'
    if k == 'DeclRefExpr':
        rd = n['referencedDecl']
        if rd['kind'] in FUNC_KINDS: return callee_name(rd)
        if rd['kind'] == 'VarTemplateSpecializationDecl': return 'CONSTEXPR_VAR_' + rd['name']   # value to be supplied by bindgen
        return f'(*{rd["name"]})' if refdecl_is_ref(rd) else rd['name']
    if k == 'ConstantExpr':
        if 'value' in n: return {'true': '1', 'false': '0'}.get(n['value'], n['value'])
        return E(inner[0])
    if k == 'IntegerLiteral': return n['value'] + ('UL' if 'unsigned long' in qt(n) else '')
    if k == 'CXXBoolLiteralExpr': return '1' if n['value'] else '0'
    if k == 'CXXNullPtrLiteralExpr': return '((void*)0)'
    if k == 'StringLiteral': return n['value']
    if k == 'ParenExpr': return '(' + E(inner[0]) + ')'
    if k == 'BinaryOperator': return f'({E(inner[0])} {n["opcode"]} {E(inner[1])})'
    if k == 'UnaryOperator':
        return f'({E(inner[0])}{n["opcode"]})' if n.get('isPostfix') else f'({n["opcode"]}{E(inner[0])})'
    if k == 'UnaryExprOrTypeTraitExpr':
        if inner: return f'sizeof({ctype(qt(inner[0]))})'
        return f'sizeof({ctype(n["argType"]["desugaredQualType"] if "desugaredQualType" in n["argType"] else n["argType"]["qualType"])})'
    if k == 'CXXThisExpr': return 'this_'
    if k == 'MemberExpr':
        base = E(inner[0]); return f'({base}{"->" if n.get("isArrow") else "."}{n["name"]})'
    if k in ('ExprWithCleanups', 'CXXBindTemporaryExpr'): return E(inner[0])
    if k == 'MaterializeTemporaryExpr':
        return f'(*({ctype(qt(n))}[]){{ {E(inner[0])} }})'          # C99 compound literal temporary
    if k in ('CallExpr', 'CXXMemberCallExpr', 'CXXOperatorCallExpr'):
        return call(n, inner)
    if k in ('CXXConstructExpr', 'CXXTemporaryObjectExpr'):
        ctor = n.get('ctorType', {}).get('qualType', '')
        if len(inner) == 1 and re.search(r'\(const .*&\)|\(.*&&\)', ctor) and san(ctype(qt(inner[0])).replace('const', '')) == san(ctype(qt(n)).replace('const', '')):
            return E(inner[0])                                        # trivial copy/move: struct copy
        want_rec = strip_ns(qt(n)).replace('const ','').strip()
        cands = [f for f in funcs.values() if isinstance(f, dict) and f.get('kind') == 'CXXConstructorDecl' and 'id' in f and parent_rec.get(f['id']) is not None
                 and strip_ns(rec_name(parent_rec[f['id']])) == want_rec and f['type']['qualType'].replace(' noexcept','') == ctor.replace(' noexcept','')
                 and any(c.get('kind') == 'CompoundStmt' for c in f.get('inner', []))]
        ids = {f['id'] for f in cands}
        if len(ids) != 1: raise SystemExit(f'ctor resolution failed for {want_rec} {ctor}: {len(ids)} candidates')
        fn = cands[0]; needed.setdefault(fn['id'], fn)
        return f'{fname(fn)}({", ".join(arg(a, t) for a, t in zip(inner, param_types(fn)))})'
    raise SystemExit('unhandled expr kind ' + k)

STOP = {'dynamic_check'}
stopped = collections.OrderedDict()
def callee_name(rd):
    fn = funcs.get(rd['id'])
    if fn is None:
        raise SystemExit('callee body not found: ' + rd['name'])
    needed.setdefault(fn['id'], fn)
    return fname(fn)

def arg(a, ptype):
    """bind argument to parameter of C++ type ptype"""
    if ptype.rstrip().endswith('&'):
        return '&' + E(a)
    return E(a)

def param_types(fn):
    return [qt(p) for p in fn.get('inner', []) if p.get('kind') == 'ParmVarDecl']

def find_callee_decl(n):
    c = n
    while c['kind'] in ('ImplicitCastExpr', 'ParenExpr'): c = c['inner'][0]
    return c

def call(n, inner):
    k = n['kind']; callee = find_callee_decl(inner[0]); args = inner[1:]
    if callee['kind'] == 'MemberExpr':                      # obj.f(args)
        rd = {'id': callee['referencedMemberDecl'], 'name': callee['name']}
        fn = funcs.get(rd['id']);
        if fn is None: raise SystemExit('member callee body not found: ' + callee['name'])
        needed.setdefault(fn['id'], fn)
        obj = callee['inner'][0]
        objx = E(obj) if callee.get('isArrow') else '&' + E(obj)
        pts = param_types(fn)
        s = f'{fname(fn)}({", ".join([f"({this_type(fn)}){objx}"] + [arg(a, t) for a, t in zip(args, pts)])})'
    else:
        rd = callee['referencedDecl']; fn = funcs.get(rd['id'])
        if fn is None and rd['name'] in ('forward', 'move', 'as_const'): return E(args[0])   # std identity-on-reference functions
        if fn is None: raise SystemExit('callee body not found: ' + rd['name'])
        if fn['name'] in STOP: stopped[fn['id']] = fn
        else: needed.setdefault(fn['id'], fn)
        pts = param_types(fn)
        if k == 'CXXOperatorCallExpr' and is_method(fn):
            s = f'{fname(fn)}({", ".join([f"({this_type(fn)})&" + E(args[0])] + [arg(a, t) for a, t in zip(args[1:], pts)])})'
        else:
            s = f'{fname(fn)}({", ".join(arg(a, t) for a, t in zip(args, pts))})'
    if n.get('valueCategory') != 'lvalue':
        RET_OVERRIDE.setdefault(fn['id'], qt(n))      # desugared result type as clang computed it for this call
    if n.get('valueCategory') == 'lvalue' and fn_returns_ref(fn): s = f'(*{s})'
    return s

def fn_returns_ref(fn):
    rt = ret_type(fn); return rt.rstrip().endswith('&')

RET_OVERRIDE = {}
def ret_type(fn):
    if fn.get('id') in RET_OVERRIDE: return RET_OVERRIDE[fn['id']]
    q = fn['type'].get('desugaredQualType') or fn['type']['qualType']
    if '->' in q and q.startswith('auto'): q = q.split('->',1)[1].strip() + ' ()'
    # "RET (PARAMS) quals" -- take text before the top-level '('
    depth = 0
    for idx, ch in enumerate(q):
        if ch == '<': depth += 1
        elif ch == '>': depth -= 1
        elif ch == '(' and depth == 0: return q[:idx].strip()
    return q

def S(n, ind, fn):
    k = n['kind']; inner = [c for c in n.get('inner', []) if isinstance(c, dict)]; p = '  ' * ind
    if k == 'CompoundStmt': return p + '{\n' + ''.join(S(c, ind + 1, fn) for c in inner) + p + '}\n'
    if k == 'NullStmt': return p + ';\n'
    if k == 'DeclStmt':
        out = ''
        for d in inner:
            if d['kind'] in ('StaticAssertDecl', 'TypeAliasDecl', 'UsingDirectiveDecl'): out += p + f'/* {d["kind"]} dropped */\n'; continue
            if d['kind'] == 'VarDecl':
                decls[d['id']] = d
                t = qt(d); init = [c for c in d.get('inner', []) if isinstance(c, dict)]
                if t.rstrip().endswith('&'):
                    out += p + f'{ctype(t)} {d["name"]} = &{E(init[0])};\n'
                else:
                    out += p + f'{ctype(t)} {d["name"]}' + (f' = {E(init[0])}' if init else '') + ';\n'
                continue
            raise SystemExit('unhandled decl ' + d['kind'])
        return out
    if k == 'IfStmt':
        cond, then = inner[0], inner[1]; els = inner[2] if len(inner) > 2 else None
        if n.get('isConstexpr') and cond['kind'] == 'ConstantExpr':
            taken = then if cond.get('value') == 'true' else els
            return (p + '/* if constexpr: discarded branch absent in instantiation */\n' + (S(taken, ind, fn) if taken else ''))
        return p + f'if ({E(cond)})\n' + S(then, ind + 1, fn) + (p + 'else\n' + S(els, ind + 1, fn) if els else '')
    if k == 'ReturnStmt':
        if not inner: return p + 'return;\n'
        e = inner[0]
        if fn_returns_ref(fn): return p + f'return &{E(e)};\n'
        return p + f'return {E(e)};\n'
    return p + E(n) + ';\n'

def emit_fn(fn, contract=''):
    params = []
    if is_method(fn): params.append(this_type(fn) + 'this_')
    for prm in fn.get('inner', []):
        if prm.get('kind') == 'ParmVarDecl':
            decls[prm['id']] = prm
            params.append(f'{ctype(qt(prm))} {prm.get("name", "_unnamed")}')
    body = [c for c in fn['inner'] if c.get('kind') == 'CompoundStmt'][0]
    if fn['id'] not in RET_OVERRIDE:
        rs = []
        def findret(x):
            if x.get('kind') == 'ReturnStmt' and x.get('inner'): rs.append(x['inner'][0])
            for c in x.get('inner', []) or []:
                if isinstance(c, dict) and c.get('kind') != 'LambdaExpr': findret(c)
        findret(body)
        q0 = fn['type'].get('desugaredQualType') or fn['type']['qualType']
        if rs and (q0.startswith('auto') or 'remove_cv_t' in q0 or '::T_' in q0) and not ret_type(fn).rstrip().endswith('&'):
            RET_OVERRIDE[fn['id']] = qt(rs[0])
    rt = ctype(ret_type(fn))
    is_ctor = fn['kind'] == 'CXXConstructorDecl'
    if is_ctor:
        rec = parent_rec[fn['id']]; used_records[strip_ns(rec_name(rec))] = True
        rt = 'struct S_' + san(strip_ns(rec_name(rec)))
    sig = f'{rt} {fname(fn)}({", ".join(params) or "void"})'
    inits = ''
    for ci in fn.get('inner', []):
        if ci.get('kind') == 'CXXCtorInitializer' and 'anyInit' in ci:
            inits += f'  this_->{ci["anyInit"]["name"]} = {E(ci["inner"][0])};\n'
    text = S(body, 0, fn)
    if is_ctor:
        text = '{\n  ' + rt + ' self_; ' + rt + ' *this_ = &self_;\n' + inits + text[2:].rstrip()[:-1] + '  return self_;\n}\n'
    elif inits: text = '{\n' + inits + text[2:]
    return sig, text

if __name__ == '__main__':
    root_name, root_filter = sys.argv[1], sys.argv[2]
    roots = [f for f in funcs.values() if isinstance(f, dict) and f.get('name') == root_name and root_filter in f.get('mangledName', '') and 'inner' in f and any(c.get('kind') == 'CompoundStmt' for c in f['inner'])]
    assert len(roots) == 1, [r.get('mangledName') for r in roots]
    needed[roots[0]['id']] = roots[0]
    out = {}; done = set()
    while True:
        todo = [f for i_, f in needed.items() if i_ not in done]
        if not todo: break
        for f in todo:
            done.add(f['id'])
            if f['kind'] == 'CXXConstructorDecl':
                # constructor as function filling *this_
                fobj = dict(f);
            out[f['id']] = emit_fn(f)
    for fid in list(out): out[fid] = emit_fn(funcs[fid])
    # records
    print('/* generated from instantiated clang AST: root', roots[0]['mangledName'], '*/')
    print('#include <stdint.h>\n#include <stddef.h>')
    seen_s = set()
    for rn in list(used_records):
        if san(strip_ns(rn)) in seen_s: continue
        seen_s.add(san(strip_ns(rn)))
        rec = next((r for k_, r in records.items() if san(strip_ns(k_)) == san(strip_ns(rn))), None)
        if rec is None and 'tainted_base_impl' not in rn: raise SystemExit('record not found: ' + rn)
        fields = [c for c in (rec or {}).get('inner', []) if c.get('kind') == 'FieldDecl']
        print(f'struct S_{san(strip_ns(rn))} {{ ' + ' '.join(f'{ctype(qt(c))} {c["name"]};' for c in fields) + (' char _empty;' if not fields else '') + f' }}; /* {rn} */')
    for fid, (sig, body) in out.items(): print(sig + ';')
    for fid, f in stopped.items():
        ps=[f'{ctype(qt(p_))} {p_.get("name","_u")}' for p_ in f.get('inner',[]) if p_.get('kind')=='ParmVarDecl']
        print(f'{ctype(ret_type(f))} {fname(f)}({", ".join(ps)})\n/*CONTRACT:{fname(f)}*/;')
    print('ROOT_MANGLED=' + fname(roots[0]), file=sys.stderr)
    for fid, (sig, body) in out.items():
        print(f'\n{sig}\n/*CONTRACT:{fname(funcs[fid])}*/\n{body}')
