#define RLBOX_SINGLE_THREADED_INVOCATIONS
#include "rlbox.hpp"
#include "vsbx.hpp"
using namespace rlbox;
// force instantiation of the instances under contract
void force(tainted<long*, vsbx>& p, int n, tainted<long[4], vsbx>& a, signed char i) {
  auto q = p + n;
  auto& r = p[n];
  auto& e = a[i];
  (void)q; (void)r; (void)e;
}
