#pragma once
#include <cstdint>
#include <utility>
namespace rlbox {
class vsbx {
public:
  using T_LongLongType = int64_t; using T_LongType = int32_t; using T_IntType = int32_t;
  using T_PointerType = uint32_t; using T_ShortType = int16_t;
  static inline uintptr_t base = 0x100000000ull, size = 0x10000;
protected:
  inline void impl_create_sandbox() {}
  inline void impl_destroy_sandbox() {}
  template<typename T> inline void* impl_get_unsandboxed_pointer(T_PointerType p) const { return (void*)(base + (p & (size-1))); }
  template<typename T> inline T_PointerType impl_get_sandboxed_pointer(const void* p) const { return (T_PointerType)((uintptr_t)p - base); }
  template<typename T> static inline void* impl_get_unsandboxed_pointer_no_ctx(T_PointerType p, const void*, vsbx* (*)(const void*)) { return (void*)(base + (p & (size-1))); }
  template<typename T> static inline T_PointerType impl_get_sandboxed_pointer_no_ctx(const void* p, const void*, vsbx* (*)(const void*)) { return (T_PointerType)((uintptr_t)p - base); }
  inline T_PointerType impl_malloc_in_sandbox(size_t) { return 16; }
  inline void impl_free_in_sandbox(T_PointerType) {}
  static inline bool in(const void* p){ return (uintptr_t)p >= base && (uintptr_t)p - base < size; }
  static inline bool impl_is_in_same_sandbox(const void* a, const void* b) { return in(a) == in(b); }
  inline bool impl_is_pointer_in_sandbox_memory(const void* p) { return in(p); }
  inline bool impl_is_pointer_in_app_memory(const void* p) { return !in(p); }
  inline size_t impl_get_total_memory() { return size; }
  inline void* impl_get_memory_location() { return (void*)base; }
  template<typename T = void> void* impl_lookup_symbol(const char*) { return nullptr; }
  template<typename R, typename... A> inline T_PointerType impl_register_callback(void*, void*) { return 0; }
  static inline std::pair<vsbx*, void*> impl_get_executed_callback_sandbox_and_key() { return {nullptr,nullptr}; }
  template<typename R, typename... A> inline void impl_unregister_callback(void*) {}
};
}
