// Verification backend "vsbx": a foreign-ABI (32-bit pointers, LP32-like) sandbox
// plugin over a region [base, base+size).  It exists so that "sandbox ABI" and
// "inside the sandbox" are not the identity (the two in-repo backends are).
// Used (a) by clang when the instances under contract are instantiated,
// (b) by the g++ layout-facts program, (c) by the native replayer.
// In verification its impl_* functions are replaced by the A_backend contracts
// of /verif/include/prelude.h; their bodies are themselves extracted and
// verified against those contracts (unit "backend").
#pragma once
#include <cstdint>
#include <cstddef>
#include <utility>
namespace rlbox {
class vsbx
{
public:
  using T_LongLongType = int64_t;
  using T_LongType = int32_t;
  using T_IntType = int32_t;
  using T_PointerType = uint32_t;
  using T_ShortType = int16_t;

  // up to two live instances; region table is process-wide (like a real
  // plugin's reservation table)
  static inline uintptr_t region_base[2] = { 0, 0 };
  static inline uintptr_t region_size[2] = { 0, 0 };
  int slot = 0;
  // test/replay knobs (never used by rlbox itself)
  uintptr_t cfg_base = 0, cfg_size = 0;
  uint32_t next_malloc = 0;
  int create_ok = 1;
  int destroyed = 0;

  static inline int which(const void* p)
  {
    auto a = reinterpret_cast<uintptr_t>(p);
    if (region_size[0] != 0 && a >= region_base[0] && a - region_base[0] < region_size[0]) { return 0; }
    if (region_size[1] != 0 && a >= region_base[1] && a - region_base[1] < region_size[1]) { return 1; }
    return -1;
  }

protected:
  inline bool impl_create_sandbox(int a_slot, uintptr_t a_base, uintptr_t a_size)
  {
    if (!create_ok) { return false; }
    slot = a_slot; cfg_base = a_base; cfg_size = a_size;
    region_base[slot] = a_base; region_size[slot] = a_size;
    return true;
  }
  inline void impl_destroy_sandbox() { region_size[slot] = 0; region_base[slot] = 0; destroyed++; }
  inline void impl_reset_sandbox() {}

  template<typename T>
  inline void* impl_get_unsandboxed_pointer(T_PointerType p) const
  {
    return reinterpret_cast<void*>(region_base[slot] + (static_cast<uintptr_t>(p) % region_size[slot]));
  }
  template<typename T>
  inline T_PointerType impl_get_sandboxed_pointer(const void* p) const
  {
    return static_cast<T_PointerType>(reinterpret_cast<uintptr_t>(p) - region_base[slot]);
  }
  template<typename T>
  static inline void* impl_get_unsandboxed_pointer_no_ctx(T_PointerType p, const void* example, vsbx* (*finder)(const void*))
  {
    vsbx* s = finder(example);
    return s->template impl_get_unsandboxed_pointer<T>(p);
  }
  template<typename T>
  static inline T_PointerType impl_get_sandboxed_pointer_no_ctx(const void* p, const void* example, vsbx* (*finder)(const void*))
  {
    vsbx* s = finder(example);
    return s->template impl_get_sandboxed_pointer<T>(p);
  }
  inline T_PointerType impl_malloc_in_sandbox(size_t) { return next_malloc; }
  inline void impl_free_in_sandbox(T_PointerType) {}
  static inline bool impl_is_in_same_sandbox(const void* a, const void* b) { return which(a) == which(b); }
  inline bool impl_is_pointer_in_sandbox_memory(const void* p) { return which(p) == slot && region_size[slot] != 0; }
  inline bool impl_is_pointer_in_app_memory(const void* p) { return which(p) == -1; }
  inline size_t impl_get_total_memory() { return region_size[slot]; }
  inline void* impl_get_memory_location() { return reinterpret_cast<void*>(region_base[slot]); }
  template<typename T = void> void* impl_lookup_symbol(const char*) { return nullptr; }
  template<typename T, typename T_Converted, typename... T_Args>
  auto impl_invoke_with_func_ptr(T_Converted* func_ptr, T_Args&&... params) { return (*func_ptr)(params...); }
  // A_backend: a registration yields a non-zero entry point (or the backend aborts); this backend has one, fixed, entry point
  template<typename R, typename... A> inline T_PointerType impl_register_callback(void*, void*) { return 0x40; }
  static inline std::pair<vsbx*, void*> impl_get_executed_callback_sandbox_and_key() { return { nullptr, nullptr }; }
  template<typename R, typename... A> inline void impl_unregister_callback(void*) {}
};

// Variant whose function-pointer representation inside the sandbox (impl_internal_lookup_symbol, e.g. an indirect-call
// table index) is a different value from the address the application calls (impl_lookup_symbol).
class vsbx_il : public vsbx
{
public:
  using needs_internal_lookup_symbol = void;
  template<typename T = void> void* impl_internal_lookup_symbol(const char*) { return nullptr; }
};

// Variant of the kind that cannot tell the owning sandbox from an address alone (like the lucet plugin): the same-sandbox query
// takes the core's finder as a third argument, which selects the other arm of rlbox_sandbox::is_in_same_sandbox.
class vsbx_f3 : public vsbx
{
public:
  static inline bool impl_is_in_same_sandbox(const void* a, const void* b, vsbx_f3* (*)(const void*))
  {
    return which(a) == which(b);
  }
};

// Variant whose pointer representation is as wide as a host pointer but NOT the identity (64-bit offsets from the region base):
// arrays of pointers must still be translated element by element in both directions; only a copy between two cells in sandbox
// memory may move the representation bytes as they are.
class vsbx64 : public vsbx
{
public:
  using T_PointerType = uint64_t;
  using T_LongType = int64_t;

protected:
  template<typename T>
  inline void* impl_get_unsandboxed_pointer(T_PointerType p) const
  {
    return reinterpret_cast<void*>(region_base[slot] + (static_cast<uintptr_t>(p) % region_size[slot]));
  }
  template<typename T>
  inline T_PointerType impl_get_sandboxed_pointer(const void* p) const
  {
    return static_cast<T_PointerType>(reinterpret_cast<uintptr_t>(p) - region_base[slot]);
  }
  template<typename T>
  static inline void* impl_get_unsandboxed_pointer_no_ctx(T_PointerType p, const void* example, vsbx64* (*finder)(const void*))
  {
    vsbx64* s = finder(example);
    return s->template impl_get_unsandboxed_pointer<T>(p);
  }
  template<typename T>
  static inline T_PointerType impl_get_sandboxed_pointer_no_ctx(const void* p, const void* example, vsbx64* (*finder)(const void*))
  {
    vsbx64* s = finder(example);
    return s->template impl_get_sandboxed_pointer<T>(p);
  }
  inline T_PointerType impl_malloc_in_sandbox(size_t) { return next_malloc; }
  inline void impl_free_in_sandbox(T_PointerType) {}
  template<typename R, typename... A> inline T_PointerType impl_register_callback(void*, void*) { return 0x40; }
  static inline std::pair<vsbx64*, void*> impl_get_executed_callback_sandbox_and_key() { return { nullptr, nullptr }; }
};

// Variant that can move buffers in and out of the sandbox without copying (can_grant_deny_access): exercises the native
// paths of copy_memory_or_grant_access / copy_memory_or_deny_access.
class vsbx_gd : public vsbx
{
public:
  using can_grant_deny_access = void;
  template<typename T> T* impl_grant_access(T* src, size_t, bool& success) { success = false; return src; }
  template<typename T> T* impl_deny_access(T* src, size_t, bool& success) { success = false; return src; }
};
}
