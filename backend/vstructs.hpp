// Struct family for C08 (struct marshalling): every field kind of the statement, described to RLBox through
// the real rlbox_load_structs_from_library macros.  Declared inside namespace rlbox only so that the
// extraction (which reads namespace rlbox of clang's AST) sees the record declarations.
#pragma once
namespace rlbox {
struct VInner { int a; long b; };
struct VOuter { char c; long l; unsigned long ul; int i; long long ll; long arr[3]; char* p; VInner in; short s; };
struct VRev { short s; VInner in; char* p; long arr[3]; long long ll; int i; unsigned long ul; long l; char c; };
enum VColor { V_RED = 1, V_GREEN = 7, V_BLUE = 1000 };
struct VMisc { VColor col; bool b; unsigned char uc; double d; float fl; int* pa[2]; unsigned short us; };
typedef int (*VFnPtr)(long);
struct VFn { VFnPtr cb; int tag; VFnPtr tab[2]; };
}
using rlbox::VInner; using rlbox::VOuter; using rlbox::VRev; using rlbox::VMisc; using rlbox::VFn; using rlbox::VFnPtr;
#define sandbox_fields_reflection_vlib_class_VInner(f, g, ...) \
  f(int, a, FIELD_NORMAL, ##__VA_ARGS__) g()                    \
  f(long, b, FIELD_NORMAL, ##__VA_ARGS__) g()
#define sandbox_fields_reflection_vlib_class_VOuter(f, g, ...) \
  f(char, c, FIELD_NORMAL, ##__VA_ARGS__) g()                   \
  f(long, l, FIELD_NORMAL, ##__VA_ARGS__) g()                   \
  f(unsigned long, ul, FIELD_NORMAL, ##__VA_ARGS__) g()         \
  f(int, i, FIELD_NORMAL, ##__VA_ARGS__) g()                    \
  f(long long, ll, FIELD_NORMAL, ##__VA_ARGS__) g()             \
  f(long[3], arr, FIELD_NORMAL, ##__VA_ARGS__) g()              \
  f(char*, p, FIELD_NORMAL, ##__VA_ARGS__) g()                  \
  f(VInner, in, FIELD_NORMAL, ##__VA_ARGS__) g()                \
  f(short, s, FIELD_NORMAL, ##__VA_ARGS__) g()
#define sandbox_fields_reflection_vlib_class_VRev(f, g, ...)   \
  f(short, s, FIELD_NORMAL, ##__VA_ARGS__) g()                  \
  f(VInner, in, FIELD_NORMAL, ##__VA_ARGS__) g()                \
  f(char*, p, FIELD_NORMAL, ##__VA_ARGS__) g()                  \
  f(long[3], arr, FIELD_NORMAL, ##__VA_ARGS__) g()              \
  f(long long, ll, FIELD_NORMAL, ##__VA_ARGS__) g()             \
  f(int, i, FIELD_NORMAL, ##__VA_ARGS__) g()                    \
  f(unsigned long, ul, FIELD_NORMAL, ##__VA_ARGS__) g()         \
  f(long, l, FIELD_NORMAL, ##__VA_ARGS__) g()                   \
  f(char, c, FIELD_NORMAL, ##__VA_ARGS__) g()
#define sandbox_fields_reflection_vlib_class_VMisc(f, g, ...)  \
  f(VColor, col, FIELD_NORMAL, ##__VA_ARGS__) g()               \
  f(bool, b, FIELD_NORMAL, ##__VA_ARGS__) g()                   \
  f(unsigned char, uc, FIELD_NORMAL, ##__VA_ARGS__) g()         \
  f(double, d, FIELD_NORMAL, ##__VA_ARGS__) g()                 \
  f(float, fl, FIELD_NORMAL, ##__VA_ARGS__) g()                  \
  f(int*[2], pa, FIELD_NORMAL, ##__VA_ARGS__) g()               \
  f(unsigned short, us, FIELD_NORMAL, ##__VA_ARGS__) g()
#define sandbox_fields_reflection_vlib_class_VFn(f, g, ...)    \
  f(VFnPtr, cb, FIELD_NORMAL, ##__VA_ARGS__) g()                \
  f(int, tag, FIELD_NORMAL, ##__VA_ARGS__) g()                  \
  f(VFnPtr[2], tab, FIELD_NORMAL, ##__VA_ARGS__) g()
#define sandbox_fields_reflection_vlib_allClasses(f, ...) \
  f(VInner, vlib, ##__VA_ARGS__)                          \
  f(VOuter, vlib, ##__VA_ARGS__)                          \
  f(VRev, vlib, ##__VA_ARGS__)                            \
  f(VMisc, vlib, ##__VA_ARGS__)                           \
  f(VFn, vlib, ##__VA_ARGS__)
rlbox_load_structs_from_library(vlib);
