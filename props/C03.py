"""C03 - every tainted data pointer is null or points into its own sandbox.
Representation invariant ptr_inv(p) := p == 0 || in_k(p) on tainted<T*>::data, cell invariant
cell_inv(c) := in_k(&c) on every tainted_volatile the application can name.  Every pointer-producing operation
gets requires inv(inputs) ensures inv(outputs) (or aborts); chains of any depth follow by composing contracts.
Also contains the unit that verifies the bodies of the verification backend vsbx against the A_backend contracts
every other unit assumes."""
from vlib.unit import Unit, Inst, LEAVES, find_func, clauses_text
from .common import cs, PRE_GHOST, GUEST_SIZE, HOST_SIZE
from . import C05
from . import C17

PROP = 'C03'
TITLE = 'Every tainted data pointer is null or points into its own sandbox'
FUNCTIONS = ['rlbox_sandbox::get_unsandboxed_pointer / get_unsandboxed_pointer_no_ctx (rlbox_sandbox.hpp:452-462, 475-487)',
             'tainted(const tainted_volatile&) / tainted_volatile::get_raw_value for pointer types (rlbox.hpp:959-975, 1141-1156)',
             'tainted_base_impl::operator* / operator-> (rlbox.hpp:430-456)', 'tainted_volatile::operator& (rlbox.hpp:1175-1186)',
             'pointer operator+ - [] (rlbox.hpp:101-143, 370-394)', 'rlbox_sandbox::malloc_in_sandbox (rlbox_sandbox.hpp:531-572)',
             'vsbx::impl_* (the verification backend, against the A_backend contracts)']
SB = cs('rlbox::rlbox_sandbox<rlbox::vsbx>')
OBJVIEW = '#define V_MAX_BASE 0xfffffffe00000000UL\n'

REGIONS = ('  unsigned long in_base0, in_size0, in_base1, in_size1;\n'
           '  V_BASE[0] = in_base0; V_SIZE[0] = in_size0; V_BASE[1] = in_base1; V_SIZE[1] = in_size1;\n'
           '  __CPROVER_assume(V_BACKEND_WF);\n  _Bool in_noabort; g_noabort = in_noabort; g_backend_nonnull = 1; g_expect_example = 0; g_expect_malloc_size = 0;\n')
SB_DECL = ('  struct %s sb; int in_slot; sb.base0.slot = in_slot;\n'
           '  __CPROVER_assume((in_slot == 0 || in_slot == 1) && V_LIVE(in_slot));\n' % SB)


def sb_req(arg):
    return [('wf', '__CPROVER_requires(V_BACKEND_WF)'),
            ('sandbox_obj', '__CPROVER_requires(__CPROVER_r_ok(%s, sizeof(struct %s)) && (%s->base0.slot == 0 || %s->base0.slot == 1) && V_LIVE(%s->base0.slot))' % (arg, SB, arg, arg, arg))]


# ---------------------------------------------------------------- translation entry points
UNSANDBOX_CTX_CL = sb_req('$this') + [
    ('null_maps_to_null', '__CPROVER_ensures($0 == 0 ==> (uintptr_t)$ret == 0)'),
    ('nonnull_inside', '__CPROVER_ensures($0 != 0 ==> V_IN($this->base0.slot, (uintptr_t)$ret))'),
    ('faithful', '__CPROVER_ensures(($0 != 0 && (uintptr_t)$0 < V_SIZE[$this->base0.slot]) ==> (uintptr_t)$ret == V_BASE[$this->base0.slot] + (uintptr_t)$0)'),
    ('frame', '__CPROVER_assigns()'),
]


def unsandbox_ctx(tier):
    h = REGIONS + SB_DECL + '  unsigned int in_r;\n  void *r = (void *)$ROOT(&sb, in_r);\n'
    return Inst('c03_get_unsandboxed_pointer', 'rlbox_sandbox<vsbx>& s, uint32_t r', 's.get_unsandboxed_pointer<int*>(r);', UNSANDBOX_CTX_CL, h,
                leaves=['vsbx.impl_get_unsandboxed_pointer'], prop=PROP, root_name='get_unsandboxed_pointer', tier=tier, pre=PRE_GHOST,
                replay={'kind': 'unsandbox_ctx'}, note='all 2^32 guest representations')


UNSANDBOX_NOCTX_CL = [
    ('wf', '__CPROVER_requires(V_BACKEND_WF)'),
    ('example_in_sandbox', '__CPROVER_requires(V_WHICH((uintptr_t)$1) != -1)'),
    ('null_maps_to_null', '__CPROVER_ensures($0 == 0 ==> (uintptr_t)$ret == 0)'),
    ('nonnull_inside_example_sandbox', '__CPROVER_ensures($0 != 0 ==> V_IN(V_WHICH((uintptr_t)$1), (uintptr_t)$ret))'),
    ('faithful', '__CPROVER_ensures(($0 != 0 && (uintptr_t)$0 < V_SIZE[V_WHICH((uintptr_t)$1)]) ==> (uintptr_t)$ret == V_BASE[V_WHICH((uintptr_t)$1)] + (uintptr_t)$0)'),
    ('frame', '__CPROVER_assigns()'),
]


def unsandbox_noctx(tier):
    h = REGIONS + '  unsigned int in_r; uintptr_t in_example;\n  void *r = (void *)$ROOT(in_r, (const void *)in_example);\n'
    return Inst('c03_get_unsandboxed_pointer_no_ctx', 'uint32_t r, const void* ex', 'rlbox_sandbox<vsbx>::get_unsandboxed_pointer_no_ctx<int*>(r, ex);',
                UNSANDBOX_NOCTX_CL, h, leaves=['vsbx.impl_get_unsandboxed_pointer_no_ctx', 'find_sandbox_from_example'], prop=PROP,
                root_name='get_unsandboxed_pointer_no_ctx', tier=tier, pre=PRE_GHOST, replay={'kind': 'unsandbox_noctx'})


def _is_named(name, rec_prefix=None):
    def p(fn, rec):
        return fn.get('name') == name and (rec_prefix is None or (rec or '').startswith(rec_prefix))
    return p


NOCTX_LEAF = ('get_unsandboxed_pointer_no_ctx(contract)', _is_named('get_unsandboxed_pointer_no_ctx'), UNSANDBOX_NOCTX_CL)
CTX_LEAF = ('get_unsandboxed_pointer(contract)', _is_named('get_unsandboxed_pointer'), UNSANDBOX_CTX_CL)


# ---------------------------------------------------------------- loads of pointer cells (object view)
def ptr_to(pointee, const=False):
    """clang's spelling of pointer-to-(const) pointee"""
    if pointee.endswith('*'):
        return pointee + ('const *' if const else '*')
    return ('const ' if const else '') + pointee + ' *'


def load_ptr_cell(form, pointee, tier):
    """form: ctor (tainted<T*> t = tv) | unverified (tv.UNSAFE_unverified())"""
    TV = cs('rlbox::tainted_volatile<%s, rlbox::vsbx>' % ptr_to(pointee))
    TT = cs('rlbox::tainted<%s, rlbox::vsbx>' % ptr_to(pointee))
    cell = '$0' if form == 'ctor' else '$this'
    res = '((uintptr_t)$ret.data)' if form == 'ctor' else '((uintptr_t)$ret)'
    cl = [
        ('wf', '__CPROVER_requires(V_BACKEND_WF)'),
        ('cell_obj', '__CPROVER_requires(__CPROVER_r_ok((const struct %s *)%s, sizeof(struct %s)))' % (TV, cell, TV)),
        ('cell_inv', '__CPROVER_requires(V_WHICH((uintptr_t)%s) != -1)' % cell),
        ('null_or_inside_cells_sandbox', '__CPROVER_ensures(%s == 0 || V_IN(V_WHICH((uintptr_t)%s), %s))' % (res, cell, res)),
        ('null_iff_zero', '__CPROVER_ensures((%s == 0) == (((const struct %s *)%s)->data == 0))' % (res, TV, cell)),
        ('frame', '__CPROVER_assigns()'),
    ]
    h = REGIONS + '  struct %s cell; unsigned int in_repr = cell.data;\n  __CPROVER_assume(V_WHICH((uintptr_t)&cell) != -1);\n' % TV
    if form == 'ctor':
        h += '  struct %s r = $ROOT(&cell);\n' % TT
        params, expr, rn = 'tainted_volatile<%s*, vsbx>& tv' % pointee, 'tainted<%s*, vsbx> t = tv;' % pointee, 'tainted'
        pick = lambda tu, fn: find_func(tu, 'tainted', 'rlbox::tainted<%s, rlbox::vsbx>' % ptr_to(pointee), lambda f, rn_: 'tainted_volatile' in f['type']['qualType'])
    else:
        h += '  void *r = (void *)$ROOT((void *)&cell);\n'
        params, expr, rn = 'tainted_volatile<%s*, vsbx>& tv' % pointee, 'tv.UNSAFE_unverified();', 'UNSAFE_unverified'
        pick = None
    return Inst('c03_load_ptr_cell_%s_%s' % (form, pointee.replace(' ', '_').replace('*', 'p')), params, expr, cl, h,
                leaves=['dynamic_check', NOCTX_LEAF], prop=PROP, root_name=rn, tier=tier, pre=PRE_GHOST, pre_defines=OBJVIEW, root_pick=pick,
                note='object view: the cell is a CBMC object of the guest type; its address is assumed to lie in a live region')


# ---------------------------------------------------------------- dereference and address-of
def deref_inst(op, pointee, tier):
    TT = cs('rlbox::tainted<%s, rlbox::vsbx>' % ptr_to(pointee))
    P = '((uintptr_t)((const struct %s *)$this)->data)' % TT
    cl = [('obj', '__CPROVER_requires(__CPROVER_r_ok((const struct %s *)$this, sizeof(struct %s)))' % (TT, TT)),
          ('designates_pointee', '__CPROVER_ensures((uintptr_t)$ret == %s)' % P),
          ('frame', '__CPROVER_assigns()')]
    h = '  struct %s p; uintptr_t in_p; p.data = (void *)in_p;\n  void *r = (void *)$ROOT((void *)&p);\n' % TT
    expr = '*p;' if op == 'star' else 'p.operator->();'
    return Inst('c03_deref_%s_%s' % (op, pointee.replace(' ', '_').replace('*', 'p')), 'tainted<%s*, vsbx>& p' % pointee, expr, cl, h,
                leaves=[], prop=PROP, root_name='operator*' if op == 'star' else 'operator->', tier=tier, pre=PRE_GHOST,
                note='cell_inv of the referenced cell follows from ptr_inv of p (non-null): same address')


def addrof_inst(const, pointee, tier):
    TV = cs('rlbox::tainted_volatile<%s, rlbox::vsbx>' % pointee)
    cl = [('address_of_this', '__CPROVER_ensures((uintptr_t)$ret.data == (uintptr_t)$this)'),
          ('frame', '__CPROVER_assigns()')]
    cq = 'const ' if const else ''
    h = '  uintptr_t in_cell;\n  struct %s r = $ROOT((void *)in_cell);\n' % cs('rlbox::tainted<%s, rlbox::vsbx>' % ptr_to(pointee, const))
    return Inst('c03_addrof_%s%s' % ('const_' if const else '', pointee.replace(' ', '_').replace('*', 'p')),
                '%stainted_volatile<%s, vsbx>& tv' % (cq, pointee), '&tv;', cl, h, leaves=[], prop=PROP, root_name='operator&', tier=tier,
                pre=PRE_GHOST, note='ptr_inv of the result follows from cell_inv of tv: same address')


# ---------------------------------------------------------------- allocation
def malloc_inst(elem, tier, offset_backend=False, single=False):
    TT = cs('rlbox::tainted<%s *, rlbox::vsbx>' % elem)
    esz = HOST_SIZE[elem]
    R = '((uintptr_t)$ret.data)'
    cl = sb_req('$this') + [
        ('abort_direction_only', '__CPROVER_requires(!g_noabort) /* the allocator result is not an input: only "aborts or invariant" is stated */'),
        ('null_or_start_inside', '__CPROVER_ensures(%s == 0 || V_IN($this->base0.slot, %s))' % (R, R)),
        ('last_element_inside', '__CPROVER_ensures(%s == 0 || V_IN($this->base0.slot, MI(%s) + (MI($0) - 1) * MI(%d)))' % (R, R, esz)),
        ('last_element_inside_exact', '__CPROVER_ensures(%s == 0 || V_IN_MI($this->base0.slot, MI(%s) + (MI($0) - 1) * MI(%d)))' % (R, R, esz)),
        ('frame', '__CPROVER_assigns()'),
    ]
    h = REGIONS + SB_DECL + '  int in_status; sb.sandbox_created = in_status; unsigned int in_count;\n  struct %s r = $ROOT(&sb, in_count);\n' % TT
    if single:
        # the overload without a count (one object): same clauses with count == 1; the counted overload is verified inline below it
        cl = [(k, t.replace('MI($0)', 'MI(1)')) for k, t in cl]
        h = h.replace('$ROOT(&sb, in_count)', '$ROOT(&sb)')
    ctx = CTX_LEAF
    if offset_backend:
        # a backend of the plain base+offset kind (like the suite's test backend): an out-of-range representation handed back
        # by a hostile allocator translates to an address *outside* the region, so the invariant rests on malloc_in_sandbox's
        # own checks rather than on the backend's translation
        ctx = ('get_unsandboxed_pointer(base+offset backend: may leave the region)', _is_named('get_unsandboxed_pointer'),
               sb_req('$this') + [('null_maps_to_null', '__CPROVER_ensures($0 == 0 ==> (uintptr_t)$ret == 0)'),
                                  ('plain_offset', '__CPROVER_ensures($0 != 0 ==> MI((uintptr_t)$ret) == MI(V_BASE[$this->base0.slot]) + MI($0))'),
                                  ('frame', '__CPROVER_assigns()')])
    return Inst('c03_malloc_in_sandbox_%s%s%s' % (elem.replace(' ', '_'), '_offset_backend' if offset_backend else '', '_single' if single else ''), 'rlbox_sandbox<vsbx>& s, uint32_t count',
                's.malloc_in_sandbox<%s>(%s);' % (elem, '' if single else 'count'), cl, h,
                leaves=['dynamic_check', 'vsbx.impl_malloc_in_sandbox', ctx, 'vsbx.impl_is_pointer_in_sandbox_memory', 'vsbx.impl_is_in_same_sandbox'],
                prop=PROP, root_name='malloc_in_sandbox', tier=tier, pre=PRE_GHOST, replay={'kind': 'malloc', 'elem': elem, 'esz': esz})


def same_sandbox_dispatch_inst(tier):
    """rlbox_sandbox::is_in_same_sandbox for a backend whose query takes the finder as a third argument (the other if-constexpr arm):
    the two addresses asked about are the two addresses given, in that order"""
    from vlib.unit import _is
    leaf = ('vsbx_f3.impl_is_in_same_sandbox(contract: three-argument form)', _is('impl_is_in_same_sandbox', 'vsbx_f3'),
            '__CPROVER_ensures($ret == (V_WHICH((uintptr_t)$0) == V_WHICH((uintptr_t)$1)))\n__CPROVER_assigns()')
    cl = [('wf', '__CPROVER_requires(V_BACKEND_WF)'),
          ('answers_for_the_two_addresses_given', '__CPROVER_ensures($ret == (V_WHICH((uintptr_t)$0) == V_WHICH((uintptr_t)$1)))'),
          ('frame', '__CPROVER_assigns()')]
    h = REGIONS + '  uintptr_t in_p1, in_p2;\n  _Bool r = $ROOT((const void *)in_p1, (const void *)in_p2);\n'
    return Inst('c03_is_in_same_sandbox_finder_backend', 'const void* a, const void* b', 'rlbox_sandbox<vsbx_f3>::is_in_same_sandbox(a, b);', cl, h,
                leaves=[leaf, 'find_sandbox_from_example'], prop=PROP, root_name='is_in_same_sandbox', tier=tier, pre=PRE_GHOST,
                note='backend variant vsbx_f3 (query with the finder argument, like the lucet plugin)')


# ---------------------------------------------------------------- pointer arithmetic (contracts of C05, C03 clauses)
def arith_insts(tier):
    out = []
    for (op, idx) in [('add', 'int'), ('sub', 'unsigned int'), ('add', 'short')]:
        it = C05.binop_inst(op, 'long', 'plain', idx, tier)
        it.name = it.name.replace('c05_', 'c03_')
        it.prop = PROP
        out.append(it)
    # &p[n] with a possibly-null base: C03 demands null or inside for the resulting pointer
    nexp = C05.n_expr('plain', 'int')
    cl, P, EX = C05.arith_clauses('long', '+', nexp, result='((uintptr_t)$ret)', null_clause=False)
    cl = [c for c in cl if c[0] in ('wf', 'ptr_inv')]
    cl.append(('abort_direction_only', '__CPROVER_requires(!g_noabort)'))
    cl.append(('result_null_or_inside', '__CPROVER_ensures((uintptr_t)$ret == 0 || V_WHICH((uintptr_t)$ret) != -1)'))
    cl.append(('result_in_bases_sandbox', '__CPROVER_ensures(%s != 0 ==> V_WHICH((uintptr_t)$ret) == V_WHICH(%s))' % (P, P)))
    cl.append(('frame', '__CPROVER_assigns()'))
    decl, argn, param = C05.rhs_decl('plain', 'int')
    h = C05.harness_common('long') + decl + '  void *r = (void *)$ROOT((void *)&p, %s);\n' % argn
    out.append(Inst('c03_index_possibly_null_base', 'tainted<long*, vsbx>& p, int n', 'p[n];', cl, h,
                    leaves=['dynamic_check', 'vsbx.impl_is_in_same_sandbox'], prop=PROP, root_name='operator[]', tier=tier, pre=C05.PRE,
                    replay={'kind': 'ptr_arith', 'op': 'index', 'pointee': 'long', 'rhs_kind': 'plain', 'idx': 'int', 'stride': 4},
                    note='&p[n] for every p satisfying ptr_inv (including null)'))
    return out


# ---------------------------------------------------------------- the backend against A_backend
def backend_insts(tier):
    out = []
    SBH = REGIONS + ('  struct %s sb; int in_slot; sb.slot = in_slot;\n'
                     '  __CPROVER_assume((in_slot == 0 || in_slot == 1) && V_LIVE(in_slot));\n' % cs('rlbox::vsbx'))

    def mk(name, key, snippet_params, snippet_expr, call, extra_decl='', obj_req=True):
        pred, text = LEAVES[key]
        text = clauses_text(text)
        def pick(tu, fn, name=name):
            try:
                return find_func(tu, name, 'rlbox::vsbx')
            except Exception:
                # several instantiations of one member template (one per pointer type used in the unit): same body, take T = int*
                return find_func(tu, name, 'rlbox::vsbx', lambda f, rn: 'IPiE' in f.get('mangledName', ''))
        cl = text
        if obj_req:
            cl = '__CPROVER_requires(V_BACKEND_WF && ($this->slot == 0 || $this->slot == 1) && V_LIVE($this->slot))\n' + text
        else:
            cl = '__CPROVER_requires(V_BACKEND_WF)\n' + text
        return Inst('c03_backend_' + name, snippet_params, snippet_expr, cl, (SBH if obj_req else REGIONS) + extra_decl + call, leaves=[], prop=PROP, root_name=name, tier=tier,
                    pre=PRE_GHOST, root_pick=pick, note='body of the verification backend against the A_backend contract "%s"' % key)
    out.append(mk('impl_is_in_same_sandbox', 'vsbx.impl_is_in_same_sandbox', 'const void* a, const void* b', 'rlbox_sandbox<vsbx>::is_in_same_sandbox(a, b);',
                  '  uintptr_t in_a, in_b;\n  $ROOT((const void *)in_a, (const void *)in_b);\n', obj_req=False))
    out.append(mk('impl_is_pointer_in_sandbox_memory', 'vsbx.impl_is_pointer_in_sandbox_memory', 'rlbox_sandbox<vsbx>& s, const void* a', 's.is_pointer_in_sandbox_memory(a);',
                  '  uintptr_t in_a;\n  $ROOT(&sb, (const void *)in_a);\n'))
    out.append(mk('impl_get_total_memory', 'vsbx.impl_get_total_memory', 'rlbox_sandbox<vsbx>& s', 's.get_total_memory();', '  $ROOT(&sb);\n'))
    out.append(mk('impl_get_unsandboxed_pointer', 'vsbx.impl_get_unsandboxed_pointer', 'rlbox_sandbox<vsbx>& s, uint32_t r', 's.get_unsandboxed_pointer<int*>(r);',
                  '  unsigned int in_r;\n  $ROOT(&sb, in_r);\n'))
    out.append(mk('impl_get_sandboxed_pointer', 'vsbx.impl_get_sandboxed_pointer', 'rlbox_sandbox<vsbx>& s, const void* a', 's.get_sandboxed_pointer<int*>(a);',
                  '  uintptr_t in_a;\n  $ROOT(&sb, (const void *)in_a);\n'))
    # the no-context forms: the backend finds the sandbox through the finder it is handed (rlbox_sandbox::find_sandbox_from_example:
    # contract proved under C04 over the registry of C14 - it returns the live sandbox whose region contains the example)
    VS = cs('rlbox::vsbx')
    finder = ('struct %s *finder_stub(const void *example)\n'
              '__CPROVER_requires(V_WHICH((uintptr_t)example) != -1)\n'
              '__CPROVER_ensures(__CPROVER_return_value == g_found && g_found->slot == V_WHICH((uintptr_t)example))\n__CPROVER_assigns();\n' % VS)
    for name, key, params, expr, call in [
            ('impl_get_unsandboxed_pointer_no_ctx', 'vsbx.impl_get_unsandboxed_pointer_no_ctx', 'uint32_t r, const void* ex', 'rlbox_sandbox<vsbx>::get_unsandboxed_pointer_no_ctx<int*>(r, ex);',
             '  unsigned int in_r; uintptr_t in_ex;\n  $ROOT(in_r, (const void *)in_ex, finder_stub);\n'),
            ('impl_get_sandboxed_pointer_no_ctx', 'vsbx.impl_get_sandboxed_pointer_no_ctx', 'const void* a, const void* ex', 'rlbox_sandbox<vsbx>::get_sandboxed_pointer_no_ctx<int*>(a, ex);',
             '  uintptr_t in_a, in_ex;\n  $ROOT((const void *)in_a, (const void *)in_ex, finder_stub);\n')]:
        pred, text = LEAVES[key]
        cl = '__CPROVER_requires(V_BACKEND_WF && __CPROVER_r_ok(g_found, sizeof(*g_found)) && (g_found->slot == 0 || g_found->slot == 1))\n' + clauses_text(text)
        h = REGIONS + '  struct %s found; int in_slot; found.slot = in_slot; g_found = &found; __CPROVER_assume(in_slot == 0 || in_slot == 1);\n' % VS + call

        def pick(tu, fn, name=name):
            try:
                return find_func(tu, name, 'rlbox::vsbx')
            except Exception:
                return find_func(tu, name, 'rlbox::vsbx', lambda f, rn: 'IPiE' in f.get('mangledName', ''))
        it = Inst('c03_backend_' + name, params, expr, cl, h, leaves=[], prop=PROP, root_name=name, tier=tier, pre=PRE_GHOST + ' struct %s *g_found;\n' % VS, post_protos=finder,
                  root_pick=pick, opts={'param_fn_stubs': {'*': 'finder_stub'}}, extra_replace=['finder_stub'],
                  note='body of the verification backend against the A_backend contract "%s"; the finder is a stub with the contract proved under C04' % key)
        out.append(it)
    for it in out:
        it.solvers = ('minisat', 'cvc5', 'z3')     # the backend swizzle uses % : SMT back ends decide it
    return out


def units(tier):
    insts = [unsandbox_ctx(tier), unsandbox_noctx(tier)]
    for pointee in (['int'] if tier == 'quick' else ['int', 'long', 'char', 'int *']):
        insts.append(load_ptr_cell('ctor', pointee, tier))
        insts.append(load_ptr_cell('unverified', pointee, tier))
        insts.append(deref_inst('star', pointee, tier))
        insts.append(deref_inst('arrow', pointee, tier))
        insts.append(addrof_inst(False, pointee, tier))
        insts.append(addrof_inst(True, pointee, tier))
    for elem in (['int'] if tier == 'quick' else ['int', 'char', 'long', 'double']):
        insts.append(malloc_inst(elem, tier))
        insts.append(malloc_inst(elem, tier, offset_backend=True))
        insts.append(malloc_inst(elem, tier, offset_backend=True, single=True))
    insts.append(same_sandbox_dispatch_inst(tier))
    # position "granting access": the tainted pointer handed back is the address the BACKEND granted (contracts of C10, native path)
    from . import C10
    it = C10.native_access_inst('grant', 'char16_t', 2, tier)
    it.name = 'c03_granted_pointer_is_the_backends_address'
    it.prop = PROP
    insts.append(it)
    from . import C02
    insts.append(C02.cast_shape_inst(tier, PROP, 'c03'))
    # cell_inv (a tainted_volatile object lives in sandbox memory) rests on a C++ access rule: application code cannot create
    # one - not by default construction, not by copying or moving one out of the sandbox
    from .common import access_fact_inst
    nc = lambda t: ('!std::is_default_constructible_v<%s> && !std::is_copy_constructible_v<%s> && !std::is_move_constructible_v<%s>' % (t, t, t))
    insts.append(access_fact_inst('c03_sandbox_cells_cannot_be_created_by_the_application', PROP,
                                  [('a_scalar_cell_cannot_be_constructed_or_copied', nc('tainted_volatile<int, vsbx>')),
                                   ('a_pointer_cell_cannot_be_constructed_or_copied', nc('tainted_volatile<int*, vsbx>')),
                                   ('an_array_cell_cannot_be_constructed_or_copied', nc('tainted_volatile<int[4], vsbx>'))], tier))
    insts += arith_insts(tier)
    # &(*parr)[i] / &p->arr[i]: element cells of an in-sandbox array stay inside the array object (contract of C17),
    # hence inside the sandbox whenever the array cell is (cell_inv of the whole array)
    for idx in (['int', 'unsigned long'] if tier == 'quick' else C17.INDEX_TYPES):
        it = C17.arr_inst('tainted_volatile', 'long', [4], 'plain', idx, tier)
        it.name = it.name.replace('c17_', 'c03_elem_')
        it.prop = PROP
        insts.append(it)
    insts += backend_insts(tier)
    # reading struct fields: a whole-struct copy out of sandbox memory (macro-expanded tainted<S>(const tainted_volatile<S>&),
    # contract of C08) yields pointer fields that are null or inside the sandbox the struct lives in
    from . import C08
    sinsts = []
    # address-of a struct that lives in sandbox memory (macro-generated operator&): designates the struct itself
    for S in (['VOuter'] if tier == 'quick' else ['VOuter', 'VInner']):
        TVS = cs('rlbox::tainted_volatile<rlbox::%s, rlbox::vsbx>' % S)
        cl = [('address_of_this', '__CPROVER_ensures((uintptr_t)$ret.data == (uintptr_t)$this)'), ('frame', '__CPROVER_assigns()')]
        h = '  uintptr_t in_cell;\n  struct %s r = $ROOT((void *)in_cell);\n' % cs('rlbox::tainted<const rlbox::%s *, rlbox::vsbx>' % S)
        sinsts.append(Inst('c03_addrof_struct_%s' % S, 'tainted_volatile<const %s, vsbx>& tv' % S, '&tv;', cl, h, leaves=[], prop=PROP, root_name='operator&', tier=tier,
                           pre=PRE_GHOST, may_not_compile=True, note='ptr_inv of the result follows from cell_inv of the struct: same address (struct reached through a pointer to const: the form for non-const structs does not compile on the pinned tree)'))
    # reading a struct out by value (UNSAFE_unverified: a further macro-generated field loop) - pointer fields likewise
    for S in (['VOuter'] if tier == 'quick' else ['VOuter', 'VMisc']):
        it = C08.unverified_inst(S, tier)
        it.name = it.name.replace('c08_', 'c03_struct_')
        it.prop = PROP
        sinsts.append(it)
    for S in (['VOuter'] if tier == 'quick' else ['VOuter', 'VRev']):
        it = C08.load_inst(S, tier)
        it.name = it.name.replace('c08_', 'c03_struct_')
        it.prop = PROP
        W = 'V_WHICH((uintptr_t)$0)'
        it.contract = [c for c in it.contract if c[0] != 'frame'] + [
            ('pointer_field_null_or_inside_the_structs_sandbox', '__CPROVER_ensures((uintptr_t)$ret.p.data == 0 || V_IN(%s, (uintptr_t)$ret.p.data))' % W),
            ('frame', '__CPROVER_assigns()')]
        sinsts.append(it)
    # every 'or the operation aborts' clause rests on the body of detail::dynamic_check (a contract leaf in the instances above):
    # it is verified here in the default and in the NDEBUG build configuration (contract of C06)
    from . import C06
    return ([Unit('C03_ptr_invariant', insts), Unit('C03_struct_fields', sinsts, includes=('rlbox.hpp', 'vsbx.hpp', 'vstructs.hpp'))]) + C06.dynamic_check_units(tier, PROP, 'c03')


ASSUMPTIONS = [
    'A_backend (DESIGN.md 4.1) for sandbox plugins in general; it is DISCHARGED here for the verification backend vsbx (instances c03_backend_*), i.e. vsbx::impl_* bodies are proved against the contracts every other unit replaces them with',
    'application-visible tainted_volatile cells lie inside a live sandbox region (cell_inv) - established by operator*/-> from a non-null tainted pointer satisfying ptr_inv',
    'struct-field and array-element cells (&p->f, &(*parr)[i]) are decided under C08/C17; casts and opaque conversion under C20; app_pointer under C15',
]
TRUSTED = ['object view for pointer-cell loads: the cell is a CBMC object whose integer address is constrained to a live region (V_MAX_BASE relaxed so that CBMC object addresses are admissible)']
MANIFEST = {
    'level_text': 'Representation invariant proof: each pointer-producing operation (guest-representation translation with and without context for all 2^32 representations, loads of pointer cells, * and ->, &, + - [], malloc_in_sandbox) is proved to return null or an address inside the owning sandbox (or abort) given the invariant on its inputs; callers are verified against callee contracts, so chains of any depth follow by induction over the contracts - no depth bound. The verification backend itself is proved against the A_backend contracts the other units assume.',
    'level_note': 'Assumes A_backend for third-party plugins (discharged for vsbx); known finding: pointer operator[] on a null base (no null check) yields a non-null address outside every sandbox. Field/element address-of at the end of the region relies on guard pages by design and is outside what the code checks (DESIGN.md section 8 item 11).',
}
