"""C05 - tainted pointer arithmetic stays inside the sandbox and uses the sandbox stride.
Functions under contract (rlbox.hpp): tainted_base_impl::operator+ / operator- (pointer branch of
BinaryOpValAndPtr, 101-143), pointer operator[] (370-394, 420-424), operator+= / -= (179-200),
++/-- pre and post (202-228).  The spec stride is the size of the pointee under the vsbx guest ABI from the
independent table in common.py; the code stride is whatever the instantiation contains as sizeof(*impl())."""
from vlib.unit import Unit, Inst, LEAVES
from .common import CXX_INTS, GUEST_SIZE, mi, tid, cs

PROP = 'C05'
TITLE = 'Tainted pointer arithmetic stays in the sandbox and uses the sandbox stride'
FUNCTIONS = ['tainted_base_impl::operator+ (pointer branch, rlbox.hpp:101-143)', 'tainted_base_impl::operator- (pointer branch)',
             'tainted_base_impl::operator[] (pointer branch, rlbox.hpp:370-394, 420-424)',
             'tainted_base_impl::operator+= / operator-= (rlbox.hpp:179-200)',
             'tainted_base_impl::operator++ / operator-- prefix and postfix (rlbox.hpp:202-228)']

# pointee C++ type -> (snippet spelling, guest size)
POINTEES = {
    'long': GUEST_SIZE['long'], 'char': 1, 'short': 2, 'int': 4, 'long long': 8, 'double': 8, 'unsigned long': 4,
    'int*': GUEST_SIZE['pointer'],
}
INDEX_TYPES = ['signed char', 'unsigned char', 'char', 'short', 'unsigned short', 'int', 'unsigned int', 'long',
               'unsigned long', 'long long', 'unsigned long long', 'bool', 'char16_t', 'char32_t', 'wchar_t']

PRE = '_Bool g_noabort; _Bool g_backend_nonnull; unsigned long g_expect_example; unsigned long g_expect_malloc_size;'


def tstruct(pointee):
    return cs('rlbox::tainted<%s *, rlbox::vsbx>' % pointee if not pointee.endswith('*') else 'rlbox::tainted<%s*, rlbox::vsbx>' % pointee)


def ptr_t(pointee):
    return '%s*' % pointee


def n_expr(kind, idx, arg='$0'):
    """C expression of the index value as a mathint, given how the right operand is wrapped"""
    if kind == 'plain':
        return 'MI(*%s)' % arg
    if kind == 'tainted':
        return 'MI(((const struct %s *)%s)->data)' % (cs('rlbox::tainted<%s, rlbox::vsbx>' % idx), arg)
    if kind == 'tainted_volatile':
        return 'MI(((const struct %s *)%s)->data)' % (cs('rlbox::tainted_volatile<%s, rlbox::vsbx>' % idx), arg)
    raise ValueError(kind)


def arith_clauses(pointee, sign, nexp, this='$this', result=None, null_clause=True, for_leaf=False, mutating=False):
    """clause list for p (+|-) n.  result: C expression of the produced address (uintptr_t).
    mutating: the operation overwrites *this, so post-conditions speak about __CPROVER_old(this->data)."""
    TT = tstruct(pointee)
    S = POINTEES[pointee]
    P = '((uintptr_t)((const struct %s *)%s)->data)' % (TT, this)
    PO = '((uintptr_t)__CPROVER_old(((const struct %s *)%s)->data))' % (TT, this) if mutating else P

    def EX(p):
        return '(MI(%s) %s (%s) * MI(%d))' % (p, sign, nexp, S)
    NOWRAP = '((%s) * MI(%d) >= -%s && (%s) * MI(%d) < %s)' % (nexp, S, mi(2**63), nexp, S, mi(2**63))
    cl = []
    cl.append(('wf', '__CPROVER_requires(V_BACKEND_WF)'))
    cl.append(('ptr_inv', '__CPROVER_requires(%s == 0 || V_WHICH(%s) != -1)' % (P, P)))
    cl.append(('noabort_pre', '__CPROVER_requires(g_noabort ==> (%s != 0 && V_IN_MI(V_WHICH(%s), %s)))' % (P, P, EX(P))))
    if null_clause:
        cl.append(('null_aborts', '__CPROVER_ensures(%s != 0)' % PO))
    res = result or '((uintptr_t)$ret.data)'
    cl.append(('inside_nowrap', '__CPROVER_ensures((%s && %s != 0) ==> V_IN_MI(V_WHICH(%s), %s))' % (NOWRAP, PO, PO, EX(PO))))
    cl.append(('exact_nowrap', '__CPROVER_ensures(%s ==> MI(%s) == %s)' % (NOWRAP, res, EX(PO))))
    # outside the no-wrap domain the operation aborts (scaled_offset_does_not_wrap), so the exact result holds there too;
    # the clause is part of the contract callers (compound assignment, ++/--) rely on
    cl.append(('exact_wrap', '__CPROVER_ensures(!%s ==> MI(%s) == %s)' % (NOWRAP, res, EX(PO))))
    return cl, PO, EX(PO)


def harness_common(pointee):
    TT = tstruct(pointee)
    return ('  struct %s p; uintptr_t in_p; p.data = (%s)in_p;\n'
            '  unsigned long in_base0, in_size0, in_base1, in_size1;\n'
            '  V_BASE[0] = in_base0; V_SIZE[0] = in_size0; V_BASE[1] = in_base1; V_SIZE[1] = in_size1;\n'
            '  __CPROVER_assume(V_BACKEND_WF);\n'
            '  _Bool in_noabort; g_noabort = in_noabort;\n' % (TT, ctype_ptr(pointee)))


def ctype_ptr(pointee):
    c = {'long': 'long', 'char': 'char', 'short': 'short', 'int': 'int', 'long long': 'long long', 'double': 'double',
         'unsigned long': 'unsigned long', 'int*': 'int *'}[pointee]
    return c + ' *'


def rhs_decl(kind, idx):
    c = CXX_INTS[idx][0]
    if kind == 'plain':
        return '  %s n; %s in_n = n;\n' % (c, c), '&n', '%s n' % idx
    if kind == 'tainted':
        st = cs('rlbox::tainted<%s, rlbox::vsbx>' % idx)
        return '  struct %s n; %s in_n = n.data;\n' % (st, c), '&n', 'tainted<%s, vsbx>& n' % idx
    st = cs('rlbox::tainted_volatile<%s, rlbox::vsbx>' % idx)
    return '  struct %s n; long long in_n = n.data;\n' % st, '&n', 'tainted_volatile<%s, vsbx>& n' % idx


def replay_spec(op, pointee, kind, idx):
    return {'kind': 'ptr_arith', 'op': op, 'pointee': pointee, 'rhs_kind': kind, 'idx': idx, 'stride': POINTEES[pointee]}


def binop_inst(op, pointee, kind, idx, tier):
    sign = '+' if op == 'add' else '-'
    nexp = n_expr(kind, idx)
    cl, P, EX = arith_clauses(pointee, sign, nexp)
    cl.append(('frame', '__CPROVER_assigns()'))
    decl, argn, param = rhs_decl(kind, idx)
    TT = tstruct(pointee)
    h = harness_common(pointee) + decl + '  struct %s r = $ROOT((void *)&p, %s);\n' % (TT, argn)
    return Inst('c05_%s_%s_%s_%s' % (op, tid(pointee).replace('*', 'p'), kind, tid(idx)),
                'tainted<%s, vsbx>& p, %s' % (ptr_t(pointee), param), 'p %s n;' % sign, cl, h,
                leaves=['dynamic_check', 'vsbx.impl_is_in_same_sandbox'], prop=PROP, root_name='operator' + sign, tier=tier, pre=PRE,
                replay=replay_spec(op, pointee, kind, idx), note='%s* %s %s(%s)' % (pointee, sign, kind, idx))


def reversed_operands_inst(tier):
    """n + p with the tainted pointer as the *second* operand: the same operation in C.  The library refuses it at compile time
    (static_assert in the value branch of the + operator); if it ever compiles again it must satisfy the clauses of p + n."""
    TI = cs('rlbox::tainted<int, rlbox::vsbx>')
    TP = tstruct('long')
    P = '((uintptr_t)((const struct %s *)$0)->data)' % TP
    N = 'MI(((const struct %s *)$this)->data)' % TI
    EX = '(MI(%s) + %s * MI(%d))' % (P, N, POINTEES['long'])
    cl = [('wf', '__CPROVER_requires(V_BACKEND_WF)'),
          ('ptr_inv', '__CPROVER_requires(%s == 0 || V_WHICH(%s) != -1)' % (P, P)),
          ('null_aborts', '__CPROVER_ensures(%s != 0)' % P),
          ('inside', '__CPROVER_ensures(%s != 0 ==> V_IN_MI(V_WHICH(%s), %s))' % (P, P, EX)),
          ('exact_with_the_sandbox_stride', '__CPROVER_ensures(MI((uintptr_t)$ret.data) == %s)' % EX),
          ('frame', '__CPROVER_assigns()')]
    h = harness_common('long') + '  struct %s n; int in_n = n.data; g_noabort = 0;\n  struct %s r = $ROOT((void *)&n, &p);\n' % (TI, TP)
    return Inst('c05_int_plus_pointer', 'tainted<int, vsbx>& n, tainted<long*, vsbx>& p', 'n + p;', cl, h,
                leaves=['dynamic_check', 'vsbx.impl_is_in_same_sandbox'], prop=PROP, root_name='operator+', tier=tier, pre=PRE, may_not_compile=True,
                note='n + p; not an instance while the library rejects the expression')


def index_inst(pointee, kind, idx, tier):
    nexp = n_expr(kind, idx)
    cl, P, EX = arith_clauses(pointee, '+', nexp, result='((uintptr_t)$ret)', null_clause=False)
    # C05 speaks about non-null p for []; &nullp[n] is C03's business
    cl.insert(1, ('nonnull_pre', '__CPROVER_requires(%s != 0)' % P))
    cl.append(('frame', '__CPROVER_assigns()'))
    decl, argn, param = rhs_decl(kind, idx)
    h = harness_common(pointee) + decl + '  void *r = (void *)$ROOT((void *)&p, %s);\n' % argn
    return Inst('c05_index_%s_%s_%s' % (tid(pointee).replace('*', 'p'), kind, tid(idx)),
                'tainted<%s, vsbx>& p, %s' % (ptr_t(pointee), param), 'p[n];', cl, h,
                leaves=['dynamic_check', 'vsbx.impl_is_in_same_sandbox'], prop=PROP, root_name='operator[]', tier=tier, pre=PRE,
                replay=replay_spec('index', pointee, kind, idx), note='(%s*)[%s(%s)]' % (pointee, kind, idx))


def adversarial_rhs_inst(form, pointee, idx, tier):
    """the right operand lives in sandbox memory (tainted_volatile<idx>) and may be rewritten between any two reads
    (goto-instrument --nondet-volatile): whatever is read, the produced address is inside p's sandbox, or the call aborts"""
    it = binop_inst('add', pointee, 'tainted_volatile', idx, tier) if form == 'add' else index_inst(pointee, 'tainted_volatile', idx, tier)
    TT = tstruct(pointee)
    P = '((uintptr_t)((const struct %s *)$this)->data)' % TT
    res = '((uintptr_t)$ret.data)' if form == 'add' else '((uintptr_t)$ret)'
    it.name = it.name + '_adversarial'
    it.contract = [c for c in it.contract if c[0] in ('wf', 'ptr_inv', 'nonnull_pre')] + [
        ('operand_cell', '__CPROVER_requires(__CPROVER_r_ok($0, sizeof(*$0)))'),
        ('inside_the_sandbox_of_p_or_aborts', '__CPROVER_ensures(%s != 0 && V_IN_MI(V_WHICH(%s), MI(%s)))' % (P, P, res)),
        ('frame', '__CPROVER_assigns()')]
    it.harness = it.harness.replace('g_noabort = in_noabort;', 'g_noabort = 0;')
    it.nondet_volatile = True
    it.opts = dict(it.opts or {}, amp_star=True, volatile_read_check=True)
    it.replay = None
    it.solvers = ('minisat', 'z3')
    it.note = 'right operand in sandbox memory, adversarial reads: the value that passed the range check is the value that is added'
    return it


def plus_leaf(pointee, sign, kind, idx):
    """operator+/- as a contract leaf for the forms defined through it: only the clauses that are proved for it"""
    nexp = n_expr(kind, idx)
    cl, P, EX = arith_clauses(pointee, sign, nexp, for_leaf=True)
    cl.append(('frame', '__CPROVER_assigns()'))

    def pred(fn, rec):
        return fn.get('name') == 'operator' + sign and rec is not None and rec.startswith('rlbox::tainted_base_impl')
    return ('operator%s(contract)' % sign, pred, cl)


def compound_inst(op, pointee, kind, idx, tier):
    sign = '+' if op == 'add' else '-'
    nexp = n_expr(kind, idx)
    TT = tstruct(pointee)
    cl, P, EX = arith_clauses(pointee, sign, nexp, result='((uintptr_t)((const struct %s *)$this)->data)' % TT, mutating=True)
    cl.append(('returns_self', '__CPROVER_ensures((void *)$ret == (void *)$this)'))
    cl.append(('frame', '__CPROVER_assigns(((struct %s *)$this)->data)' % TT))
    decl, argn, param = rhs_decl(kind, idx)
    h = harness_common(pointee) + decl + '  void *r = (void *)$ROOT((void *)&p, %s);\n' % argn
    return Inst('c05_%sassign_%s_%s_%s' % (op, tid(pointee).replace('*', 'p'), kind, tid(idx)),
                'tainted<%s, vsbx>& p, %s' % (ptr_t(pointee), param), 'p %s= n;' % sign, cl, h,
                leaves=['dynamic_check', plus_leaf(pointee, sign, kind, idx)], prop=PROP, root_name='operator%s=' % sign, tier=tier, pre=PRE,
                replay=replay_spec(op + 'assign', pointee, kind, idx), note='(%s*) %s= %s(%s)' % (pointee, sign, kind, idx))


def incdec_inst(form, pointee, tier):
    """form in preinc, predec, postinc, postdec"""
    sign = '+' if 'inc' in form else '-'
    TT = tstruct(pointee)
    cl, P, EX = arith_clauses(pointee, sign, 'MI(1)', result='((uintptr_t)((const struct %s *)$this)->data)' % TT, mutating=True)
    if form.startswith('pre'):
        cl.append(('returns_self', '__CPROVER_ensures((void *)$ret == (void *)$this)'))
        expr = '%s%sp;' % (sign, sign)
        call = '  void *r = (void *)$ROOT((void *)&p);\n'
    else:
        cl.append(('returns_old', '__CPROVER_ensures((uintptr_t)$ret.data == %s)' % P))
        expr = 'p%s%s;' % (sign, sign)
        call = '  struct %s r = $ROOT((void *)&p, 0);\n' % TT
    cl.append(('frame', '__CPROVER_assigns(((struct %s *)$this)->data)' % TT))
    h = harness_common(pointee) + call
    return Inst('c05_%s_%s' % (form, tid(pointee).replace('*', 'p')), 'tainted<%s, vsbx>& p' % ptr_t(pointee), expr, cl, h,
                leaves=['dynamic_check', plus_leaf(pointee, '+', 'plain', 'int'), plus_leaf(pointee, '-', 'plain', 'int')],
                prop=PROP, root_name='operator%s%s' % (sign, sign), tier=tier, pre=PRE,
                replay=replay_spec(form, pointee, 'plain', 'int'), note='%s on %s*' % (form, pointee))


def same_sandbox_query_inst(tier):
    # "stays in the sandbox" rests on the same-sandbox query of the core: also for a backend whose query takes the finder as a third
    # argument (the other arm of rlbox_sandbox::is_in_same_sandbox; contract of C03)
    from . import C03
    it = C03.same_sandbox_dispatch_inst(tier)
    it.name = 'c05_is_in_same_sandbox_finder_backend'
    it.prop = PROP
    return it


def units(tier):
    insts = [reversed_operands_inst(tier), same_sandbox_query_inst(tier)]
    if tier == 'quick':
        for idx in ['int', 'unsigned int', 'long', 'unsigned long', 'signed char', 'unsigned short']:
            insts.append(binop_inst('add', 'long', 'plain', idx, tier))
        for idx in ['int', 'unsigned long', 'short']:
            insts.append(binop_inst('sub', 'long', 'plain', idx, tier))
        for idx in ['int', 'long long', 'unsigned char']:
            insts.append(index_inst('long', 'plain', idx, tier))
        for pointee in ['char', 'long long', 'int*', 'short']:
            insts.append(binop_inst('add', pointee, 'plain', 'int', tier))
        insts.append(binop_inst('add', 'long', 'tainted', 'int', tier))
        insts.append(binop_inst('sub', 'long', 'tainted_volatile', 'int', tier))
        insts.append(index_inst('long', 'tainted', 'unsigned int', tier))
        insts.append(compound_inst('add', 'long', 'plain', 'int', tier))
        insts.append(compound_inst('sub', 'long', 'plain', 'unsigned int', tier))
        for form in ['preinc', 'predec', 'postinc', 'postdec']:
            insts.append(incdec_inst(form, 'long', tier))
        insts.append(adversarial_rhs_inst('add', 'long', 'int', tier))
        insts.append(adversarial_rhs_inst('index', 'long', 'unsigned long', tier))
    else:
        for pointee in POINTEES:
            for idx in INDEX_TYPES:
                insts.append(binop_inst('add', pointee, 'plain', idx, tier))
                insts.append(binop_inst('sub', pointee, 'plain', idx, tier))
                insts.append(index_inst(pointee, 'plain', idx, tier))
            for kind in ['tainted', 'tainted_volatile']:
                for idx in ['int', 'unsigned int', 'long', 'unsigned short', 'signed char']:
                    insts.append(binop_inst('add', pointee, kind, idx, tier))
                    insts.append(binop_inst('sub', pointee, kind, idx, tier))
                    insts.append(index_inst(pointee, kind, idx, tier))
            for idx in ['int', 'unsigned int', 'long', 'short']:
                insts.append(compound_inst('add', pointee, 'plain', idx, tier))
                insts.append(compound_inst('sub', pointee, 'plain', idx, tier))
            for form in ['preinc', 'predec', 'postinc', 'postdec']:
                insts.append(incdec_inst(form, pointee, tier))
        for form in ['add', 'index']:
            for idx in ['int', 'unsigned long', 'short', 'unsigned char']:
                insts.append(adversarial_rhs_inst(form, 'long', idx, tier))
            insts.append(adversarial_rhs_inst(form, 'char', 'long', tier))
    # split into units of bounded size (one clang dump each)
    out = []
    for i in range(0, len(insts), 120):
        out.append(Unit('C05_ptr_arith_%d' % (i // 120), insts[i:i + 120]))
    # every 'or the operation aborts' clause rests on the body of detail::dynamic_check (a contract leaf in the instances above):
    # it is verified here in the default and in the NDEBUG build configuration (contract of C06)
    from . import C06
    return (out) + C06.dynamic_check_units(tier, PROP, 'c05')


ASSUMPTIONS = [
    'A_backend for the verification backend vsbx (DESIGN.md 4.1): regions live in [4096, 2^47), at most 4 GiB, disjoint; impl_is_in_same_sandbox(a,b) == (which(a)==which(b)) (its body is verified against this contract in the backend unit of C03)',
    'dynamic_check is a contract leaf in the operator instances: requires(g_noabort ==> check) ensures(check); its body is proved against that contract by the dynamic_check units of this check (default and NDEBUG configuration); what stays assumed is that abort()/throw do not return',
    'exact-result clauses for a right operand held in sandbox memory (tainted_volatile): the operand cell is stable for the duration of the one call; the safety clause - the produced address is inside the sandbox of p, or the call aborts - is proved WITHOUT that assumption by the *_adversarial instances (goto-instrument --nondet-volatile: every read of the cell returns a fresh value)',
]
TRUSTED = ['guest ABI table of vsbx used as the spec stride (props/common.py GUEST_SIZE), independent of the headers']

MANIFEST = {
    'level_text': 'Each instantiated operator body (pointer +, -, [], +=, -=, ++, -- pre/post) is proved against a contract taken from the statement: for all 2^64 base addresses, all values of the index type and every well-formed two-region address space, the call either aborts or returns exactly p +/- n*s (s = guest size of the pointee) with that address inside p\'s sandbox, does not abort when that address is inside, and aborts on a null base. Compound and ++/-- forms are verified against the proved contract of + / - (callers see the callee contract, not its body). Loop-free, full-width symbolic inputs: complete.',
    'level_note': 'Assumes A_backend for vsbx and the dynamic_check leaf contract; instances: quick = pointee long with 6 index types plus 4 other strides, wrapped operands and all compound/inc/dec forms; thorough = 8 pointee types x 15 index types x operand wrappers. Struct pointees are covered through C08. Fixed finding: the 64-bit index product wrapped (now refused by scaled_offset_does_not_wrap).',
}
