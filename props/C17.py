"""C17 - indexing a tainted fixed-size array is bounds-checked for every index type.
Function under contract: tainted_base_impl::operator[] array branch (rlbox.hpp:395-418 via 420-424), for arrays in
application memory (tainted<T[N]>: std::array of the application element type) and in sandbox memory
(tainted_volatile<T[N]>: std::array of the guest element type)."""
from vlib.unit import Unit, Inst
from .common import CXX_INTS, mi, tid, cs, elem_size, PRE_GHOST, idx_value, idx_decl

PROP = 'C17'
TITLE = 'Indexing a tainted fixed-size array is bounds-checked for every index type'
FUNCTIONS = ['tainted_base_impl::operator[] (array branch, rlbox.hpp:395-418; non-const wrapper 420-424)']
INDEX_TYPES = ['signed char', 'unsigned char', 'char', 'short', 'unsigned short', 'int', 'unsigned int', 'long',
               'unsigned long', 'long long', 'unsigned long long', 'char16_t', 'char32_t', 'wchar_t']


def arr_inst(wrap, elem, dims, kind, idx, tier):
    """wrap: tainted|tainted_volatile; elem: element C++ type; dims: list of extents, e.g. [4] or [2,3]"""
    guest = wrap == 'tainted_volatile'
    arr_t = elem + ''.join('[%d]' % d for d in dims)
    TA = cs('rlbox::%s<%s, rlbox::vsbx>' % (wrap, arr_t))
    n0 = dims[0]
    esz = elem_size(elem, guest)
    for d in dims[1:]:
        esz *= d
    I = idx_value(kind, idx, '$0')
    base = '((uintptr_t)&((const struct %s *)$this)->data)' % TA
    cl = [
        ('obj', '__CPROVER_requires(__CPROVER_r_ok((const struct %s *)$this, sizeof(struct %s)))' % (TA, TA)),
        ('noabort_pre', '__CPROVER_requires(g_noabort ==> (%s >= MI(0) && %s < MI(%d)))' % (I, I, n0)),
        ('in_range', '__CPROVER_ensures(%s >= MI(0) && %s < MI(%d))' % (I, I, n0)),
        ('element', '__CPROVER_ensures(MI((uintptr_t)$ret) == MI(%s) + %s * MI(%d))' % (base, I, esz)),
        ('whole_array_size', '__CPROVER_ensures(sizeof(((const struct %s *)$this)->data) == %d)' % (TA, esz * n0)),
        ('frame', '__CPROVER_assigns()'),
    ]
    decl, param = idx_decl(kind, idx, 'i')
    h = ('  struct %s a; %s  _Bool in_noabort; g_noabort = in_noabort;\n'
         '  void *r = (void *)$ROOT((void *)&a, &i);\n' % (TA, decl))
    name = 'c17_%s_%s_%s_%s_%s' % ('app' if not guest else 'sbx', tid(elem).replace('*', 'p'), 'x'.join(map(str, dims)), kind, tid(idx))
    return Inst(name, '%s<%s, vsbx>& a, %s' % (wrap, arr_t, param), 'a[i];', cl, h, leaves=['dynamic_check'], prop=PROP,
                root_name='operator[]', tier=tier, pre=PRE_GHOST,
                replay={'kind': 'arr_index', 'wrap': wrap, 'arr': arr_t, 'n0': n0, 'esz': esz, 'rhs_kind': kind, 'idx': idx},
                note='%s<%s>[%s(%s)]' % (wrap, arr_t, kind, idx))


def adversarial_index_inst(wrap, idx, tier):
    """an index that itself lives in sandbox memory (tainted_volatile<idx>) may be rewritten between any two reads
    (goto-instrument --nondet-volatile): whatever is read, the designated element lies inside the array, or the call aborts"""
    it = arr_inst(wrap, 'long', [4], 'tainted_volatile', idx, tier)
    guest = wrap == 'tainted_volatile'
    TA = cs('rlbox::%s<long[4], rlbox::vsbx>' % wrap)
    esz = elem_size('long', guest)
    base = '((uintptr_t)&((const struct %s *)$this)->data)' % TA
    it.name = it.name + '_adversarial'
    it.contract = [c for c in it.contract if c[0] in ('obj',)] + [
        ('index_cell', '__CPROVER_requires(__CPROVER_r_ok($0, sizeof(*$0)))'),
        ('designates_an_element_of_this_array_or_aborts', '__CPROVER_ensures(MI((uintptr_t)$ret) >= MI(%s) && MI((uintptr_t)$ret) < MI(%s) + MI(%d) && (MI((uintptr_t)$ret) - MI(%s)) %% MI(%d) == MI(0))' % (base, base, 4 * esz, base, esz)),
        ('frame', '__CPROVER_assigns()')]
    it.harness = it.harness.replace('g_noabort = in_noabort;', 'g_noabort = 0;')
    it.nondet_volatile = True
    it.opts = dict(it.opts or {}, amp_star=True, volatile_read_check=True)
    it.replay = None
    it.solvers = ('minisat', 'z3')
    it.note = 'index in sandbox memory, adversarial reads: one fetch decides both the bounds check and the element'
    return it


def units(tier):
    insts = []
    if tier == 'quick':
        for idx in ['int', 'signed char', 'unsigned char', 'long', 'unsigned long', 'unsigned short', 'long long', 'unsigned int']:
            insts.append(arr_inst('tainted', 'long', [4], 'plain', idx, tier))
            insts.append(arr_inst('tainted_volatile', 'long', [4], 'plain', idx, tier))
        insts.append(arr_inst('tainted', 'char', [16], 'plain', 'short', tier))
        insts.append(arr_inst('tainted_volatile', 'int*', [3], 'plain', 'int', tier))
        insts.append(arr_inst('tainted', 'long', [1], 'plain', 'unsigned long long', tier))
        insts.append(arr_inst('tainted', 'short', [2, 3], 'plain', 'int', tier))
        insts.append(arr_inst('tainted_volatile', 'long', [2, 3], 'plain', 'unsigned char', tier))
        insts.append(arr_inst('tainted', 'long', [4], 'tainted', 'int', tier))
        insts.append(arr_inst('tainted_volatile', 'long', [4], 'tainted_volatile', 'unsigned int', tier))
        insts.append(adversarial_index_inst('tainted', 'int', tier))
        insts.append(adversarial_index_inst('tainted_volatile', 'unsigned long', tier))
    else:
        for wrap in ['tainted', 'tainted_volatile']:
            for idx in INDEX_TYPES:
                for elem, dims in [('long', [4]), ('char', [16]), ('long', [1]), ('short', [2, 3]), ('int*', [3]), ('double', [7]), ('long long', [2])]:
                    insts.append(arr_inst(wrap, elem, dims, 'plain', idx, tier))
                for kind in ['tainted', 'tainted_volatile']:
                    if idx in ('int', 'unsigned int', 'long', 'unsigned char', 'short', 'unsigned long'):
                        insts.append(arr_inst(wrap, 'long', [4], kind, idx, tier))
    if tier != 'quick':
        for wrap in ['tainted', 'tainted_volatile']:
            for idx in ('int', 'unsigned long', 'short', 'unsigned char'):
                insts.append(adversarial_index_inst(wrap, idx, tier))
    out = []
    for i in range(0, len(insts), 100):
        out.append(Unit('C17_array_index_%d' % (i // 100), insts[i:i + 100]))
    # every 'or the operation aborts' clause rests on the body of detail::dynamic_check (a contract leaf in the instances above):
    # it is verified here in the default and in the NDEBUG build configuration (contract of C06)
    from . import C06
    return (out) + C06.dynamic_check_units(tier, PROP, 'c17')


ASSUMPTIONS = [
    'dynamic_check is a contract leaf in the operator[] instances: requires(g_noabort ==> check) ensures(check); its body is proved against that contract by the dynamic_check units of this check (default and NDEBUG configuration); what stays assumed is that abort()/throw do not return',
    'std::array<T,N> is modelled as struct { T _M_elems[N]; } (libstdc++ layout; sizeof asserted against g++ on every run) and std::array::operator[] as _M_elems[i] (unchecked, like libstdc++)',
    'exact-element clause for an index held in sandbox memory (tainted_volatile index): the index cell is stable for the duration of the one call (the "which element" of a cell that changes has no meaning); the safety clause - designates an element of this array or aborts - is proved WITHOUT that assumption by the *_adversarial instances (goto-instrument --nondet-volatile: every read of the cell returns a fresh value)',
]
TRUSTED = ['host and guest element sizes used by the spec (props/common.py HOST_SIZE / GUEST_SIZE), independent of the headers']

MANIFEST = {
    'level_text': 'The instantiated operator[] (array branch) is proved, for every index type and all index values at full width, to abort unless 0 <= i < N, not to abort inside that range, and otherwise to return exactly the address of element i under the layout of the memory the array lives in (application element size for tainted, guest element size for tainted_volatile); the array object is a real CBMC object, so any access outside it also fails a bounds/pointer check. Loop-free: complete.',
    'level_note': 'Extents are template parameters: instances cover lengths 1, 2, 3, 4, 7, 16 and the rank-2 shapes [2][3]; other lengths are further instantiations of the same code path. Assumes the std::array model (layout asserted against g++) and the dynamic_check leaf contract.',
}
