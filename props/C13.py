"""C13 - callback registrations have exactly one owner and end when that owner does.
Functions under contract: rlbox_sandbox::register_callback run-time part (rlbox_sandbox.hpp:914-960), unregister_callback
(299-322), sandbox_callback move constructor / move assignment / move_obj / unregister_helper / unregister / destructor /
is_unregistered (rlbox_policy_types.hpp:65-156).  Backend slot functions are contract stubs here (their bodies for the
bundled backends are C12).  Registry view: callback_keys as an M-vec sequence."""
from vlib.unit import Unit, Inst, find_func
from .common import cs, PRE_GHOST, dyn_keeps, trait_inst
from .C03 import SB
from .C14 import FACTS

PROP = 'C13'
TITLE = 'Callback registrations have exactly one owner and end when that owner does'
FUNCTIONS = ['rlbox_sandbox::register_callback (rlbox_sandbox.hpp:857-961, run-time branch 914-960)', 'rlbox_sandbox::unregister_callback (299-322)',
             'sandbox_callback move constructor, operator=(&&), move_obj, unregister_helper, unregister, ~sandbox_callback, is_unregistered (rlbox_policy_types.hpp:65-156)']

CBT = 'rlbox::sandbox_callback<int (*)(long), rlbox::vsbx>'
CB = cs(CBT)
K = '$this->callback_keys'
GH = PRE_GHOST + ''' unsigned long g_vw, g_vw2;
unsigned long g_be_reg_key, g_be_reg_result; unsigned g_be_regs; unsigned long g_be_unreg_key; unsigned g_be_unregs;
'''
# environment: at most two other registrations in this sandbox's key list (positions 0 and 1 are the witnesses)
KEYS_ENV = ('  void *arr[4]; unsigned long in_len; __CPROVER_assume(in_len <= 2);\n'
            '  sb.callback_keys.len = in_len; sb.callback_keys.elem = arr; sb.callback_keys.cap = 4; g_vw = 0; g_vw2 = 1;\n')
KEYS_WF = '%s.len <= 2 && %s.cap == 4 && __CPROVER_rw_ok(%s.elem, 4 * sizeof(void *)) && g_vw == 0 && g_vw2 == 1' % (K, K, K)


def _is(name):
    def p(fn, rec):
        return fn.get('name') == name
    return p


BE_REG = ('backend impl_register_callback(stub)', _is('impl_register_callback'),
          # A_backend: a registration either yields an entry point (non-zero) or the backend aborts; discharged for the bundled
          # no-op and dylib backends by C12 (clause full_table_is_refused_never_entry_point_0)
          '__CPROVER_ensures(g_be_reg_key == (unsigned long)$0 && g_be_regs == __CPROVER_old(g_be_regs) + 1 && (unsigned long)$ret == g_be_reg_result && g_be_reg_result != 0)\n'
          '__CPROVER_assigns(g_be_reg_key, g_be_regs)')
# the entry point is requested for the GUEST signature of the callback: int(long) is int(int) under the 32-bit guest ABI of vsbx
# (independent ABI table of props/common.py: long -> 4 bytes); the application's own signature int(long) would make a foreign-ABI
# backend build a trampoline that reads the wrong argument frame
GUEST_SIG = 'impl_register_callbackIiJiEE'
BE_REG_GUEST = (BE_REG[0], lambda fn, rec: fn.get('name') == 'impl_register_callback' and GUEST_SIG in fn.get('mangledName', ''), BE_REG[2])
BE_REG_OTHER = ('backend impl_register_callback(instantiated for another signature)', _is('impl_register_callback'),
                '__CPROVER_requires(0) /*@entry_point_is_requested_for_the_guest_signature_of_the_callback*/\n__CPROVER_ensures(1)\n__CPROVER_assigns()')
BE_UNREG = ('backend impl_unregister_callback(stub)', _is('impl_unregister_callback'),
            '__CPROVER_ensures(g_be_unreg_key == (unsigned long)$0 && g_be_unregs == __CPROVER_old(g_be_unregs) + 1)\n__CPROVER_assigns(g_be_unreg_key, g_be_unregs)')
INTERCEPTOR = ('sandbox_callback_interceptor(address only)', _is('sandbox_callback_interceptor'), '__CPROVER_assigns()')


def in_keys_old(key):
    ln = '__CPROVER_old(%s.len)' % K
    return '((0 < %s && __CPROVER_old(%s.elem[0]) == (void *)%s) || (1 < %s && __CPROVER_old(%s.elem[1]) == (void *)%s))' % (ln, K, key, ln, K, key)


def in_keys(key, lenexpr=None):
    ln = lenexpr or '%s.len' % K
    return '((0 < %s && %s.elem[0] == (void *)%s) || (1 < %s && %s.elem[1] == (void *)%s) || (2 < %s && %s.elem[2] == (void *)%s))' % (ln, K, key, ln, K, key, ln, K, key)


def register_inst(tier):
    KEY = '(unsigned long)$0'
    cl = [('obj', '__CPROVER_requires(__CPROVER_rw_ok($this, sizeof(struct %s)))' % SB),
          ('keys_wf', '__CPROVER_requires(%s && g_be_regs == 0)' % KEYS_WF),
          ('noabort_pre', '__CPROVER_requires(g_noabort ==> ($this->sandbox_created == ST_CREATED && !%s && g_be_reg_result != 0))' % in_keys('$0')),
          ('only_when_created', '__CPROVER_ensures($this->sandbox_created == ST_CREATED)'),
          ('duplicate_aborts', '__CPROVER_ensures(!(%s))' % in_keys_old('$0')),
          ('key_recorded', '__CPROVER_ensures(%s.len == __CPROVER_old(%s.len) + 1 && %s.elem[%s.len - 1] == (void *)$0)' % (K, K, K, K)),
          ('other_keys_unchanged', '__CPROVER_ensures((0 < __CPROVER_old(%s.len) ==> %s.elem[0] == __CPROVER_old(%s.elem[0])) && (1 < __CPROVER_old(%s.len) ==> %s.elem[1] == __CPROVER_old(%s.elem[1])))' % (K, K, K, K, K, K)),
          ('backend_registered_once_with_key', '__CPROVER_ensures(g_be_regs == 1 && g_be_reg_key == %s)' % KEY),
          ('owner_describes_registration', '__CPROVER_ensures((void *)$ret.sandbox == (void *)$this && (unsigned long)$ret.key == %s && (unsigned long)$ret.callback == %s && (unsigned long)$ret.callback_trampoline == g_be_reg_result)' % (KEY, KEY)),
          ('no_entry_point_is_refused', '__CPROVER_ensures((unsigned long)$ret.callback_trampoline != 0)'),
          ('frame', '__CPROVER_assigns(%s.len, __CPROVER_object_whole(%s.elem), g_be_reg_key, g_be_regs)' % (K, K))]
    h = ('  struct %s sb; int in_status = sb.sandbox_created;\n' % SB + KEYS_ENV +
         '  _Bool in_noabort; g_noabort = in_noabort; g_be_regs = 0; unsigned long in_be_result; g_be_reg_result = in_be_result; uintptr_t in_f;\n'
         '  struct %s r = $ROOT(&sb, (void *)in_f);\n' % CB)
    return Inst('c13_register_callback', 'rlbox_sandbox<vsbx>& s, tainted<int, vsbx> (*f)(rlbox_sandbox<vsbx>&, tainted<long, vsbx>)', 's.register_callback(f);', cl, h,
                leaves=[dyn_keeps('g_be_regs == 0', 'a_refused_registration_has_not_taken_a_backend_entry_point'), BE_REG_GUEST, BE_REG_OTHER, INTERCEPTOR], prop=PROP, root_name='register_callback', tier=tier, pre=GH, facts=FACTS,
                replay={'kind': 'register_full_table', 'no_inputs': True})


def register_refused_inst(tier):
    """register_callback under L-throw: the backend may refuse (no free entry point: an exception out of impl_register_callback), and
    each abort point throws; a refused registration leaves the key list exactly as it was and hands out no owner"""
    base = register_inst(tier)
    dyn = ('dynamic_check(throws when the check fails)', _is('dynamic_check'), '__CPROVER_ensures(g_exc == !$0)\n__CPROVER_assigns(g_exc)')
    be = ('backend impl_register_callback(may refuse by throwing)', BE_REG_GUEST[1],
          '__CPROVER_ensures(g_be_regs == __CPROVER_old(g_be_regs) + 1 && g_be_reg_key == (unsigned long)$0)\n'
          '__CPROVER_ensures(g_exc || ((unsigned long)$ret == g_be_reg_result && g_be_reg_result != 0))\n'
          '__CPROVER_assigns(g_be_reg_key, g_be_regs, g_exc)')
    keep = [c for c in base.contract if c[1].startswith('__CPROVER_requires') and c[0] != 'noabort_pre']
    cl = keep + [
        ('no_exception_in_flight_at_entry', '__CPROVER_requires(!g_exc)'),
        ('a_refused_registration_leaves_no_key_behind', '__CPROVER_ensures(g_exc ==> (%s.len == __CPROVER_old(%s.len) && (0 < %s.len ==> %s.elem[0] == __CPROVER_old(%s.elem[0])) && (1 < %s.len ==> %s.elem[1] == __CPROVER_old(%s.elem[1]))))' % ((K,) * 8)),
        ('an_accepted_registration_records_the_key', '__CPROVER_ensures(!g_exc ==> (%s.len == __CPROVER_old(%s.len) + 1 && %s.elem[%s.len - 1] == (void *)$0))' % (K, K, K, K)),
        ('frame', '__CPROVER_assigns(%s.len, __CPROVER_object_whole(%s.elem), g_be_reg_key, g_be_regs, g_exc)' % (K, K))]
    base.contract = cl
    base.name = 'c13_register_callback_refused_by_the_backend'
    base.leaves = [dyn, be, BE_REG_OTHER, INTERCEPTOR]
    base.opts = dict(base.opts, exc_model=True)
    base.pre = base.pre + ' _Bool g_exc;\n'
    base.harness = base.harness.replace('g_be_regs = 0;', 'g_be_regs = 0; g_exc = 0;', 1)
    base.replay = {'kind': 'register_refused', 'no_inputs': True}
    base.note = 'L-throw: the backend refuses by throwing (A_backend after e34344b: aborts when no entry point is free)'
    return base


def unregister_cb_inst(tier):
    once = ('(g_pos < %s.len && %s.elem[g_pos] == $0 && (g_pos != 0 && 0 < %s.len ==> %s.elem[0] != $0) && (g_pos != 1 && 1 < %s.len ==> %s.elem[1] != $0))' % (K, K, K, K, K, K))
    cl = [('obj', '__CPROVER_requires(__CPROVER_rw_ok($this, sizeof(struct %s)))' % SB),
          ('keys_wf', '__CPROVER_requires(%s && g_be_unregs == 0)' % KEYS_WF),
          ('own_ok', '__CPROVER_requires(g_registered ==> %s)' % once),
          ('noabort_pre', '__CPROVER_requires(g_noabort ==> ($this->sandbox_created != ST_CREATED || g_registered))'),
          ('after_destroy_is_harmless', '__CPROVER_ensures(__CPROVER_old($this->sandbox_created) != ST_CREATED ==> (g_be_unregs == 0 && %s.len == __CPROVER_old(%s.len)))' % (K, K)),
          ('never_registered_aborts', '__CPROVER_ensures(__CPROVER_old($this->sandbox_created) == ST_CREATED ==> %s)' % in_keys_old('$0')),
          ('registration_removed', '__CPROVER_ensures((__CPROVER_old($this->sandbox_created) == ST_CREATED && g_registered) ==> (%s.len == __CPROVER_old(%s.len) - 1 && !%s && g_be_unregs == 1 && g_be_unreg_key == (unsigned long)$0))' % (K, K, in_keys('$0'))),
          ('other_key_kept', '__CPROVER_ensures((__CPROVER_old($this->sandbox_created) == ST_CREATED && g_registered && __CPROVER_old(%s.len) == 2) ==> %s.elem[0] == (g_pos == 0 ? __CPROVER_old(%s.elem[1]) : __CPROVER_old(%s.elem[0])))' % (K, K, K, K)),
          ('frame', '__CPROVER_assigns(%s.len, __CPROVER_object_whole(%s.elem), g_be_unreg_key, g_be_unregs)' % (K, K))]
    h = ('  struct %s sb; int in_status = sb.sandbox_created;\n' % SB + KEYS_ENV +
         '  _Bool in_noabort; g_noabort = in_noabort; g_be_unregs = 0; _Bool in_registered; g_registered = in_registered; unsigned long in_pos; g_pos = in_pos; uintptr_t in_key;\n'
         '  $ROOT(&sb, (void *)in_key);\n')
    pick = lambda tu, fn: find_func(tu, 'unregister_callback')
    return Inst('c13_unregister_callback', 'sandbox_callback<int (*)(long), vsbx>& c', 'c.unregister();', cl, h, leaves=['dynamic_check', BE_UNREG], prop=PROP,
                root_name='unregister_callback', tier=tier, pre=GH + ' unsigned long g_pos; _Bool g_registered;\n', facts=FACTS, root_pick=pick)


UNREG_LEAF = ('rlbox_sandbox::unregister_callback(ghost stub)', _is('unregister_callback'),
              '__CPROVER_ensures(g_unreg_key == (unsigned long)$0 && g_unreg_sandbox == (unsigned long)$this && g_unregs == __CPROVER_old(g_unregs) + 1)\n'
              '__CPROVER_assigns(g_unreg_key, g_unreg_sandbox, g_unregs)')
OG = PRE_GHOST + ' unsigned long g_unreg_key, g_unreg_sandbox; unsigned g_unregs;\n'
OWNER_H = '  struct %s c; unsigned long in_cb = (unsigned long)c.callback; unsigned long in_key = (unsigned long)c.key; g_unregs = 0; g_noabort = 0;\n' % CB


def released(key_old, sb_old):
    return '(g_unregs == 1 && g_unreg_key == (unsigned long)%s && g_unreg_sandbox == (unsigned long)%s)' % (key_old, sb_old)


def owner_insts(tier):
    out = []
    # base case of the owner invariant: a default-constructed owner is inert (every field, whatever the storage held before)
    cl = [('a_fresh_owner_is_inert', '__CPROVER_ensures($ret.callback == 0 && $ret.sandbox == 0 && $ret.key == 0 && $ret.callback_trampoline == 0 && $ret.callback_interceptor == 0)'),
          ('frame', '__CPROVER_assigns()')]
    out.append(Inst('c13_owner_default_constructor', '', 'sandbox_callback<int (*)(long), vsbx> c; (void)c;', cl, '  struct %s c = $ROOT();\n' % CB, leaves=[], prop=PROP,
                    root_name='sandbox_callback', tier=tier, pre=OG, root_pick=lambda tu, fn: find_func(tu, 'sandbox_callback', CBT, lambda f, rn: f['type']['qualType'].startswith('void ()'))))
    OC, OK_, OS = '__CPROVER_old($this->callback)', '__CPROVER_old($this->key)', '__CPROVER_old($this->sandbox)'
    inert = '($this->callback == 0 && $this->sandbox == 0 && $this->key == 0 && $this->callback_trampoline == 0 && $this->callback_interceptor == 0)'
    for form in ('unregister', 'destructor'):
        cl = [('obj', '__CPROVER_requires(__CPROVER_rw_ok($this, sizeof(struct %s)) && g_unregs == 0)' % CB),
              ('live_owner_ends_its_registration', '__CPROVER_ensures(%s != 0 ==> %s)' % (OC, released(OK_, OS))),
              ('inert_owner_does_nothing', '__CPROVER_ensures(%s == 0 ==> g_unregs == 0)' % OC),
              ('inert_afterwards', '__CPROVER_ensures(%s != 0 ==> %s)' % (OC, inert)),
              ('frame', '__CPROVER_assigns(*$this, g_unreg_key, g_unreg_sandbox, g_unregs)')]
        expr = 'c.unregister();' if form == 'unregister' else 'c.~sandbox_callback();'
        out.append(Inst('c13_owner_%s' % form, 'sandbox_callback<int (*)(long), vsbx>& c', expr, cl, OWNER_H + '  $ROOT(&c);\n', leaves=['dynamic_check', UNREG_LEAF],
                        prop=PROP, root_name='unregister' if form == 'unregister' else '~sandbox_callback', tier=tier, pre=OG))
    cl = [('obj', '__CPROVER_requires(__CPROVER_r_ok($this, sizeof(struct %s)))' % CB),
          ('reports_registration_state', '__CPROVER_ensures($ret == ($this->callback == 0))'),
          ('frame', '__CPROVER_assigns()')]
    out.append(Inst('c13_owner_is_unregistered', 'sandbox_callback<int (*)(long), vsbx>& c', 'c.is_unregistered();', cl, OWNER_H + '  _Bool r = $ROOT(&c);\n', leaves=[],
                    prop=PROP, root_name='is_unregistered', tier=tier, pre=OG))
    # move construction
    cl = [('obj', '__CPROVER_requires(__CPROVER_rw_ok($0, sizeof(struct %s)) && g_unregs == 0)' % CB),
          ('transferred', '__CPROVER_ensures($ret.callback == __CPROVER_old($0->callback) && $ret.key == __CPROVER_old($0->key) && $ret.sandbox == __CPROVER_old($0->sandbox) && $ret.callback_trampoline == __CPROVER_old($0->callback_trampoline) && $ret.callback_interceptor == __CPROVER_old($0->callback_interceptor))'),
          ('source_inert', '__CPROVER_ensures($0->callback == 0 && $0->sandbox == 0 && $0->key == 0 && $0->callback_trampoline == 0)'),
          ('nothing_unregistered', '__CPROVER_ensures(g_unregs == 0)'),
          ('frame', '__CPROVER_assigns(*$0)')]
    pick = lambda tu, fn: find_func(tu, 'sandbox_callback', CBT, lambda f, rn_: '&&' in f['type']['qualType'])
    out.append(Inst('c13_owner_move_construct', 'sandbox_callback<int (*)(long), vsbx>& c', 'sandbox_callback<int (*)(long), vsbx> q(std::move(c)); (void)q;', cl,
                    OWNER_H + '  struct %s q = $ROOT(&c);\n' % CB, leaves=['dynamic_check', UNREG_LEAF], prop=PROP, root_name='sandbox_callback', tier=tier, pre=OG, root_pick=pick))
    # move assignment onto an empty or a live owner
    cl = [('objs', '__CPROVER_requires(__CPROVER_rw_ok($this, sizeof(struct %s)) && __CPROVER_rw_ok($0, sizeof(struct %s)) && $this != $0 && g_unregs == 0)' % (CB, CB)),
          ('overwritten_live_owner_ends_its_registration', '__CPROVER_ensures(%s != 0 ==> %s)' % (OC, released(OK_, OS))),
          ('overwritten_inert_owner_does_nothing', '__CPROVER_ensures(%s == 0 ==> g_unregs == 0)' % OC),
          ('transferred', '__CPROVER_ensures($this->callback == __CPROVER_old($0->callback) && $this->key == __CPROVER_old($0->key) && $this->sandbox == __CPROVER_old($0->sandbox) && $this->callback_trampoline == __CPROVER_old($0->callback_trampoline))'),
          ('source_inert', '__CPROVER_ensures($0->callback == 0 && $0->key == 0 && $0->sandbox == 0)'),
          ('returns_self', '__CPROVER_ensures((void *)$ret == (void *)$this)'),
          ('frame', '__CPROVER_assigns(*$this, *$0, g_unreg_key, g_unreg_sandbox, g_unregs)')]
    out.append(Inst('c13_owner_move_assign', 'sandbox_callback<int (*)(long), vsbx>& c, sandbox_callback<int (*)(long), vsbx>& d', 'c = std::move(d);', cl,
                    OWNER_H + '  struct %s d;\n  $ROOT(&c, &d);\n' % CB, leaves=['dynamic_check', UNREG_LEAF], prop=PROP, root_name='operator=', tier=tier, pre=OG,
                    replay={'kind': 'callback_move_assign', 'no_inputs': True}))
    # what the sandbox is handed for a callback (argument of an invocation, store into a function-pointer field): the entry point the
    # backend issued at registration, as issued - never run through a pointer translation (it is not an address in sandbox memory)
    no_swz = ('pointer translation(must not be applied to an entry point)', lambda fn, rec: fn.get('name') in ('get_sandboxed_pointer', 'get_sandboxed_pointer_no_ctx', 'impl_get_sandboxed_pointer'),
              '__CPROVER_requires(0) /*@an_entry_point_is_not_run_through_a_pointer_translation*/\n__CPROVER_ensures(1)\n__CPROVER_assigns()')
    cl = [('obj', '__CPROVER_requires(__CPROVER_r_ok($this, sizeof(struct %s)))' % CB),
          ('the_entry_point_as_issued_by_the_backend', '__CPROVER_ensures((unsigned long)$ret == (unsigned long)$this->callback_trampoline)'),
          ('frame', '__CPROVER_assigns()')]
    pick = lambda tu, fn: find_func(tu, 'UNSAFE_sandboxed', CBT)
    out.append(Inst('c13_owner_hands_the_sandbox_its_entry_point', 'sandbox_callback<int (*)(long), vsbx>& c, rlbox_sandbox<vsbx>& s', 'c.UNSAFE_sandboxed(s);', cl,
                    OWNER_H + '  struct %s sb;\n  unsigned int r = $ROOT(&c, &sb);\n' % SB, leaves=['dynamic_check', no_swz], prop=PROP, root_name='UNSAFE_sandboxed', tier=tier, pre=OG, root_pick=pick))
    # ... and the store route: `field = cb` puts the issued entry point into the function-pointer cell (tainted_volatile::operator= cond4)
    TVF = cs('rlbox::tainted_volatile<int (*)(long), rlbox::vsbx>')
    cl = [('objs', '__CPROVER_requires(__CPROVER_rw_ok($this, sizeof(struct %s)) && __CPROVER_r_ok($0, sizeof(struct %s)))' % (TVF, CB)),
          ('the_cell_receives_the_entry_point_as_issued_by_the_backend', '__CPROVER_ensures((unsigned long)$this->data == (unsigned long)$0->callback_trampoline)'),
          ('frame', '__CPROVER_assigns($this->data)')]
    pick = lambda tu, fn: find_func(tu, 'operator=', 'rlbox::tainted_volatile<int (*)(long), rlbox::vsbx>', lambda f, rn: 'sandbox_callback' in f['type']['qualType'])
    out.append(Inst('c13_callback_stored_into_a_function_pointer_cell_is_its_entry_point', 'tainted_volatile<int (*)(long), vsbx>& tv, sandbox_callback<int (*)(long), vsbx>& c', 'tv = c;', cl,
                    OWNER_H + '  struct %s cell;\n  $ROOT(&cell, &c);\n' % TVF, leaves=['dynamic_check', no_swz, 'find_sandbox_from_example'], prop=PROP, root_name='operator=', tier=tier, pre=OG, root_pick=pick))
    return out


def destroy_keeps_registrations_inst(tier):
    """destroy_sandbox ends no registration: the keys stay with their (still live) owner objects, whose unregistration is
    ignored while the sandbox is not created and effective again once it is re-created - 'registered keys = live owners'
    across destroy / re-create.  (C14's wish that nothing of an earlier incarnation be visible is the opposite demand on the
    same list; with owners that cannot be invalidated from the sandbox side both cannot hold - see KF-C14-stale-state.)"""
    from . import C14
    it = C14.destroy_inst(tier, clause_recreate=False)
    it.name = 'c13_destroy_sandbox_keeps_registrations'
    it.prop = PROP
    K_ = '$this->callback_keys'
    it.contract = [c for c in it.contract if c[0] != 'frame'] + [
        ('keys_env', '__CPROVER_requires(%s.len <= 2 && %s.cap == 4 && __CPROVER_rw_ok(%s.elem, 4 * sizeof(void *)))' % (K_, K_, K_)),
        ('registrations_stay_with_their_owners', '__CPROVER_ensures(%s.len == __CPROVER_old(%s.len) && (0 < %s.len ==> %s.elem[0] == __CPROVER_old(%s.elem[0])) && (1 < %s.len ==> %s.elem[1] == __CPROVER_old(%s.elem[1])))' % (K_, K_, K_, K_, K_, K_, K_, K_)),
    ] + [c for c in it.contract if c[0] == 'frame']
    it.harness = it.harness.replace('  $ROOT(&sb);', '  void *karr[4]; unsigned long in_klen; __CPROVER_assume(in_klen <= 2); sb.callback_keys.len = in_klen; sb.callback_keys.elem = karr; sb.callback_keys.cap = 4;\n  $ROOT(&sb);')
    return it


def reset_keeps_registrations_inst(tier):
    """reset_sandbox is not one of the four registry operations: it changes nothing of the core's own state (frame: nothing), in
    particular the keys stay with their owners"""
    cl = [('obj', '__CPROVER_requires(__CPROVER_rw_ok($this, sizeof(struct %s)))' % SB),
          ('keys_env', '__CPROVER_requires(%s.len <= 2 && %s.cap == 4 && __CPROVER_rw_ok(%s.elem, 4 * sizeof(void *)))' % (K, K, K)),
          ('registrations_stay_with_their_owners', '__CPROVER_ensures(%s.len == __CPROVER_old(%s.len) && (0 < %s.len ==> %s.elem[0] == __CPROVER_old(%s.elem[0])) && (1 < %s.len ==> %s.elem[1] == __CPROVER_old(%s.elem[1])))' % ((K,) * 8)),
          ('backend_reset_once', '__CPROVER_ensures(g_be_regs == 1)'),
          ('frame_nothing_of_the_cores_state', '__CPROVER_assigns(g_be_regs)')]
    be = ('backend impl_reset_sandbox(stub)', _is('impl_reset_sandbox'), '__CPROVER_ensures(g_be_regs == __CPROVER_old(g_be_regs) + 1)\n__CPROVER_assigns(g_be_regs)')
    h = ('  struct %s sb;\n' % SB + KEYS_ENV + '  g_be_regs = 0;\n  $ROOT(&sb);\n')
    return Inst('c13_reset_sandbox_keeps_registrations', 'rlbox_sandbox<vsbx>& s', 's.reset_sandbox();', cl, h, leaves=['dynamic_check', be], prop=PROP,
                root_name='reset_sandbox', tier=tier, pre=GH, facts=FACTS)


def backend_entry_point_inst(tier):
    """A_backend clause used by register_callback's stub, discharged for the verification backend itself: a registration
    yields a non-zero entry point (the bundled no-op and dylib backends: C12, full_table_is_refused_never_entry_point_0)"""
    cl = [('entry_point_is_never_zero', '__CPROVER_ensures((unsigned long)$ret != 0)'), ('frame', '__CPROVER_assigns()')]
    h = '  struct %s be; uintptr_t in_key, in_cb;\n  unsigned long r = (unsigned long)$ROOT(&be, (void *)in_key, (void *)in_cb);\n' % cs('rlbox::vsbx')
    return Inst('c13_backend_impl_register_callback', 'rlbox_sandbox<vsbx>& s, tainted<int, vsbx> (*f)(rlbox_sandbox<vsbx>&, tainted<long, vsbx>)', 's.register_callback(f);', cl, h,
                leaves=[], prop=PROP, root_name='impl_register_callback', tier=tier, pre=PRE_GHOST,
                root_pick=lambda tu, fn: find_func(tu, 'impl_register_callback', 'rlbox::vsbx'))


def units(tier):
    return [Unit('C13_callback_ownership', [register_inst(tier), register_refused_inst(tier), unregister_cb_inst(tier), destroy_keeps_registrations_inst(tier), reset_keeps_registrations_inst(tier), backend_entry_point_inst(tier)] + owner_insts(tier) +
                 [trait_inst('c13_owner_is_not_copyable', PROP, 'std::is_copy_constructible_v<sandbox_callback<int (*)(long), vsbx>> || std::is_copy_assignable_v<sandbox_callback<int (*)(long), vsbx>>', 0,
                             'a_registration_owner_cannot_be_copied', tier)])]


ASSUMPTIONS = [
    'backend slot functions impl_register_callback / impl_unregister_callback are contract stubs that record their arguments (the bundled backends\' bodies are verified under C12)',
    'A_backend: impl_register_callback returns a non-zero entry point or aborts (proved for the bundled no-op and dylib backends under C12 and for the verification backend by instance c13_backend_impl_register_callback; the core itself does not test for 0, so a third-party backend that returns 0 when full would get a registered-looking owner; the other clauses of register_callback are proved for the non-zero case only)',
    'M-vec model of callback_keys; M-lock (lock_guard dropped); M-atomic (status read sequentially)',
    'environment: at most two other keys in this sandbox\'s callback_keys (positions enumerated); the vector helpers themselves are verified for every length',
]
TRUSTED = ['destructor of sandbox_callback is verified as a function; that C++ runs it exactly once when the owner dies is a language guarantee']
MANIFEST = {
    'level_text': 'Ownership invariant proof: register_callback is proved to abort unless the sandbox is CREATED and the function is not yet registered, to record the key exactly once (other keys unchanged), to register with the backend once and to return an owner object describing exactly that registration; unregister_callback is proved harmless after destroy_sandbox, to abort for a key that was never registered, and otherwise to remove exactly that key and to unregister it with the backend once; the owner object is proved to end its registration on unregister/destruction exactly once, to transfer ownership on move construction and move assignment leaving the source inert, and to end the registration of an overwritten live owner. Each contract preserves the invariant (keys distinct; registered keys = live owners), so it holds after every history.',
    'level_note': 'Environment restricted to at most two other registered keys per sandbox (enumerated positions; quantified vector contracts did not discharge on any back end - DESIGN.md). Fixed findings: bundled backends returned entry point 0 when full; move-assignment onto a live owner. A registration refused by the backend (modelled as an exception, L-throw) is proved to leave the key list unchanged (defect 253b285 repaired); default-constructed owners are inert; owners are not copyable (type traits of the real classes); reset_sandbox changes nothing of the registry; the entry point handed to the sandbox for a callback is the one the backend issued, requested for the guest signature.',
}
