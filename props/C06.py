"""C06 - integers crossing the ABI boundary keep their value or the operation aborts.
Functions under contract: rlbox::detail::convert_type_fundamental<T_To,T_From> for every ordered pair of the
15 integer types of the statement (instantiated by clang from /repo/code/include/rlbox_conversion.hpp)."""
from vlib.unit import Unit, Inst
from .common import CXX_INTS, mi, tid

PROP = 'C06'
TITLE = 'Integers crossing the ABI boundary keep their value or the operation aborts'
FUNCTIONS = ['rlbox::detail::convert_type_fundamental (rlbox_conversion.hpp:16-92)', 'rlbox::detail::dynamic_check (contract leaf)']

QUICK_PAIRS = None  # computed below


def pair_inst(to, frm, tier):
    cto, lo, hi = CXX_INTS[to]
    cfr, flo, fhi = CXX_INTS[frm]
    contract = (
        '/* C06: returned => destination has exactly the source value (compared in 128-bit integers);\n'
        '   source representable in the destination (g_noabort) => no abort, i.e. every dynamic_check holds */\n'
        '__CPROVER_requires(__CPROVER_rw_ok($0, sizeof(*$0)) && __CPROVER_r_ok($1, sizeof(*$1)))\n'
        '__CPROVER_requires(MI(*$1) >= %s && MI(*$1) <= %s) /* source holds a valid value of its type */\n'
        '__CPROVER_requires(g_noabort ==> (MI(*$1) >= %s && MI(*$1) <= %s))\n'
        '__CPROVER_ensures(MI(*$0) == MI(__CPROVER_old(*$1)))\n'
        '__CPROVER_assigns(*$0)' % (mi(flo), mi(fhi), mi(lo), mi(hi)))
    harness = (
        '  %s to; %s from; %s in_from = from;\n'
        '  _Bool in_noabort; g_noabort = in_noabort;\n'
        '  $ROOT(&to, &from);\n' % (cto, cfr, cfr))
    return Inst('c06_%s__from__%s' % (tid(to), tid(frm)),
                '%s& to, const volatile %s& from' % (to, frm),
                'detail::convert_type_fundamental(to, from);',
                contract, harness, leaves=['dynamic_check'], prop=PROP, root_name='convert_type_fundamental', tier=tier,
                pre='_Bool g_noabort; _Bool g_backend_nonnull; unsigned long g_expect_example; unsigned long g_expect_malloc_size;',
                replay={'kind': 'convert', 'to': to, 'from': frm},
                note='T_To=%s T_From=%s' % (to, frm))


def quick_pairs():
    # one pair per signedness/width branch of the function plus both boundary-sensitive neighbours
    q = [('int', 'long long'), ('long long', 'int'), ('unsigned int', 'unsigned long'), ('unsigned long', 'unsigned int'),
         ('unsigned int', 'long'), ('unsigned int', 'int'), ('unsigned long', 'int'), ('int', 'unsigned int'),
         ('int', 'unsigned long'), ('long', 'unsigned int'), ('short', 'int'), ('unsigned short', 'int'),
         ('signed char', 'short'), ('unsigned char', 'long'), ('char', 'int'), ('int', 'char'), ('long', 'unsigned long'),
         ('unsigned long', 'long'), ('char16_t', 'int'), ('wchar_t', 'long'), ('char32_t', 'long long'),
         ('int', 'int'), ('short', 'unsigned short'), ('unsigned short', 'short'), ('bool', 'bool'), ('int', 'bool'),
         ('bool', 'int'), ('bool', 'unsigned char')]
    return q


def units(tier):
    names = list(CXX_INTS)
    pairs = quick_pairs() if tier == 'quick' else [(a, b) for a in names for b in names]
    insts = [pair_inst(a, b, tier) for a, b in pairs]
    # "passing an argument of the parameter's own type, returning results": the invocation glue of C11 for signatures whose
    # long / unsigned long parameters and results narrow to 32 bits under the vsbx ABI (plain, tainted and opaque argument forms)
    from . import C11
    ginsts = []
    for p, r in [(['long_plain'], 'int'), (['ulong_tainted', 'long_plain', 'ptr_tainted'], 'void'), (['long_opaque'], 'long')]:
        it = C11.invoke_inst(p, r, tier)
        it.name = it.name.replace('c11_', 'c06_')
        it.prop = PROP
        ginsts.append(it)
    return [Unit('C06_fundamental', insts), Unit('C06_call_arguments', ginsts)]


ASSUMPTIONS = [
    'the const volatile source object is stable for the duration of one call (C06 quantifies over inputs, not schedules)',
    'abort()/throw in dynamic_check do not return (dynamic_check is a contract leaf: requires(g_noabort ==> check) ensures(check))',
]

MANIFEST = {
    'level_text': 'For every ordered pair of the 15 integer types (225 instantiations; quick tier: 28 covering every signedness/width branch and its boundaries) the instantiated body of convert_type_fundamental is proved, over all source values at full width, to either leave exactly the source value in the destination (128-bit comparison) or abort, and not to abort when the value is representable. Loop-free code over full-domain symbolic inputs: complete, no bound.',
    'level_note': 'Assumes: the volatile source is stable during one call; dynamic_check is a contract leaf (abort/throw do not return); clang AST dump and the AST->C lowerings listed in evidence; array/element-wise and public-route (tainted_volatile load/store) callers are covered under C07; arguments and results of calls go through the invocation glue instances shared with C11. Known finding KF-C06-bool-dest-same-width (bool destination from an 8-bit source).',
}
