"""C06 - integers crossing the ABI boundary keep their value or the operation aborts.
Functions under contract: rlbox::detail::convert_type_fundamental<T_To,T_From> for every ordered pair of the
15 integer types of the statement (instantiated by clang from /repo/code/include/rlbox_conversion.hpp)."""
from vlib.unit import Unit, Inst
from .common import cs, CXX_INTS, mi, tid

from .C07 import MEMCPY_OBJ
PROP = 'C06'
TITLE = 'Integers crossing the ABI boundary keep their value or the operation aborts'
FUNCTIONS = ['rlbox::detail::convert_type_fundamental (rlbox_conversion.hpp:16-92)', 'rlbox::detail::dynamic_check (contract leaf)']

QUICK_PAIRS = None  # computed below


def pair_inst(to, frm, tier):
    cto, lo, hi = CXX_INTS[to]
    cfr, flo, fhi = CXX_INTS[frm]
    contract = (
        '/* C06: returned => destination has exactly the source value (compared in 128-bit integers);\n'
        '   source representable in the destination (g_noabort) => no abort, i.e. every dynamic_check holds */\n'
        '__CPROVER_requires(__CPROVER_rw_ok($0, sizeof(*$0)) && __CPROVER_r_ok($1, sizeof(*$1)))\n'
        '__CPROVER_requires(MI(*$1) >= %s && MI(*$1) <= %s) /* source holds a valid value of its type */\n'
        '__CPROVER_requires(g_noabort ==> (MI(*$1) >= %s && MI(*$1) <= %s))\n'
        '__CPROVER_ensures(MI(*$0) == MI(__CPROVER_old(*$1)))\n'
        '__CPROVER_assigns(*$0)' % (mi(flo), mi(fhi), mi(lo), mi(hi)))
    harness = (
        '  %s to; %s from; %s in_from = from;\n'
        '  _Bool in_noabort; g_noabort = in_noabort;\n'
        '  $ROOT(&to, &from);\n' % (cto, cfr, cfr))
    return Inst('c06_%s__from__%s' % (tid(to), tid(frm)),
                '%s& to, const volatile %s& from' % (to, frm),
                'detail::convert_type_fundamental(to, from);',
                contract, harness, leaves=['dynamic_check'], prop=PROP, root_name='convert_type_fundamental', tier=tier,
                pre='_Bool g_noabort; _Bool g_backend_nonnull; unsigned long g_expect_example; unsigned long g_expect_malloc_size;',
                replay={'kind': 'convert', 'to': to, 'from': frm},
                note='T_To=%s T_From=%s' % (to, frm))


def array_pair_inst(to, frm, n, tier):
    """element by element for arrays: convert_type_fundamental_or_array on std::array<to, n> <- std::array<frm, n>
    (g_w: an arbitrary element index; every element keeps its value or the call aborts)"""
    cto, lo, hi = CXX_INTS[to]
    cfr, flo, fhi = CXX_INTS[frm]
    TA, FA = cs('std::array<%s, %d>' % (to, n), 'A_'), cs('std::array<%s, %d>' % (frm, n), 'A_')
    allfit = ' && '.join('(MI($1->_M_elems[%d]) >= %s && MI($1->_M_elems[%d]) <= %s)' % (k, mi(lo), k, mi(hi)) for k in range(n))
    allvalid = ' && '.join('(MI($1->_M_elems[%d]) >= %s && MI($1->_M_elems[%d]) <= %s)' % (k, mi(flo), k, mi(fhi)) for k in range(n))
    cl = [('objs', '__CPROVER_requires(__CPROVER_rw_ok($0, sizeof(*$0)) && __CPROVER_r_ok($1, sizeof(*$1)) && g_w < %d)' % n),
          ('source_valid', '__CPROVER_requires(%s)' % allvalid),
          ('noabort_pre', '__CPROVER_requires(g_noabort ==> (%s))' % allfit),
          ('every_element_keeps_its_value_or_abort', '__CPROVER_ensures(MI($0->_M_elems[g_w]) == MI(__CPROVER_old($1->_M_elems[g_w])))'),
          ('frame', '__CPROVER_assigns(*$0)')]
    lc = ('__CPROVER_assigns($LV, __CPROVER_object_whole($0))\n__CPROVER_loop_invariant($LV <= %d)\n'
          '__CPROVER_loop_invariant(g_w < $LV ==> MI($0->_M_elems[g_w]) == MI($1->_M_elems[g_w]))\n__CPROVER_decreases(%d - $LV)' % (n, n))
    h = ('  struct %s to; struct %s from; unsigned long in_w; g_w = in_w; __CPROVER_assume(in_w < %d); %s in_from = from._M_elems[in_w];\n'
         '  _Bool in_noabort; g_noabort = in_noabort;\n  $ROOT(&to, &from);\n' % (TA, FA, n, cfr))
    return Inst('c06_array_%s_%d__from__%s' % (tid(to), n, tid(frm)), 'std::array<%s, %d>& to, const std::array<%s, %d>& from' % (to, n, frm, n),
                'detail::convert_type_fundamental_or_array(to, from);', cl, h, leaves=['dynamic_check'], prop=PROP, root_name='convert_type_fundamental_or_array',
                tier=tier, pre='_Bool g_noabort; _Bool g_backend_nonnull; unsigned long g_expect_example; unsigned long g_expect_malloc_size; unsigned long g_w;',
                loop_contracts={('convert_type_fundamental_or_array', 0): lc}, note='array of %d: T_To=%s T_From=%s' % (n, to, frm))


def array2_pair_inst(to, frm, n, m, tier):
    """rank-2 arrays: std::array<std::array<to, m>, n> <- same shape of frm (witness element (g_w, g_w2)); the two nested
    constant-bound loops are completely unwound (unwinding assertions on): a bounded stand-in whose bound is the array shape"""
    cto, lo, hi = CXX_INTS[to]
    cfr, flo, fhi = CXX_INTS[frm]
    # the shape the public routes produce for T[n][m]: c_to_std_array_t<T[n][m]> = std::array<T[m], n> (outer std::array of C rows)
    TA = cs('std::array<%s[%d], %d>' % (to, m, n), 'A_')
    FA = cs('std::array<%s[%d], %d>' % (frm, m, n), 'A_')
    el = '%s->_M_elems[%s][%s]'
    allfit = ' && '.join('(MI(%s) >= %s && MI(%s) <= %s)' % (el % ('$1', i, j), mi(lo), el % ('$1', i, j), mi(hi)) for i in range(n) for j in range(m))
    cl = [('objs', '__CPROVER_requires(__CPROVER_rw_ok($0, sizeof(*$0)) && __CPROVER_r_ok($1, sizeof(*$1)) && g_w < %d && g_w2 < %d)' % (n, m)),
          ('noabort_pre', '__CPROVER_requires(g_noabort ==> (%s))' % allfit),
          ('every_element_keeps_its_value_or_abort', '__CPROVER_ensures(MI(%s) == MI(__CPROVER_old(%s)))' % (el % ('$0', 'g_w', 'g_w2'), el % ('$1', 'g_w', 'g_w2'))),
          ('frame', '__CPROVER_assigns(*$0)')]
    h = ('  struct %s to; struct %s from; unsigned long in_w, in_w2; g_w = in_w; g_w2 = in_w2; __CPROVER_assume(in_w < %d && in_w2 < %d); %s in_from = from._M_elems[in_w][in_w2];\n'
         '  _Bool in_noabort; g_noabort = in_noabort;\n  $ROOT(&to, &from);\n' % (TA, FA, n, m, cfr))
    it = Inst('c06_array2_%s_%dx%d__from__%s' % (tid(to), n, m, tid(frm)), 'std::array<%s[%d], %d>& to, const std::array<%s[%d], %d>& from' % (to, m, n, frm, m, n),
              'detail::convert_type_fundamental_or_array(to, from);', cl, h, leaves=['dynamic_check'], prop=PROP, root_name='convert_type_fundamental_or_array',
              tier=tier, pre='_Bool g_noabort; _Bool g_backend_nonnull; unsigned long g_expect_example; unsigned long g_expect_malloc_size; unsigned long g_w, g_w2;\n' + MEMCPY_OBJ,
              note='rank-2 array %dx%d: T_To=%s T_From=%s' % (n, m, to, frm))
    it.kind = 'bounded'
    it.unwind = max(n, m) + 1
    it.object_bits = 12
    return it


def dynamic_check_body_inst(tier):
    """detail::dynamic_check itself (default build: no exceptions, no custom abort handler): it returns only if the condition
    holds - every "or the operation aborts" clause of every property rests on this body, which is a contract leaf elsewhere"""
    cl = [('returns_only_if_the_condition_holds', '__CPROVER_ensures($0)'),
          ('aborts_exactly_when_it_does_not', '__CPROVER_ensures(g_aborts == 0)'),
          ('frame', '__CPROVER_assigns(g_aborts)')]
    pre = ('_Bool g_noabort; _Bool g_backend_nonnull; unsigned long g_expect_example; unsigned long g_expect_malloc_size; unsigned g_aborts;\n'
           '/* std::abort does not return */\nvoid vstd_abort(void)\n__CPROVER_ensures(0)\n__CPROVER_assigns(g_aborts);\n')
    h = '  _Bool in_check; g_aborts = 0;\n  $ROOT(in_check, "message");\n'
    return Inst('c06_dynamic_check_body', 'bool c', 'detail::dynamic_check(c, "message");', cl, h, leaves=[], prop=PROP, root_name='dynamic_check', tier=tier,
                pre=pre, extra_replace=['vstd_abort'], opts={'ostream_model': True},
                note='std::cerr << msg << std::endl is dropped (M-ostream: diagnostics have no effect on the program state); std::abort is a stub that does not return')


def non_class_inst(direction, to, frm, tier):
    """detail::convert_type_non_class, the dispatcher every scalar crossing goes through (loads, stores, arguments, results,
    struct fields), instantiated directly with a source type *wider* than the destination in either direction - the guest ABI of
    the verification backend never has wider primitives than the application, so the public routes cannot show this case"""
    cto, lo, hi = CXX_INTS[to]
    cfr, flo, fhi = CXX_INTS[frm]
    cl = [('objs', '__CPROVER_requires(__CPROVER_rw_ok($0, sizeof(*$0)) && __CPROVER_r_ok($1, sizeof(*$1)))'),
          ('source_valid', '__CPROVER_requires(MI(*$1) >= %s && MI(*$1) <= %s)' % (mi(flo), mi(fhi))),
          ('noabort_pre', '__CPROVER_requires(g_noabort ==> (MI(*$1) >= %s && MI(*$1) <= %s))' % (mi(lo), mi(hi))),
          ('same_value_or_abort', '__CPROVER_ensures(MI(*$0) == MI(__CPROVER_old(*$1)))'),
          ('frame', '__CPROVER_assigns(*$0)')]
    h = '  %s to; %s from; %s in_from = from;\n  _Bool in_noabort; g_noabort = in_noabort;\n  $ROOT(&to, &from, (const void *)0, (void *)0);\n' % (cto, cfr, cfr)
    return Inst('c06_non_class_%s_%s__from__%s' % (direction.lower(), tid(to), tid(frm)), '%s& to, const volatile %s& from' % (to, frm),
                'detail::convert_type_non_class<vsbx, detail::adjust_type_direction::%s, detail::adjust_type_context::EXAMPLE>(to, from, nullptr, nullptr);' % direction,
                cl, h, leaves=['dynamic_check'], prop=PROP, root_name='convert_type_non_class', tier=tier,
                pre='_Bool g_noabort; _Bool g_backend_nonnull; unsigned long g_expect_example; unsigned long g_expect_malloc_size;',
                note='dispatcher with direction %s: T_To=%s T_From=%s' % (direction, to, frm))


def quick_pairs():
    # one pair per signedness/width branch of the function plus both boundary-sensitive neighbours
    q = [('int', 'long long'), ('long long', 'int'), ('unsigned int', 'unsigned long'), ('unsigned long', 'unsigned int'),
         ('unsigned int', 'long'), ('unsigned int', 'int'), ('unsigned long', 'int'), ('int', 'unsigned int'),
         ('int', 'unsigned long'), ('long', 'unsigned int'), ('short', 'int'), ('unsigned short', 'int'),
         ('signed char', 'short'), ('unsigned char', 'long'), ('char', 'int'), ('int', 'char'), ('long', 'unsigned long'),
         ('unsigned long', 'long'), ('char16_t', 'int'), ('wchar_t', 'long'), ('char32_t', 'long long'),
         ('int', 'int'), ('short', 'unsigned short'), ('unsigned short', 'short'), ('bool', 'bool'), ('int', 'bool'),
         ('bool', 'int'), ('bool', 'unsigned char')]
    return q


def dynamic_check_units(tier, prop=None, prefix='c06'):
    """the body of detail::dynamic_check in the build configurations its text depends on: default and NDEBUG (release); every
    "or the operation aborts" clause of the module rests on it returning only if the condition holds"""
    out = []
    for cfg, pre in (('', ''), ('_release_build', '#define NDEBUG\n')):
        it = dynamic_check_body_inst(tier)
        it.name = '%s_dynamic_check_body%s' % (prefix, cfg)
        it.prop = prop or PROP
        out.append(Unit('%s_dynamic_check%s' % ((prop or PROP), cfg), [it], pre_cpp=pre))
    return out


def units(tier):
    names = list(CXX_INTS)
    pairs = quick_pairs() if tier == 'quick' else [(a, b) for a in names for b in names]
    insts = [pair_inst(a, b, tier) for a, b in pairs]
    # element by element for arrays: same width / other signedness (no bulk copy allowed), narrowing, widening, identical
    apairs = [('unsigned int', 'int', 4), ('short', 'unsigned short', 3), ('int', 'long', 4), ('long', 'int', 2), ('int', 'int', 4)]
    if tier != 'quick':
        apairs += [('long', 'unsigned long', 2), ('unsigned char', 'signed char', 8), ('unsigned long', 'unsigned int', 3), ('char', 'int', 4)]
    insts += [array_pair_inst(a, b, n, tier) for a, b, n in apairs]
    insts += [array2_pair_inst('int', 'unsigned int', 2, 2, tier), array2_pair_inst('unsigned short', 'short', 3, 2, tier), array2_pair_inst('int', 'int', 2, 3, tier)]
    for d_, a_, b_ in [('TO_APPLICATION', 'int', 'long'), ('TO_APPLICATION', 'unsigned int', 'unsigned long'), ('TO_SANDBOX', 'int', 'long'), ('TO_APPLICATION', 'long', 'int'), ('NO_CHANGE', 'short', 'long long')]:
        insts.append(non_class_inst(d_, a_, b_, tier))
    # "passing an argument of the parameter's own type, returning results": the invocation glue of C11 for signatures whose
    # long / unsigned long parameters and results narrow to 32 bits under the vsbx ABI (plain, tainted and opaque argument forms)
    from . import C11
    ginsts = []
    for p, r in [(['long_plain'], 'int'), (['ulong_tainted', 'long_plain', 'ptr_tainted'], 'void'), (['long_opaque'], 'long')]:
        it = C11.invoke_inst(p, r, tier)
        it.name = it.name.replace('c11_', 'c06_')
        it.prop = PROP
        ginsts.append(it)
    # "storing into sandbox memory": the public store between two guest cells of different integer types (tainted_volatile::operator=
    # cond3) must reach the range-checked conversion (contracts of C07)
    from . import C07
    for td, ts_ in [('short', 'long long'), ('unsigned int', 'int')] + ([] if tier == 'quick' else [('int', 'unsigned long'), ('char', 'int'), ('unsigned long', 'long')]):
        it = C07.cellcopy_inst(td, ts_, tier)
        it.name = it.name.replace('c07_', 'c06_')
        it.prop = PROP
        insts.append(it)
    return [Unit('C06_fundamental', insts), Unit('C06_call_arguments', ginsts)] + dynamic_check_units(tier)


ASSUMPTIONS = [
    'the const volatile source object is stable for the duration of one call (C06 quantifies over inputs, not schedules)',
    'abort()/throw in dynamic_check do not return (dynamic_check is a contract leaf: requires(g_noabort ==> check) ensures(check))',
]

MANIFEST = {
    'level_text': 'For every ordered pair of the 15 integer types (225 instantiations; quick tier: 28 covering every signedness/width branch and its boundaries) the instantiated body of convert_type_fundamental is proved, over all source values at full width, to either leave exactly the source value in the destination (128-bit comparison) or abort, and not to abort when the value is representable. Loop-free code over full-domain symbolic inputs: complete, no bound.',
    'level_note': 'Assumes: the volatile source is stable during one call; dynamic_check is a contract leaf (abort/throw do not return); clang AST dump and the AST->C lowerings listed in evidence; array/element-wise and public-route (tainted_volatile load/store) callers are covered under C07; arguments and results of calls go through the invocation glue instances shared with C11. Known finding KF-C06-bool-dest-same-width (bool destination from an 8-bit source).',
}
