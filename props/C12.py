"""C12 - a callback call runs exactly the registered function with faithful arguments.
Functions under contract, for the bundled no-op and dylib backends in both TLS configurations:
impl_register_callback (the 64 instantiated lambda bodies of compile_time_for), impl_unregister_callback,
callback_trampoline<N,...>, impl_get_executed_callback_sandbox_and_key, impl_invoke_with_func_ptr
(rlbox_noop_sandbox.hpp:67-86, 179-236; rlbox_dylib_sandbox.hpp:83-102, 237-294), detail::scope_exit
(rlbox_helpers.hpp:145-185); core: rlbox_sandbox::sandbox_callback_interceptor and
sandbox_callback_intercept_convert_param (rlbox_sandbox.hpp:215-297) on the foreign-ABI backend vsbx.
The slot table has a constant size (64), so statements about "every slot" are written out as 64-term
conjunctions: exact, no witness and no bound."""
from vlib.unit import Unit, Inst, find_func
from vlib.astload import inner
from .common import cs, PRE_GHOST, mi
from .C03 import REGIONS, SB_DECL, sb_req, SB

PROP = 'C12'
TITLE = 'A callback call runs exactly the registered function with faithful arguments'
FUNCTIONS = ['rlbox_noop_sandbox / rlbox_dylib_sandbox: impl_register_callback, impl_unregister_callback, callback_trampoline<N>, impl_get_executed_callback_sandbox_and_key, impl_invoke_with_func_ptr',
             'detail::scope_exit, detail::make_scope_exit, detail::compile_time_for (rlbox_helpers.hpp)',
             'rlbox_sandbox::sandbox_callback_interceptor, sandbox_callback_intercept_convert_param (rlbox_sandbox.hpp:215-297)']
N = 64


def conj(f, rng=range(N)):
    return '(' + ' && '.join(f(i) for i in rng) + ')'


BACKENDS = {
    'noop': dict(inc='rlbox_noop_sandbox.hpp', cls='rlbox_noop_sandbox', statics='RLBOX_NOOP_SANDBOX_STATIC_VARIABLES();', extra='#define RLBOX_USE_STATIC_CALLS() rlbox_noop_sandbox_lookup_symbol\n',
                 td='thread_data', tdinfo='rlbox_noop_sandbox_thread_info'),
    'dylib': dict(inc='rlbox_dylib_sandbox.hpp', cls='rlbox_dylib_sandbox', statics='RLBOX_DYLIB_SANDBOX_STATIC_VARIABLES();', extra='',
                  td='thread_data', tdinfo='rlbox_dylib_sandbox_thread_info'),
}


def mk_unit(be, tls, tier, table_ops=True):
    B = BACKENDS[be]
    cls = B['cls']
    BS = cs('rlbox::' + cls)
    TD = '$G(%s)' % (B['td'] if tls == 'lib' else B['tdinfo'])
    K = lambda i, this='$this': '%s->callback_unique_keys[%s]' % (this, i)
    C = lambda i, this='$this': '%s->callbacks[%s]' % (this, i)
    GH = PRE_GHOST + ' unsigned long g_first;\n'
    insts = []
    trig = 'rlbox_sandbox<%s>& s, tainted<int, %s> (*f)(rlbox_sandbox<%s>&, tainted<long, %s>)' % (cls, cls, cls, cls)
    trig_expr = 's.register_callback(f);'

    # ---- impl_register_callback
    first_free = 'g_first <= 64 && %s && (g_first < 64 ==> %s == 0)' % (conj(lambda i: '(g_first > %d ==> %s != 0)' % (i, K(i))), K('g_first'))
    unchanged_except = lambda: conj(lambda i: '(g_first != %d ==> (%s == __CPROVER_old(%s) && %s == __CPROVER_old(%s)))' % (i, K(i), K(i), C(i), C(i)))
    cl = [('obj', '__CPROVER_requires(__CPROVER_rw_ok($this, sizeof(struct %s)))' % BS),
          ('g_first_is_least_free_slot', '__CPROVER_requires(%s)' % first_free),
          ('noabort_pre', '__CPROVER_requires(g_noabort ==> g_first < 64)'),
          ('full_table_is_refused_never_entry_point_0', '__CPROVER_ensures(g_first < 64 && (unsigned long)$ret != 0)'),
          ('least_free_slot_taken', '__CPROVER_ensures(g_first < 64 ==> (%s == $0 && %s == $1))' % (K('g_first'), C('g_first'))),
          ('entry_point_of_that_slot', '__CPROVER_ensures(g_first < 64 ==> (void *)$ret == SPEC_TRAMP[g_first])'),
          ('other_slots_unchanged', '__CPROVER_ensures(%s)' % unchanged_except()),
          ('frame', '__CPROVER_assigns(__CPROVER_object_whole($this))')]
    h = '  struct %s be; unsigned long in_first; g_first = in_first; uintptr_t in_key, in_cb; _Bool in_noabort; g_noabort = in_noabort;\n  void *r = (void *)$ROOT(&be, (void *)in_key, (void *)in_cb);\n' % BS
    h += '  /* the 64 entry points are pairwise distinct function addresses */\n'
    post = 'void *const SPEC_TRAMP[64] = { $FTABLE(callback_trampoline) };\n'
    pick = lambda tu, fn: find_func(tu, 'impl_register_callback', 'rlbox::' + cls)
    insts.append(Inst('c12_%s_%s_register' % (be, tls), trig, trig_expr, cl, h, leaves=['dynamic_check'], prop=PROP, root_name='impl_register_callback', tier=tier,
                      pre=GH, post_protos=post, root_pick=pick, timeout=300,
                      # the 64 trampolines are emitted because their addresses are taken; they are not called here (their bodies,
                      # incl. the call through the stored function pointer, are verified by the trampoline instances)
                      opts={'allow_unstubbed_indirect_calls': True},
                      note='compile_time_for<64> arrives as 64 straight-line lambda calls: no loop; the entry point returned is the N-th instantiation of callback_trampoline'))

    # ---- impl_unregister_callback (loop over the constant MAX_CALLBACKS)
    first_match = 'g_first <= 64 && %s && (g_first < 64 ==> %s == $0)' % (conj(lambda i: '(g_first > %d ==> %s != $0)' % (i, K(i))), K('g_first'))
    cl = [('obj', '__CPROVER_requires(__CPROVER_rw_ok($this, sizeof(struct %s)))' % BS),
          ('g_first_is_first_slot_holding_key', '__CPROVER_requires(%s)' % first_match),
          ('slot_cleared', '__CPROVER_ensures(g_first < 64 ==> (%s == 0 && %s == 0))' % (K('g_first'), C('g_first'))),
          ('other_slots_unchanged', '__CPROVER_ensures(%s)' % unchanged_except()),
          ('frame', '__CPROVER_assigns(__CPROVER_object_whole($this))')]
    lc = ('__CPROVER_assigns($LV, __CPROVER_object_whole($this))\n'
          '__CPROVER_loop_invariant($LV <= 64 && $LV <= g_first)\n'
          '__CPROVER_loop_invariant(%s)\n'
          '__CPROVER_decreases(64 - $LV)' % conj(lambda j: '(%s == __CPROVER_loop_entry(%s) && %s == __CPROVER_loop_entry(%s))' % (K(j), K(j), C(j), C(j))))
    h = '  struct %s be; unsigned long in_first; g_first = in_first; uintptr_t in_key;\n  $ROOT(&be, (void *)in_key);\n' % BS
    pick = lambda tu, fn: find_func(tu, 'impl_unregister_callback', 'rlbox::' + cls)
    insts.append(Inst('c12_%s_%s_unregister' % (be, tls), 'sandbox_callback<int (*)(long), %s>& c' % cls, 'c.unregister();', cl, h, leaves=['dynamic_check'], prop=PROP,
                      root_name='impl_unregister_callback', tier=tier, pre=GH, root_pick=pick, loop_contracts={('impl_unregister_callback', 0): lc}, timeout=300))

    # ---- trampolines
    TSTUB = ('int cb_target_stub(void *target, long a0)\n'
             '__CPROVER_ensures(g_icalls == __CPROVER_old(g_icalls) + 1 && g_icall_target == (unsigned long)target && g_icall_arg0 == a0 && __CPROVER_return_value == g_icall_ret)\n'
             '__CPROVER_assigns(g_icalls, g_icall_target, g_icall_arg0);\n')
    TG = PRE_GHOST + ' unsigned g_icalls; unsigned long g_icall_target; long g_icall_arg0; int g_icall_ret;\n'
    for n in ([0, 63] if tier == 'quick' else [0, 1, 7, 31, 62, 63]):
        cl = [('current_sandbox_valid', '__CPROVER_requires(__CPROVER_r_ok(%s.sandbox, sizeof(struct %s)) && g_icalls == 0)' % (TD, BS)),
              ('records_its_slot', '__CPROVER_ensures(%s.last_callback_invoked == %d)' % (TD, n)),
              ('calls_the_interceptor_of_that_slot_of_the_current_sandbox_once', '__CPROVER_ensures(g_icalls == 1 && g_icall_target == (unsigned long)__CPROVER_old(%s.sandbox->callbacks[%d]))' % (TD, n)),
              ('arguments_and_result_passed_through', '__CPROVER_ensures(g_icall_arg0 == $0 && $ret == g_icall_ret)'),
              ('frame', '__CPROVER_assigns(%s.last_callback_invoked, g_icalls, g_icall_target, g_icall_arg0)' % TD)]
        h = ('  struct %s be; %s.sandbox = &be; unsigned in_last; %s.last_callback_invoked = in_last; g_icalls = 0; int in_ret; g_icall_ret = in_ret; long in_a;\n'
             '  int r = $ROOT(in_a);\n' % (BS, TD, TD))

        def pick(tu, fn, n=n):
            return find_func(tu, 'callback_trampoline', 'rlbox::' + cls, lambda f, rn: [c for c in inner(f) if c.get('kind') == 'TemplateArgument'][0].get('value') == n)
        insts.append(Inst('c12_%s_%s_trampoline_%d' % (be, tls, n), trig, trig_expr, cl, h, leaves=['dynamic_check'], prop=PROP, root_name='callback_trampoline', tier=tier,
                          pre=TG + TSTUB, root_pick=pick, opts={'indirect_stubs': {'*': 'cb_target_stub'}}, extra_replace=['cb_target_stub']))

    # ---- impl_get_executed_callback_sandbox_and_key
    PT = cs('std::pair<rlbox::%s *, void *>' % cls, 'P_')
    cl = [('current_valid', '__CPROVER_requires(__CPROVER_r_ok(%s.sandbox, sizeof(struct %s)) && %s.last_callback_invoked < 64)' % (TD, BS, TD)),
          ('current_sandbox_and_key_of_last_slot', '__CPROVER_ensures((void *)$ret.first == (void *)%s.sandbox && $ret.second == %s.sandbox->callback_unique_keys[%s.last_callback_invoked])' % (TD, TD, TD)),
          ('frame', '__CPROVER_assigns()')]
    h = '  struct %s be; %s.sandbox = &be; unsigned in_last; %s.last_callback_invoked = in_last;\n  struct %s r = $ROOT();\n' % (BS, TD, TD, PT)
    pick = lambda tu, fn: find_func(tu, 'impl_get_executed_callback_sandbox_and_key', 'rlbox::' + cls)
    insts.append(Inst('c12_%s_%s_get_executed' % (be, tls), trig, trig_expr, cl, h, leaves=[], prop=PROP, root_name='impl_get_executed_callback_sandbox_and_key', tier=tier,
                      pre=PRE_GHOST, root_pick=pick))

    # ---- impl_invoke_with_func_ptr: current sandbox set for the duration of the call and restored afterwards
    GSTUB = ('int guest_fn_stub(long a0)\n'
             '__CPROVER_requires((unsigned long)%s.sandbox == g_expect_current) /*@current_sandbox_is_this_during_the_call*/\n'
             '__CPROVER_requires(g_armed_guards == 1) /*@a_guard_that_restores_the_previous_sandbox_is_armed_during_the_call*/\n'
             '__CPROVER_ensures(g_gcalls == __CPROVER_old(g_gcalls) + 1 && g_garg0 == a0 && __CPROVER_return_value == g_gret)\n'
             '__CPROVER_assigns(g_gcalls, g_garg0);\n' % TD)
    IG = PRE_GHOST + ' unsigned g_gcalls; long g_garg0; int g_gret; unsigned long g_expect_current; unsigned g_armed_guards;\n'
    cl = [('obj', '__CPROVER_requires(__CPROVER_rw_ok($this, sizeof(struct %s)) && g_gcalls == 0 && g_armed_guards == 0 && g_expect_current == (unsigned long)$this)' % BS),
          ('every_guard_has_run', '__CPROVER_ensures(g_armed_guards == 0)'),
          ('called_once_with_the_argument', '__CPROVER_ensures(g_gcalls == 1 && g_garg0 == *$1 && $ret == g_gret)'),
          ('previous_current_sandbox_restored', '__CPROVER_ensures(%s.sandbox == __CPROVER_old(%s.sandbox))' % (TD, TD)),
          ('frame', '__CPROVER_assigns(%s.sandbox, g_gcalls, g_garg0, g_armed_guards)' % TD)]
    h = ('  struct %s be; struct %s other; _Bool in_nested; %s.sandbox = in_nested ? &other : (struct %s *)0; g_gcalls = 0; g_armed_guards = 0; g_expect_current = (unsigned long)&be; int in_ret; g_gret = in_ret; long in_a;\n'
         '  int r = $ROOT(&be, guest_fn_stub, &in_a);\n' % (BS, BS, TD, BS))
    pick = lambda tu, fn: find_func(tu, 'impl_invoke_with_func_ptr', 'rlbox::' + cls)
    insts.append(Inst('c12_%s_%s_invoke_saves_restores' % (be, tls), 'rlbox_sandbox<%s>& s, long a' % cls, 's.INTERNAL_invoke_with_func_ptr<int(long)>("f", (void*)0, a);', cl, h,
                      leaves=['dynamic_check'], prop=PROP, root_name='impl_invoke_with_func_ptr', tier=tier, pre=IG, post_protos=GSTUB, root_pick=pick,
                      opts={'param_fn_stubs': {'*': 'guest_fn_stub'}, 'dtor_ghost': True}, extra_replace=['guest_fn_stub'],
                      note='scope_exit guard lowered by L-dtor: destructor call at the return; nested invocation = a non-null previous current sandbox'))
    # the same function under L-throw: the sandboxed function may end in an exception (an abort inside a nested callback); the previous
    # current sandbox is restored on that exit too (the guard destructor is the real scope_exit destructor, run where unwinding runs it)
    cl_x = [cl[0], ('no_exception_in_flight_at_entry', '__CPROVER_requires(!g_exc)'), cl[1],
            ('previous_current_sandbox_restored_on_every_exit', '__CPROVER_ensures(%s.sandbox == __CPROVER_old(%s.sandbox))' % (TD, TD)),
            ('called_at_most_once', '__CPROVER_ensures(g_gcalls <= 1)'),
            ('frame', '__CPROVER_assigns(g_exc, %s.sandbox, g_gcalls, g_garg0, g_armed_guards)' % TD)]
    insts.append(Inst('c12_%s_%s_invoke_restores_on_exceptional_exit' % (be, tls), 'rlbox_sandbox<%s>& s, long a' % cls, 's.INTERNAL_invoke_with_func_ptr<int(long)>("f", (void*)0, a);', cl_x,
                      h.replace('g_gcalls = 0;', 'g_exc = 0; g_gcalls = 0;', 1),
                      leaves=['dynamic_check'], prop=PROP, root_name='impl_invoke_with_func_ptr', tier=tier, pre=IG + ' _Bool g_exc;\n',
                      post_protos=GSTUB.replace('__CPROVER_assigns(g_gcalls, g_garg0)', '__CPROVER_assigns(g_exc, g_gcalls, g_garg0)'), root_pick=pick,
                      opts={'param_fn_stubs': {'*': 'guest_fn_stub'}, 'dtor_ghost': True, 'exc_model': True}, extra_replace=['guest_fn_stub'],
                      note='L-throw: the sandboxed function may throw; exit by exception runs the guard like unwinding does'))
    # ---- the remaining backend member functions that run between registrations: they must leave the slot table alone
    # (a registration survives destroy_sandbox / create_sandbox with its owner, C13)
    lifecycle = [('impl_destroy_sandbox', 's.destroy_sandbox();', '$ROOT(&be);')]
    if be == 'noop':
        lifecycle.append(('impl_create_sandbox', 's.create_sandbox();', '$ROOT(&be);'))
    else:
        lifecycle.append(('impl_create_sandbox', 's.create_sandbox("lib");', '$ROOT(&be, "lib");'))
    for fnm, expr, call in lifecycle:
        cl = [('obj', '__CPROVER_requires(__CPROVER_rw_ok($this, sizeof(struct %s)))' % BS),
              ('slot_table_untouched', '__CPROVER_ensures(%s)' % conj(lambda i: '(%s == __CPROVER_old(%s) && %s == __CPROVER_old(%s))' % (K(i), K(i), C(i), C(i)))),
              ('frame', '__CPROVER_assigns(__CPROVER_object_whole($this))')]
        h = '  struct %s be; g_noabort = 0;\n  %s\n' % (BS, call)
        pick = lambda tu, fn, fnm=fnm: find_func(tu, fnm, 'rlbox::' + cls)
        insts.append(Inst('c12_%s_%s_%s_keeps_slot_table' % (be, tls, fnm), 'rlbox_sandbox<%s>& s' % cls, expr, cl, h, leaves=['dynamic_check'], prop=PROP, root_name=fnm, tier=tier,
                          pre=PRE_GHOST + (' int dlclose(void *handle)\n__CPROVER_requires(1)\n__CPROVER_ensures(1)\n__CPROVER_assigns();\n'
                                           ' void *dlopen(const char *path, int flags)\n__CPROVER_requires(1)\n__CPROVER_ensures(1)\n__CPROVER_assigns();\n'
                                           ' char *dlerror(void)\n__CPROVER_requires(1)\n__CPROVER_ensures(1)\n__CPROVER_assigns();\n'), root_pick=pick,
                          post_protos='struct M_string vstd_string_cstr(const char *s)\n__CPROVER_requires(1)\n__CPROVER_ensures(__CPROVER_return_value.src == s)\n__CPROVER_assigns();\n' if fnm == 'impl_create_sandbox' and be != 'noop' else '',
                          opts={'extern_functions': ('dlclose', 'dlopen', 'dlerror'), 'diag_strings': True}, extra_replace=['dlclose', 'dlopen', 'dlerror', 'vstd_string_cstr'],
                          note='frame of a backend life-cycle function over the 64-slot table'))
    if not table_ops:
        # register/unregister do not touch the per-thread record: TLS-independent, verified once per backend
        insts = [it for it in insts if not (it.name.endswith('_register') or it.name.endswith('_unregister') or (it.name.endswith('_keeps_slot_table') and not (be == 'dylib' and tls == 'lib')))]   # the dylib life-cycle frames stay in the quick tier (seeded/W184)
    defines = ['RLBOX_SINGLE_THREADED_INVOCATIONS']
    extra = B['extra']
    if tls == 'embedder':
        defines.append('RLBOX_EMBEDDER_PROVIDES_TLS_STATIC_VARIABLES')
    u = Unit('C12_%s_%s' % (be, tls), insts, includes=(B['inc'], 'rlbox.hpp'), defines=tuple(defines),
             extra_cpp=(B['statics'] if tls == 'embedder' else ''))
    if extra:
        u.defines = tuple(list(u.defines) + ['RLBOX_USE_STATIC_CALLS()=rlbox_noop_sandbox_lookup_symbol'])
    return u


def interceptor_unit(tier):
    """core interceptor on the foreign-ABI backend: arguments converted from the guest ABI, result converted back"""
    TL = cs('rlbox::tainted<long, rlbox::vsbx>')
    TI = cs('rlbox::tainted<int, rlbox::vsbx>')
    PT = cs('std::pair<rlbox::vsbx *, void *>', 'P_')
    G = PRE_GHOST + ' unsigned g_icalls; unsigned long g_icall_target, g_icall_sb; long g_icall_arg0; int g_icall_ret; unsigned long g_cur_sb, g_cur_key;\n'
    post = ('struct %s app_cb_stub(void *target, struct %s *sb, struct %s a0)\n'
            '__CPROVER_ensures(g_icalls == __CPROVER_old(g_icalls) + 1 && g_icall_target == (unsigned long)target && g_icall_sb == (unsigned long)sb && g_icall_arg0 == a0.data && __CPROVER_return_value.data == g_icall_ret)\n'
            '__CPROVER_assigns(g_icalls, g_icall_target, g_icall_sb, g_icall_arg0);\n' % (TI, SB, TL))

    def _is(name):
        def p(fn, rec):
            return fn.get('name') == name
        return p
    ctx = ('backend impl_get_executed_callback_sandbox_and_key(stub)', _is('impl_get_executed_callback_sandbox_and_key'),
           '__CPROVER_ensures((unsigned long)$ret.first == g_cur_sb && (unsigned long)$ret.second == g_cur_key)\n__CPROVER_assigns()')
    cl = [('ghost', '__CPROVER_requires(g_icalls == 0 && __CPROVER_r_ok((struct %s *)g_cur_sb, sizeof(struct %s)))' % (SB, SB)),
          ('noabort_pre', '__CPROVER_requires(g_noabort ==> 1)'),
          ('registered_function_runs_exactly_once', '__CPROVER_ensures(g_icalls == 1 && g_icall_target == g_cur_key)'),
          ('receives_the_executing_sandbox', '__CPROVER_ensures(g_icall_sb == g_cur_sb)'),
          ('argument_converted_from_guest_abi', '__CPROVER_ensures(MI(g_icall_arg0) == MI($0))'),
          ('result_converted_to_guest_abi', '__CPROVER_ensures(MI($ret) == MI(g_icall_ret))'),
          ('frame', '__CPROVER_assigns(g_icalls, g_icall_target, g_icall_sb, g_icall_arg0)')]
    h = ('  struct %s sb; g_cur_sb = (unsigned long)&sb; uintptr_t in_key; g_cur_key = in_key; g_icalls = 0; int in_ret; g_icall_ret = in_ret; int in_guest_arg;\n'
         '  _Bool in_noabort; g_noabort = in_noabort; g_backend_nonnull = 0; g_expect_example = 0;\n  int r = $ROOT(in_guest_arg);\n' % SB)
    pick = lambda tu, fn: find_func(tu, 'sandbox_callback_interceptor', 'rlbox::rlbox_sandbox<rlbox::vsbx>')
    it = Inst('c12_interceptor_int_long', 'rlbox_sandbox<vsbx>& s, tainted<int, vsbx> (*f)(rlbox_sandbox<vsbx>&, tainted<long, vsbx>)', 's.register_callback(f);', cl, h,
              leaves=['dynamic_check', ctx], prop=PROP, root_name='sandbox_callback_interceptor', tier=tier, pre=G, post_protos=post, root_pick=pick,
              opts={'indirect_stubs': {'*': 'app_cb_stub'}}, extra_replace=['app_cb_stub'],
              note='guest long is 32-bit under vsbx: the argument arrives as int and is widened; the int result is passed back unchanged')
    # a callback whose result type narrows under the guest ABI (long -> 32-bit): converted exactly, or the call aborts
    post2 = ('struct %s app_cb_stub(void *target, struct %s *sb, struct %s a0)\n'
             '__CPROVER_ensures(g_icalls == __CPROVER_old(g_icalls) + 1 && g_icall_target == (unsigned long)target && g_icall_sb == (unsigned long)sb && g_icall_arg0 == a0.data && __CPROVER_return_value.data == g_icall_lret)\n'
             '__CPROVER_assigns(g_icalls, g_icall_target, g_icall_sb, g_icall_arg0);\n' % (TL, SB, TL))
    cl2 = [c for c in cl if c[0] not in ('noabort_pre', 'result_converted_to_guest_abi', 'frame')] + [
        ('noabort_pre', '__CPROVER_requires(g_noabort ==> (MI(g_icall_lret) >= %s && MI(g_icall_lret) <= %s))' % (mi(-(2 ** 31)), mi(2 ** 31 - 1))),
        ('result_converted_to_guest_abi_or_abort', '__CPROVER_ensures(MI($ret) == MI(g_icall_lret))'),
        ('frame', '__CPROVER_assigns(g_icalls, g_icall_target, g_icall_sb, g_icall_arg0)')]
    h2 = h.replace('int in_ret; g_icall_ret = in_ret;', 'long in_ret; g_icall_lret = in_ret;')
    it2 = Inst('c12_interceptor_long_long', 'rlbox_sandbox<vsbx>& s, tainted<long, vsbx> (*f)(rlbox_sandbox<vsbx>&, tainted<long, vsbx>)', 's.register_callback(f);', cl2, h2,
               leaves=['dynamic_check', ctx], prop=PROP, root_name='sandbox_callback_interceptor', tier=tier, pre=G + ' long g_icall_lret;\n', post_protos=post2, root_pick=pick,
               opts={'indirect_stubs': {'*': 'app_cb_stub'}}, extra_replace=['app_cb_stub'],
               note='the long result is narrowed to the guest 32-bit long: exact, or the call aborts (both directions)')
    return Unit('C12_interceptor', [it]), Unit('C12_interceptor_long', [it2])


def units(tier):
    us = [mk_unit('noop', 'lib', tier), mk_unit('noop', 'embedder', tier, table_ops=(tier != 'quick'))] + list(interceptor_unit(tier))
    # dylib backend: the dispatch functions (trampolines, get_executed, invoke save/restore) on every change; its slot-table
    # functions (the same text as the no-op backend's, 64 unrolled lambdas each) in the thorough tier
    us += [mk_unit('dylib', 'lib', tier, table_ops=(tier != 'quick')), mk_unit('dylib', 'embedder', tier, table_ops=(tier != 'quick'))]
    # the entry point handed to the sandbox is requested from the backend for the callback's GUEST signature and with the core's
    # interceptor (contracts of C13: register_callback), the link between the backend's trampoline and the interceptor instances above
    from . import C13
    it = C13.register_inst(tier)
    it.name = 'c12_register_requests_entry_point_for_guest_signature'
    it.prop = PROP
    from .common import base_at_offset_zero_inst
    it2 = [i for i in C13.owner_insts(tier) if i.name == 'c13_callback_stored_into_a_function_pointer_cell_is_its_entry_point'][0]
    it2.name = 'c12_callback_stored_into_a_function_pointer_cell_is_its_entry_point'
    it2.prop = PROP
    us.append(Unit('C12_registration', [it, it2, base_at_offset_zero_inst('c12_executing_sandbox_pointer_designates_the_sandbox_object', PROP, ['rlbox::vsbx'], tier)]))
    return us


ASSUMPTIONS = [
    'the dylib backend\'s impl_create_sandbox builds a diagnostic std::string on its failure path: modelled as M-str (opt diag_strings: operator+= leaves the modelled string unchanged, c_str() is its pointer; the content of a diagnostic message is in no contract); dlopen / dlerror / dlclose are stubs',
    'sequential semantics: thread_local records are one global per thread (M-lock, single thread); cross-thread interference is C18 (not claimed)',
    'calls through function pointers are recording stubs: the callee behaves arbitrarily but returns; which pointer was called and with what is recorded',
    'L-dtor: the scope_exit guard\'s destructor runs at the return of impl_invoke_with_func_ptr (C++ scope-exit order assumed); exits by exception are modelled by L-throw (instances *_invoke_restores_on_exceptional_exit: the sandboxed function may throw, the lowered scope_exit destructor runs where unwinding would run it, the previous executing sandbox is restored)',
    'dispatch lemma (DESIGN.md C12): composed by hand from the per-function contracts: register puts (key, interceptor) in slot k and returns trampoline k; trampoline k records k and calls callbacks[k] of the current sandbox; get_executed returns (current, keys[k]); the interceptor calls keys[k] once with the executing sandbox and converted arguments',
]
TRUSTED = ['$FTABLE: the specification table of entry points is the list of instantiated callback_trampoline<N,...> functions ordered by N as clang instantiated them']
MANIFEST = {
    'level_text': 'Per-function contracts over the constant-size slot table, written as exact 64-term conjunctions: register takes the least free slot, stores key and interceptor there, returns the entry point of that slot (or changes nothing and returns no entry point when full); unregister clears exactly the first slot holding the key (loop contract); trampoline N records N and calls the interceptor stored in slot N of the current thread\'s sandbox exactly once with the same arguments; get_executed returns the current sandbox and the key of the recorded slot; invoke makes this the current sandbox for the duration of the call and restores the previous one at exit (scope_exit guard), which composes to any nesting depth; the core interceptor calls exactly the registered function once, with the executing sandbox, arguments converted from the guest ABI and the result converted back. The slot invariant is preserved by every operation, so the statements hold after any history of registrations.',
    'level_note': 'Both TLS configurations of the no-op backend in the quick tier, plus the dylib backend in the thorough tier. The final composition (dispatch lemma) is an argument over these contracts, not a separate machine-checked obligation. Function-pointer calls are stubs.',
}
