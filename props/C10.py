"""C10 - bulk memory operations never straddle or leave the sandbox (numeric view, DESIGN.md 4.4).
Functions under contract: detail::check_range_doesnt_cross_app_sbx_boundary (rlbox_range.hpp:14-30),
rlbox::memset / memcpy / memcmp (rlbox_stdlib.hpp:103-217), tainted_base_impl::unverified_safe_pointer_because
(rlbox.hpp:74-97), copy_and_verify_buffer_address + verify_range_helper (rlbox.hpp:564-589, 746-754),
copy_memory_or_grant_access / copy_memory_or_deny_access (rlbox_stdlib.hpp:232-342).
libc calls are stubs whose *preconditions* state what RLBox must guarantee about the ranges it passes."""
from vlib.unit import Unit, Inst
import vlib.replay_c09  # registers the hook-based native replays
from .C03 import OBJVIEW
from .common import CXX_INTS, mi, tid, cs, PRE_GHOST, HOST_SIZE

PROP = 'C10'
TITLE = 'Bulk memory operations never straddle or leave the sandbox'
FUNCTIONS = ['detail::check_range_doesnt_cross_app_sbx_boundary (rlbox_range.hpp:14-30)',
             'rlbox::memset, rlbox::memcpy, rlbox::memcmp (rlbox_stdlib.hpp:103-217)',
             'tainted_base_impl::unverified_safe_pointer_because (rlbox.hpp:74-97)',
             'tainted_base_impl::copy_and_verify_buffer_address / verify_range_helper (rlbox.hpp:564-589, 746-754)',
             'rlbox::copy_memory_or_grant_access, rlbox::copy_memory_or_deny_access (rlbox_stdlib.hpp:232-342), copy paths']

SB = cs('rlbox::rlbox_sandbox<rlbox::vsbx>')

SPEC = PRE_GHOST + '''
/* a non-empty range [a, a+n) lies wholly inside one live sandbox region (mathematical integers: no wrap) */
#define WHOLLY_IN_SOME(a, n) ((a) != 0 && V_WHICH(a) != -1 && V_IN_MI(V_WHICH(a), MI(a) + MI(n) - 1))
/* ... lies wholly outside region k */
#define WHOLLY_OUT(k, a, n) ((a) != 0 && !V_LIVE(k) ? 1 : ((a) != 0 && (MI(a) + MI(n) <= MI(V_BASE[k]) || MI(a) >= MI(V_BASE[k]) + MI(V_SIZE[k])) && MI(a) + MI(n) <= (MI(1) << 64)))
unsigned long g_exp_d, g_exp_s, g_exp_n; int g_exp_v; int g_slot;
unsigned g_memset_calls, g_memcpy_calls, g_memcmp_calls;
'''

CHECK_RANGE_CL = [
    ('wf', '__CPROVER_requires(V_BACKEND_WF)'),
    ('noabort_pre', '__CPROVER_requires(g_noabort ==> ((uintptr_t)$0 != 0 && $1 >= 1 && MI((uintptr_t)$0) + MI($1) - 1 < (MI(1) << 64) && V_WHICH((uintptr_t)$0) == V_WHICH((uintptr_t)$0 + $1 - 1)))'),
    ('nonnull', '__CPROVER_ensures((uintptr_t)$0 != 0)'),
    ('ends_same_side', '__CPROVER_ensures(V_WHICH((uintptr_t)$0) == V_WHICH((uintptr_t)$0 + $1 - 1))'),
    ('end_does_not_wrap', '__CPROVER_ensures($1 >= 1 ==> MI((uintptr_t)$0) + MI($1) - 1 < (MI(1) << 64))'),
    ('frame', '__CPROVER_assigns()'),
]


def _is_check_range(fn, rec):
    return fn.get('name') == 'check_range_doesnt_cross_app_sbx_boundary'


CHECK_RANGE_LEAF = ('check_range(contract)', _is_check_range, CHECK_RANGE_CL)

SB_HARNESS = ('  struct %s sb; int in_slot; sb.base0.slot = in_slot; g_slot = in_slot;\n'
              '  unsigned long in_base0, in_size0, in_base1, in_size1;\n'
              '  V_BASE[0] = in_base0; V_SIZE[0] = in_size0; V_BASE[1] = in_base1; V_SIZE[1] = in_size1;\n'
              '  __CPROVER_assume(V_BACKEND_WF && (in_slot == 0 || in_slot == 1) && V_LIVE(in_slot));\n'
              '  _Bool in_noabort; g_noabort = in_noabort;\n' % SB)

SB_REQ = [('wf', '__CPROVER_requires(V_BACKEND_WF)'),
          ('sandbox_obj', '__CPROVER_requires(__CPROVER_r_ok($0, sizeof(struct %s)) && ($0->base0.slot == 0 || $0->base0.slot == 1) && V_LIVE($0->base0.slot) && g_slot == $0->base0.slot)' % SB)]


def check_range_inst(tier):
    h = ('  unsigned long in_base0, in_size0, in_base1, in_size1;\n'
         '  V_BASE[0] = in_base0; V_SIZE[0] = in_size0; V_BASE[1] = in_base1; V_SIZE[1] = in_size1;\n'
         '  __CPROVER_assume(V_BACKEND_WF);\n  _Bool in_noabort; g_noabort = in_noabort;\n'
         '  uintptr_t in_p; unsigned long in_n;\n  $ROOT((const void *)in_p, in_n);\n')
    return Inst('c10_check_range', 'const void* p, size_t n', 'detail::check_range_doesnt_cross_app_sbx_boundary<vsbx>(p, n);',
                CHECK_RANGE_CL, h, leaves=['dynamic_check', 'vsbx.impl_is_in_same_sandbox'], prop=PROP,
                root_name='check_range_doesnt_cross_app_sbx_boundary', tier=tier, pre=SPEC,
                replay={'kind': 'check_range'})


def lemma_inst(tier):
    """core lemma of DESIGN.md C10 over the contracts: both ends on the same side, 1 <= len <= 2^32, start < 2^47
    => wholly inside one region or wholly outside every region.  Pure specification (no repository code): the
    root is check_range with its proved contract REPLACED, the harness asserts the lemma after the call."""
    h = ('  unsigned long in_base0, in_size0, in_base1, in_size1;\n'
         '  V_BASE[0] = in_base0; V_SIZE[0] = in_size0; V_BASE[1] = in_base1; V_SIZE[1] = in_size1;\n'
         '  __CPROVER_assume(V_BACKEND_WF);\n  g_noabort = 0;\n'
         '  uintptr_t in_p; unsigned long in_n;\n'
         '  __CPROVER_assume(in_n >= 1 && in_n <= 0x100000000UL && in_p <= 0x800000000000UL);\n'
         '  lemma_client((const void *)in_p, in_n);\n')
    return h


NUM_KINDS = {'plain': ('size_t num', 'unsigned long num; unsigned long in_num = num;', 'num', 'MI($3)'),
             'tainted': ('tainted<size_t, vsbx> num', 'struct %s num; unsigned long in_num = num.data;' % cs('rlbox::tainted<unsigned long, rlbox::vsbx>'), 'num', 'MI($3.data)')}

MEMSET_STUB = '''
void *vstd_memset(void *d, int v, unsigned long n)
__CPROVER_requires(n == 0 || WHOLLY_IN_SOME((uintptr_t)d, n)) /*@memset_range_wholly_inside*/
__CPROVER_requires((uintptr_t)d == g_exp_d && n == g_exp_n && v == g_exp_v) /*@memset_exact_args*/
__CPROVER_ensures(g_memset_calls == __CPROVER_old(g_memset_calls) + 1)
__CPROVER_assigns(g_memset_calls);
'''
MEMCPY_STUB = '''
void *vstd_memcpy(void *d, const void *s, unsigned long n)
__CPROVER_requires(n == 0 || WHOLLY_IN_SOME((uintptr_t)d, n)) /*@memcpy_dest_wholly_inside*/
__CPROVER_requires(n == 0 || WHOLLY_IN_SOME((uintptr_t)s, n) || WHOLLY_OUT(g_slot, (uintptr_t)s, n)) /*@memcpy_src_one_side*/
__CPROVER_requires((uintptr_t)d == g_exp_d && (uintptr_t)s == g_exp_s && n == g_exp_n) /*@memcpy_exact_args*/
__CPROVER_ensures(g_memcpy_calls == __CPROVER_old(g_memcpy_calls) + 1)
__CPROVER_assigns(g_memcpy_calls);
'''
MEMCMP_STUB = '''
int vstd_memcmp(const void *d, const void *s, unsigned long n)
__CPROVER_requires(n == 0 || WHOLLY_IN_SOME((uintptr_t)d, n)) /*@memcmp_dest_wholly_inside*/
__CPROVER_requires(n == 0 || WHOLLY_IN_SOME((uintptr_t)s, n) || WHOLLY_OUT(g_slot, (uintptr_t)s, n)) /*@memcmp_src_one_side*/
__CPROVER_requires((uintptr_t)d == g_exp_d && (uintptr_t)s == g_exp_s && n == g_exp_n) /*@memcmp_exact_args*/
__CPROVER_ensures(g_memcmp_calls == __CPROVER_old(g_memcmp_calls) + 1)
__CPROVER_assigns(g_memcmp_calls);
'''

TCHAR = cs('rlbox::tainted<char *, rlbox::vsbx>')


def memset_inst(numkind, tier):
    param, decl, arg, NUM = NUM_KINDS[numkind]
    P = '((uintptr_t)$1.data)'
    cl = SB_REQ + [
        ('ptr_inv', '__CPROVER_requires(%s == 0 || V_WHICH(%s) != -1)' % (P, P)),
        ('ghost_args', '__CPROVER_requires(g_exp_d == %s && MI(g_exp_n) == %s && g_exp_v == $2 && g_memset_calls == 0)' % (P, NUM)),
        ('noabort_pre', '__CPROVER_requires(g_noabort ==> (%s >= 1 && %s <= MI(V_SIZE[g_slot]) && WHOLLY_IN_SOME(%s, %s)))' % (NUM, NUM, P, NUM)),
        ('performed_once', '__CPROVER_ensures(g_memset_calls == 1)'),
        ('returns_ptr', '__CPROVER_ensures((uintptr_t)$ret.data == %s)' % P),
        ('frame', '__CPROVER_assigns(g_memset_calls)'),
    ]
    h = SB_HARNESS + ('  struct %s p; uintptr_t in_p; p.data = (char *)in_p; int in_v; %s\n'
                      '  g_exp_d = in_p; g_exp_n = in_num; g_exp_v = in_v; g_memset_calls = 0;\n'
                      '  struct %s r = $ROOT(&sb, p, in_v, %s);\n' % (TCHAR, decl, TCHAR, arg))
    return Inst('c10_memset_%s' % numkind, 'rlbox_sandbox<vsbx>& s, tainted<char*, vsbx> p, int v, %s' % param, 'memset(s, p, v, num);',
                cl, h, leaves=['dynamic_check', 'vsbx.impl_get_total_memory', CHECK_RANGE_LEAF], prop=PROP, root_name='memset', tier=tier,
                pre=SPEC + MEMSET_STUB, extra_replace=['vstd_memset'], replay={'kind': 'memset', 'numkind': numkind})


def memcpy_inst(srckind, tier, numkind='plain'):
    """srckind: raw (const char* in application or sandbox memory) | tainted"""
    P = '((uintptr_t)$1.data)'
    if srckind == 'raw':
        sparam, S, sdecl, sarg = 'const char* src', '((uintptr_t)$2)', 'uintptr_t in_s;', '(const char *)in_s'
    else:
        sparam, S, sdecl, sarg = 'tainted<const char*, vsbx> src', '((uintptr_t)$2.data)', 'uintptr_t in_s; struct %s src; src.data = (const char *)in_s;' % cs('rlbox::tainted<const char *, rlbox::vsbx>'), 'src'
    NUM = 'MI($3)'
    nparam, ndecl, narg = 'size_t num', 'unsigned long in_num;', 'in_num'
    if numkind == 'tainted':
        TSZ = cs('rlbox::tainted<unsigned long, rlbox::vsbx>')
        NUM, nparam, ndecl, narg = 'MI($3.data)', 'tainted<size_t, vsbx> num', 'unsigned long in_num; struct %s tn; tn.data = in_num;' % TSZ, 'tn'
    cl = SB_REQ + [
        ('ptr_inv', '__CPROVER_requires(%s == 0 || V_WHICH(%s) != -1)' % (P, P)),
        ('src_inv', '__CPROVER_requires(%s)' % ('%s < 0x8000000000000000UL /* application pointers are canonical user addresses */' % S if srckind == 'raw' else '%s == 0 || V_WHICH(%s) != -1' % (S, S))),
        ('ghost_args', '__CPROVER_requires(g_exp_d == %s && g_exp_s == %s && MI(g_exp_n) == %s && g_memcpy_calls == 0)' % (P, S, NUM)),
        ('noabort_pre', '__CPROVER_requires(g_noabort ==> (%s >= 1 && %s <= MI(V_SIZE[g_slot]) && WHOLLY_IN_SOME(%s, %s) && (WHOLLY_IN_SOME(%s, %s) || (WHOLLY_OUT(0, %s, %s) && WHOLLY_OUT(1, %s, %s)))))' % (NUM, NUM, P, NUM, S, NUM, S, NUM, S, NUM)),
        ('performed_once', '__CPROVER_ensures(g_memcpy_calls == 1)'),
        ('returns_dest', '__CPROVER_ensures((uintptr_t)$ret.data == %s)' % P),
        ('frame', '__CPROVER_assigns(g_memcpy_calls)'),
    ]
    h = SB_HARNESS + ('  struct %s p; uintptr_t in_p; p.data = (char *)in_p; %s %s\n'
                      '  g_exp_d = in_p; g_exp_s = in_s; g_exp_n = in_num; g_memcpy_calls = 0;\n'
                      '  struct %s r = $ROOT(&sb, p, %s, %s);\n' % (TCHAR, sdecl, ndecl, TCHAR, sarg, narg))
    return Inst('c10_memcpy_src_%s%s' % (srckind, '' if numkind == 'plain' else '_tainted_size'), 'rlbox_sandbox<vsbx>& s, tainted<char*, vsbx> p, %s, %s' % (sparam, nparam), 'memcpy(s, p, src, num);',
                cl, h, leaves=['dynamic_check', 'vsbx.impl_get_total_memory', CHECK_RANGE_LEAF], prop=PROP, root_name='memcpy', tier=tier,
                pre=SPEC + MEMCPY_STUB, extra_replace=['vstd_memcpy'], replay={'kind': 'memcpy', 'srckind': srckind})


def memcmp_inst(tier, srckind='raw', numkind='plain'):
    """srckind: raw (const char*) | tainted (tainted<const char*>); numkind: plain size_t | tainted<size_t>"""
    P = '((uintptr_t)((const struct %s *)$1)->data)' % TCHAR
    if srckind == 'raw':
        S, sparam, sdecl, sarg = '((uintptr_t)*$2)', 'const char*& src', 'uintptr_t in_s; const char *src = (const char *)in_s;', '&src'
        src_inv = '%s < 0x8000000000000000UL' % S
    else:
        TCC = cs('rlbox::tainted<const char *, rlbox::vsbx>')
        S, sparam, sdecl, sarg = '((uintptr_t)((const struct %s *)$2)->data)' % TCC, 'tainted<const char*, vsbx>& src', 'uintptr_t in_s; struct %s src; src.data = (const char *)in_s;' % TCC, '&src'
        src_inv = '%s == 0 || V_WHICH(%s) != -1' % (S, S)
    if numkind == 'plain':
        NUM, nparam, ndecl, narg = 'MI(*$3)', 'size_t& num', 'unsigned long in_num;', '&in_num'
    else:
        TSZ = cs('rlbox::tainted<unsigned long, rlbox::vsbx>')
        NUM, nparam, ndecl, narg = 'MI(((const struct %s *)$3)->data)' % TSZ, 'tainted<size_t, vsbx>& num', 'unsigned long in_num; struct %s tn; tn.data = in_num;' % TSZ, '&tn'
    cl = SB_REQ + [
        ('ptr_inv', '__CPROVER_requires(%s == 0 || V_WHICH(%s) != -1)' % (P, P)),
        ('src_inv', '__CPROVER_requires(%s)' % src_inv),
        ('ghost_args', '__CPROVER_requires(g_exp_d == %s && g_exp_s == %s && MI(g_exp_n) == %s && g_memcmp_calls == 0)' % (P, S, NUM)),
        ('noabort_pre', '__CPROVER_requires(g_noabort ==> (%s >= 1 && %s <= MI(V_SIZE[g_slot]) && WHOLLY_IN_SOME(%s, %s) && (WHOLLY_IN_SOME(%s, %s) || (WHOLLY_OUT(0, %s, %s) && WHOLLY_OUT(1, %s, %s)))))' % (NUM, NUM, P, NUM, S, NUM, S, NUM, S, NUM)),
        ('performed_once', '__CPROVER_ensures(g_memcmp_calls == 1)'),
        ('frame', '__CPROVER_assigns(g_memcmp_calls)'),
    ]
    h = SB_HARNESS + ('  struct %s p; uintptr_t in_p; p.data = (char *)in_p; %s %s\n'
                      '  g_exp_d = in_p; g_exp_s = in_s; g_exp_n = in_num; g_memcmp_calls = 0;\n'
                      '  $ROOT(&sb, &p, %s, %s);\n' % (TCHAR, sdecl, ndecl, sarg, narg))
    name = 'c10_memcmp_%s%s' % (srckind, '' if numkind == 'plain' else '_tainted_size')
    return Inst(name, 'rlbox_sandbox<vsbx>& s, tainted<char*, vsbx>& p, %s, %s' % (sparam, nparam), 'memcmp(s, p, src, num);',
                cl, h, leaves=['dynamic_check', 'vsbx.impl_get_total_memory', CHECK_RANGE_LEAF], prop=PROP, root_name='memcmp', tier=tier,
                pre=SPEC + MEMCMP_STUB, extra_replace=['vstd_memcmp'], replay={'kind': 'memcmp'})


def memcmp_volatile_size_inst(tier):
    """the size operand lives in sandbox memory (memcmp takes it by forwarding reference: p->len, *plen): every read of it is an
    adversarial read (--nondet-volatile), so the count compared must be the very value that went through both range checks"""
    TVSZ = cs('rlbox::tainted_volatile<unsigned long, rlbox::vsbx>')
    P = '((uintptr_t)((const struct %s *)$1)->data)' % TCHAR
    S = '((uintptr_t)*$2)'
    stub = '''
int vstd_memcmp(const void *d, const void *s, unsigned long n)
__CPROVER_requires(n == 0 || WHOLLY_IN_SOME((uintptr_t)d, n)) /*@memcmp_dest_wholly_inside*/
__CPROVER_requires(n == 0 || WHOLLY_IN_SOME((uintptr_t)s, n) || WHOLLY_OUT(g_slot, (uintptr_t)s, n)) /*@memcmp_src_one_side*/
__CPROVER_ensures(g_memcmp_calls == __CPROVER_old(g_memcmp_calls) + 1)
__CPROVER_assigns(g_memcmp_calls);
'''
    cl = SB_REQ + [
        ('ptr_inv', '__CPROVER_requires(%s == 0 || V_WHICH(%s) != -1)' % (P, P)),
        ('src_inv', '__CPROVER_requires(%s < 0x8000000000000000UL)' % S),
        ('size_cell', '__CPROVER_requires(__CPROVER_r_ok((const struct %s *)$3, sizeof(struct %s)) && g_memcmp_calls == 0)' % (TVSZ, TVSZ)),
        ('performed_once', '__CPROVER_ensures(g_memcmp_calls == 1)'),
        ('frame', '__CPROVER_assigns(g_memcmp_calls)'),
    ]
    h = SB_HARNESS + ('  struct %s p; uintptr_t in_p; p.data = (char *)in_p; uintptr_t in_s; const char *src = (const char *)in_s;\n'
                      '  struct %s cell; g_memcmp_calls = 0; g_noabort = 0;\n'
                      '  $ROOT(&sb, &p, &src, (void *)&cell);\n' % (TCHAR, TVSZ))
    return Inst('c10_memcmp_size_in_sandbox_memory', 'rlbox_sandbox<vsbx>& s, tainted<char*, vsbx>& p, const char*& src, tainted_volatile<size_t, vsbx>& num', 'memcmp(s, p, src, num);',
                cl, h, leaves=['dynamic_check', 'vsbx.impl_get_total_memory', CHECK_RANGE_LEAF], prop=PROP, root_name='memcmp', tier=tier,
                pre=SPEC + stub, extra_replace=['vstd_memcmp'], opts={'amp_star': True, 'volatile_read_check': True}, nondet_volatile=True,
                note='adversarial-read model: the size cell may change between any two reads; the count compared must itself satisfy the range clauses (stated on the arguments of the comparison, not on what a helper recorded)')


def memcmp_volatile_dest_inst(tier):
    """the destination POINTER lives in sandbox memory (memcmp(s, *pp, ...), memcmp(s, p->buf, ...)): every fetch of the cell is an
    adversarial read, so the address compared must be the very one that went through the range check"""
    TVP = cs('rlbox::tainted_volatile<char *, rlbox::vsbx>')
    S = '((uintptr_t)*$2)'
    NUM = 'MI(*$3)'
    stub = '''
int vstd_memcmp(const void *d, const void *s, unsigned long n)
__CPROVER_requires(n == 0 || WHOLLY_IN_SOME((uintptr_t)d, n)) /*@memcmp_dest_wholly_inside*/
__CPROVER_requires(n == 0 || WHOLLY_IN_SOME((uintptr_t)s, n) || WHOLLY_OUT(g_slot, (uintptr_t)s, n)) /*@memcmp_src_one_side*/
__CPROVER_ensures(g_memcmp_calls == __CPROVER_old(g_memcmp_calls) + 1)
__CPROVER_assigns(g_memcmp_calls);
'''
    cl = SB_REQ + [
        ('dest_cell', '__CPROVER_requires(__CPROVER_r_ok((const struct %s *)$1, sizeof(struct %s)) && V_WHICH((uintptr_t)$1) != -1 && g_expect_example == 0 && g_memcmp_calls == 0)' % (TVP, TVP)),
        ('src_inv', '__CPROVER_requires(%s < 0x8000000000000000UL)' % S),
        ('performed_once', '__CPROVER_ensures(g_memcmp_calls == 1)'),
        ('frame', '__CPROVER_assigns(g_memcmp_calls)'),
    ]
    h = SB_HARNESS + ('  struct %s cell; __CPROVER_assume(V_WHICH((uintptr_t)&cell) != -1); uintptr_t in_s; const char *src = (const char *)in_s; unsigned long in_num;\n'
                      '  g_memcmp_calls = 0; g_noabort = 0; g_expect_example = 0; g_backend_nonnull = 0;\n'
                      '  $ROOT(&sb, (void *)&cell, &src, &in_num);\n' % TVP)
    return Inst('c10_memcmp_dest_pointer_in_sandbox_memory', 'rlbox_sandbox<vsbx>& s, tainted_volatile<char*, vsbx>& p, const char*& src, size_t& num', 'memcmp(s, p, src, num);',
                cl, h, leaves=['dynamic_check', 'vsbx.impl_get_total_memory', CHECK_RANGE_LEAF, 'vsbx.impl_get_unsandboxed_pointer_no_ctx', 'find_sandbox_from_example'], prop=PROP, root_name='memcmp', tier=tier,
                pre=SPEC + stub, pre_defines=OBJVIEW, extra_replace=['vstd_memcmp'], opts={'amp_star': True, 'volatile_read_check': True}, nondet_volatile=True,
                note='adversarial-read model: the pointer cell may change between any two fetches; the address compared must itself satisfy the range clauses')


def memcmp_volatile_src_inst(tier):
    """the SOURCE pointer lives in sandbox memory (memcmp(s, buf, *pp, n)): mirror of the destination instance"""
    TVP = cs('rlbox::tainted_volatile<char *, rlbox::vsbx>')
    stub = '''
int vstd_memcmp(const void *d, const void *s, unsigned long n)
__CPROVER_requires(n == 0 || WHOLLY_IN_SOME((uintptr_t)d, n)) /*@memcmp_dest_wholly_inside*/
__CPROVER_requires(n == 0 || WHOLLY_IN_SOME((uintptr_t)s, n) || WHOLLY_OUT(g_slot, (uintptr_t)s, n)) /*@memcmp_src_one_side*/
__CPROVER_ensures(g_memcmp_calls == __CPROVER_old(g_memcmp_calls) + 1)
__CPROVER_assigns(g_memcmp_calls);
'''
    P = '((uintptr_t)((const struct %s *)$1)->data)' % TCHAR
    cl = SB_REQ + [
        ('ptr_inv', '__CPROVER_requires(%s == 0 || V_WHICH(%s) != -1)' % (P, P)),
        ('src_cell', '__CPROVER_requires(__CPROVER_r_ok((const struct %s *)$2, sizeof(struct %s)) && V_WHICH((uintptr_t)$2) != -1 && g_expect_example == 0 && g_memcmp_calls == 0)' % (TVP, TVP)),
        ('performed_once', '__CPROVER_ensures(g_memcmp_calls == 1)'),
        ('frame', '__CPROVER_assigns(g_memcmp_calls)'),
    ]
    h = SB_HARNESS + ('  struct %s p; uintptr_t in_p; p.data = (char *)in_p; struct %s cell; __CPROVER_assume(V_WHICH((uintptr_t)&cell) != -1); unsigned long in_num;\n'
                      '  g_memcmp_calls = 0; g_noabort = 0; g_expect_example = 0; g_backend_nonnull = 0;\n'
                      '  $ROOT(&sb, &p, (void *)&cell, &in_num);\n' % (TCHAR, TVP))
    return Inst('c10_memcmp_src_pointer_in_sandbox_memory', 'rlbox_sandbox<vsbx>& s, tainted<char*, vsbx>& p, tainted_volatile<char*, vsbx>& src, size_t& num', 'memcmp(s, p, src, num);',
                cl, h, leaves=['dynamic_check', 'vsbx.impl_get_total_memory', CHECK_RANGE_LEAF, 'vsbx.impl_get_unsandboxed_pointer_no_ctx', 'find_sandbox_from_example'], prop=PROP, root_name='memcmp', tier=tier,
                pre=SPEC + stub, pre_defines=OBJVIEW, extra_replace=['vstd_memcmp'], opts={'amp_star': True, 'volatile_read_check': True}, nondet_volatile=True,
                note='adversarial-read model: the source pointer cell may change between any two fetches')


def unverified_ptr_inst(pointee, tier):
    """unverified_safe_pointer_because(count, reason): the raw pointer handed back has `count` whole elements inside"""
    ptr_spelling = pointee + ' *' if not pointee.endswith(')') else pointee
    TT = cs('rlbox::tainted<%s, rlbox::vsbx>' % (pointee + ' *'))
    esz = HOST_SIZE[pointee] if pointee in HOST_SIZE else None
    P = '((uintptr_t)((const struct %s *)$this)->data)' % TT
    BYTES = '(MI($0) * MI(%d))' % esz
    cl = [('wf', '__CPROVER_requires(V_BACKEND_WF)'),
          ('obj', '__CPROVER_requires(__CPROVER_r_ok((const struct %s *)$this, sizeof(struct %s)))' % (TT, TT)),
          ('ptr_inv', '__CPROVER_requires(%s == 0 || V_WHICH(%s) != -1)' % (P, P)),
          ('noabort_pre', '__CPROVER_requires(g_noabort ==> (%s == 0 || ($0 >= 1 && WHOLLY_IN_SOME(%s, %s))))' % (P, P, BYTES)),
          ('returns_ptr', '__CPROVER_ensures((uintptr_t)$ret == %s)' % P),
          ('elements_inside_small', '__CPROVER_ensures(($0 <= 0x10000000UL && (uintptr_t)$ret != 0 && $0 >= 1) ==> WHOLLY_IN_SOME((uintptr_t)$ret, %s))' % BYTES),
          ('elements_inside_huge', '__CPROVER_ensures(($0 > 0x10000000UL && (uintptr_t)$ret != 0) ==> WHOLLY_IN_SOME((uintptr_t)$ret, %s))' % BYTES),
          ('frame', '__CPROVER_assigns()')]
    h = ('  unsigned long in_base0, in_size0, in_base1, in_size1;\n'
         '  V_BASE[0] = in_base0; V_SIZE[0] = in_size0; V_BASE[1] = in_base1; V_SIZE[1] = in_size1;\n'
         '  __CPROVER_assume(V_BACKEND_WF);\n  _Bool in_noabort; g_noabort = in_noabort;\n'
         '  struct %s p; uintptr_t in_p; p.data = (void *)in_p; unsigned long in_count; const char reason[2] = "r";\n'
         '  void *r = (void *)$ROOT((void *)&p, in_count, &reason);\n' % TT)
    return Inst('c10_unverified_safe_pointer_%s' % tid(pointee), 'tainted<%s*, vsbx>& p, size_t count' % pointee, 'p.unverified_safe_pointer_because(count, "r");',
                cl, h, leaves=['dynamic_check', CHECK_RANGE_LEAF], prop=PROP, root_name='unverified_safe_pointer_because', tier=tier, pre=SPEC,
                replay={'kind': 'unverified_ptr', 'pointee': pointee, 'esz': esz})


EXTRA_CPP = '''#include <cstdint>
namespace rlbox { namespace vinst {
struct VAddr { unsigned long operator()(uintptr_t) const; };
}}
'''


def buffer_address_inst(pointee, tier):
    """copy_and_verify_buffer_address(verifier, count): the address handed to the verifier has `count` whole elements inside one sandbox"""
    TT = cs('rlbox::tainted<%s, rlbox::vsbx>' % (pointee + ' *'))
    esz = HOST_SIZE[pointee]
    P = '((uintptr_t)((const struct %s *)$this)->data)' % TT
    BYTES = '(MI($1) * MI(%d))' % esz
    stub = ('unsigned long verifier_stub(unsigned long addr)\n'
            '__CPROVER_requires(addr == 0 ? g_exp_s == 0 : (addr == g_exp_s && WHOLLY_IN_SOME(addr, MI(g_exp_n) * MI(%d)))) /*@address_has_count_whole_elements_inside_one_sandbox*/\n'
            '__CPROVER_ensures(g_vcalls == __CPROVER_old(g_vcalls) + 1 && __CPROVER_return_value == addr)\n__CPROVER_assigns(g_vcalls);\n' % esz)
    cl = [('wf', '__CPROVER_requires(V_BACKEND_WF && g_vcalls == 0)'),
          ('obj', '__CPROVER_requires(__CPROVER_r_ok((const struct %s *)$this, sizeof(struct %s)))' % (TT, TT)),
          ('ptr_inv', '__CPROVER_requires(%s == 0 || V_WHICH(%s) != -1)' % (P, P)),
          ('ghost', '__CPROVER_requires(g_exp_s == %s && g_exp_n == $1)' % P),
          ('noabort_pre', '__CPROVER_requires(g_noabort ==> ($1 >= 1 && (%s == 0 || WHOLLY_IN_SOME(%s, %s))))' % (P, P, BYTES)),
          ('verifier_runs_once', '__CPROVER_ensures(g_vcalls == 1 && $ret == %s)' % P),
          ('frame', '__CPROVER_assigns(g_vcalls)')]
    h = ('  unsigned long in_base0, in_size0, in_base1, in_size1;\n'
         '  V_BASE[0] = in_base0; V_SIZE[0] = in_size0; V_BASE[1] = in_base1; V_SIZE[1] = in_size1;\n'
         '  __CPROVER_assume(V_BACKEND_WF);\n  _Bool in_noabort; g_noabort = in_noabort; g_vcalls = 0;\n'
         '  struct %s p; uintptr_t in_p; p.data = (void *)in_p; unsigned long in_count; g_exp_s = in_p; g_exp_n = in_count; struct S_VAddr vf;\n'
         '  unsigned long r = $ROOT((void *)&p, vf, in_count);\n' % TT)
    return Inst('c10_buffer_address_%s' % tid(pointee), 'tainted<%s*, vsbx>& p, VAddr verifier, size_t count' % pointee, 'p.copy_and_verify_buffer_address(verifier, count);',
                cl, h, leaves=['dynamic_check', CHECK_RANGE_LEAF], prop=PROP, root_name='copy_and_verify_buffer_address', tier=tier, pre=SPEC + ' unsigned g_vcalls;\n',
                post_protos=stub, opts={'param_fn_stubs': {'*': 'verifier_stub'}}, extra_replace=['verifier_stub'],
                replay={'kind': 'buffer_address', 'pointee': pointee, 'esz': esz})


DENY_SPEC = SPEC + ''' unsigned g_mallocs, g_frees, g_app_frees; unsigned long g_malloc_bytes, g_malloc_ret, g_freed_ptr; _Bool g_malloc_fails;
void *vstd_malloc(unsigned long n)
__CPROVER_ensures((uintptr_t)__CPROVER_return_value == (g_malloc_fails ? 0UL : g_malloc_ret) && g_malloc_bytes == n && g_mallocs == __CPROVER_old(g_mallocs) + 1)
__CPROVER_assigns(g_malloc_bytes, g_mallocs);
void vstd_free(void *p)
__CPROVER_requires((uintptr_t)p == g_malloc_ret && g_mallocs == 1 && !g_malloc_fails) /*@only_the_buffer_allocated_here_is_freed*/
__CPROVER_ensures(g_app_frees == __CPROVER_old(g_app_frees) + 1)
__CPROVER_assigns(g_app_frees);
void *vstd_memcpy(void *d, const void *s, unsigned long n)
__CPROVER_requires((uintptr_t)d != 0 && (uintptr_t)d == g_malloc_ret && g_mallocs == 1 && n == g_malloc_bytes) /*@copy_destination_is_the_allocated_buffer_and_fits_it*/
__CPROVER_requires((uintptr_t)s != 0) /*@null_source_never_proceeds*/
__CPROVER_requires((uintptr_t)s == g_exp_s && (n >= 1 ==> WHOLLY_IN_SOME((uintptr_t)s, n))) /*@copy_source_wholly_inside_one_sandbox*/
__CPROVER_requires(MI(n) == MI(g_exp_n) * MI(g_exp_esz)) /*@copies_exactly_num_elements*/
__CPROVER_ensures(g_memcpy_calls == __CPROVER_old(g_memcpy_calls) + 1)
__CPROVER_assigns(g_memcpy_calls);
'''


def deny_access_inst(el, esz, tier):
    """copy_memory_or_deny_access on a backend that cannot revoke access: copy path (rlbox_stdlib.hpp:294-342)"""
    TT = cs('rlbox::tainted<%s *, rlbox::vsbx>' % el)
    P = '((uintptr_t)$1.data)'
    BYTES = '(MI($2) * MI(%d))' % esz
    free_leaf = ('rlbox_sandbox::free_in_sandbox(contract, C04)', lambda fn, rec: fn.get('name') == 'free_in_sandbox',
                 '__CPROVER_ensures(g_frees == __CPROVER_old(g_frees) + 1 && g_freed_ptr == (uintptr_t)$0.data)\n__CPROVER_assigns(g_frees, g_freed_ptr)')
    cl = SB_REQ + [
        ('ptr_inv', '__CPROVER_requires(%s == 0 || V_WHICH(%s) != -1)' % (P, P)),
        ('ghost', '__CPROVER_requires(g_exp_s == %s && g_exp_n == $2 && g_mallocs == 0 && g_memcpy_calls == 0 && g_frees == 0 && g_app_frees == 0 && __CPROVER_w_ok($4, 1))' % P),
        ('malloc_result_is_application_memory', '__CPROVER_requires(g_malloc_ret >= (1UL << 47) && g_malloc_ret < (1UL << 62))'),
        ('noabort_pre', '__CPROVER_requires(g_noabort ==> ($2 >= 1 && %s < (MI(1) << 64) && WHOLLY_IN_SOME(%s, %s)))' % (BYTES, P, BYTES)),
        ('copied_buffer_returned', '__CPROVER_ensures((uintptr_t)$ret != 0 ==> ((uintptr_t)$ret == g_malloc_ret && g_memcpy_calls == 1 && *$4 == 1 && MI(g_malloc_bytes) == %s))' % BYTES),
        ('source_freed_only_on_request', '__CPROVER_ensures(g_frees == (((uintptr_t)$ret != 0 && $3) ? 1 : 0) && (g_frees == 1 ==> g_freed_ptr == %s))' % P),
        ('failure_copies_nothing', '__CPROVER_ensures((uintptr_t)$ret == 0 ==> (g_memcpy_calls == 0 && *$4 == 0))'),
        ('buffer_released_iff_not_returned', '__CPROVER_ensures(g_app_frees == (((uintptr_t)$ret == 0 && !g_malloc_fails) ? 1 : 0))'),
        ('null_source_is_refused', '__CPROVER_ensures(%s == 0 ==> (uintptr_t)$ret == 0)' % P),
        ('frame', '__CPROVER_assigns(g_mallocs, g_malloc_bytes, g_memcpy_calls, g_frees, g_freed_ptr, g_app_frees, *$4)'),
    ]
    h = SB_HARNESS + ('  struct %s src; uintptr_t in_p; src.data = (%s *)in_p; unsigned long in_num; _Bool in_free; _Bool copied; _Bool in_mfail; unsigned long in_mret;\n'
                      '  g_exp_s = in_p; g_exp_n = in_num; g_exp_esz = %d; g_mallocs = 0; g_memcpy_calls = 0; g_frees = 0; g_app_frees = 0; g_malloc_fails = in_mfail; g_malloc_ret = in_mret;\n'
                      '  void *r = (void *)$ROOT(&sb, src, in_num, in_free, &copied);\n' % (TT, {'char16_t': 'unsigned short'}.get(el, el), esz))
    return Inst('c10_copy_memory_or_deny_access_%s' % tid(el), 'rlbox_sandbox<vsbx>& s, tainted<%s*, vsbx> src, size_t num, bool fr, bool& copied' % el,
                'copy_memory_or_deny_access(s, src, num, fr, copied);', cl, h, leaves=['dynamic_check', CHECK_RANGE_LEAF, free_leaf], prop=PROP,
                root_name='copy_memory_or_deny_access', tier=tier, pre=DENY_SPEC.replace('int g_slot;', 'int g_slot; unsigned long g_exp_esz;'),
                extra_replace=['vstd_memcpy', 'vstd_malloc', 'vstd_free'], replay={'kind': 'deny_access', 'el': el, 'esz': esz, 'no_inputs': True})


GRANT_SPEC = SPEC + ''' unsigned g_sbx_mallocs, g_rl_memcpys, g_app_frees; unsigned long g_sbx_malloc_ret, g_cp_d, g_cp_s, g_cp_n, g_exp_esz; unsigned int g_sbx_malloc_count; _Bool g_malloc_fails;
void vstd_free(void *p)
__CPROVER_requires((uintptr_t)p == g_exp_s && g_rl_memcpys == 1) /*@only_the_copied_source_is_freed_and_only_after_the_copy*/
__CPROVER_ensures(g_app_frees == __CPROVER_old(g_app_frees) + 1)
__CPROVER_assigns(g_app_frees);
'''


def grant_access_inst(el, esz, tier):
    """copy_memory_or_grant_access on a backend that cannot grant access: copy path (rlbox_stdlib.hpp:232-282), over the
    contracts of malloc_in_sandbox (C14/C03) and rlbox::memcpy (this property)"""
    cel = {'char16_t': 'unsigned short'}.get(el, el)
    TT = cs('rlbox::tainted<%s *, rlbox::vsbx>' % el)
    # the allocation is made for the ELEMENT TYPE that is copied (count elements of it): the contract leaf is the instantiation
    # malloc_in_sandbox<el>; any other instantiation (e.g. <char> with an element count) meets requires(0)
    mcode = {'char': 'c', 'char16_t': 'Ds', 'int': 'i', 'long': 'l', 'double': 'd', 'short': 's'}[el]
    malloc_leaf = ('rlbox_sandbox::malloc_in_sandbox<%s>(contract)' % el, lambda fn, rec: fn.get('name') == 'malloc_in_sandbox' and ('malloc_in_sandboxI%sE' % mcode) in fn.get('mangledName', ''),
                   '__CPROVER_ensures((uintptr_t)$ret.data == (g_malloc_fails ? 0UL : g_sbx_malloc_ret) && g_sbx_malloc_count == $0 && g_sbx_mallocs == __CPROVER_old(g_sbx_mallocs) + 1)\n'
                   '__CPROVER_assigns(g_sbx_malloc_count, g_sbx_mallocs)')
    malloc_other = ('rlbox_sandbox::malloc_in_sandbox(another element type)', lambda fn, rec: fn.get('name') == 'malloc_in_sandbox',
                    '__CPROVER_requires(0) /*@the_allocation_is_made_for_the_element_type_that_is_copied*/\n__CPROVER_ensures(1)\n__CPROVER_assigns()')
    memcpy_leaf = ('rlbox::memcpy(contract, this property)', lambda fn, rec: fn.get('name') == 'memcpy',
                   '__CPROVER_ensures(g_rl_memcpys == __CPROVER_old(g_rl_memcpys) + 1 && g_cp_d == (uintptr_t)$1.data && g_cp_s == (uintptr_t)$2 && g_cp_n == $3)\n'
                   '__CPROVER_assigns(g_rl_memcpys, g_cp_d, g_cp_s, g_cp_n)')
    BYTES = '(MI($2) * MI(%d))' % esz
    cl = SB_REQ + [
        ('ghost', '__CPROVER_requires(g_exp_s == (uintptr_t)$1 && g_sbx_mallocs == 0 && g_rl_memcpys == 0 && g_app_frees == 0 && __CPROVER_w_ok($4, 1) && g_sbx_malloc_ret != 0)'),
        ('noabort_pre', '__CPROVER_requires(g_noabort ==> ($2 <= 0xffffffffUL))'),
        ('allocates_num_elements', '__CPROVER_ensures(g_sbx_mallocs == 1 && MI(g_sbx_malloc_count) == MI($2))'),
        ('copies_exactly_the_source_into_the_allocation', '__CPROVER_ensures((uintptr_t)$ret.data != 0 ==> ((uintptr_t)$ret.data == g_sbx_malloc_ret && g_rl_memcpys == 1 && g_cp_d == g_sbx_malloc_ret && g_cp_s == (uintptr_t)$1 && MI(g_cp_n) == %s && *$4 == 1))' % BYTES),
        ('failure_copies_nothing', '__CPROVER_ensures((uintptr_t)$ret.data == 0 ==> (g_rl_memcpys == 0 && *$4 == 0 && g_app_frees == 0))'),
        ('source_freed_only_on_request', '__CPROVER_ensures(g_app_frees == (((uintptr_t)$ret.data != 0 && $3) ? 1 : 0))'),
        ('frame', '__CPROVER_assigns(g_sbx_mallocs, g_sbx_malloc_count, g_rl_memcpys, g_cp_d, g_cp_s, g_cp_n, g_app_frees, *$4)'),
    ]
    h = SB_HARNESS + ('  uintptr_t in_s; unsigned long in_num; _Bool in_free; _Bool copied; _Bool in_mfail; unsigned long in_mret; __CPROVER_assume(in_mret != 0);\n'
                      '  g_exp_s = in_s; g_exp_n = in_num; g_exp_esz = %d; g_sbx_mallocs = 0; g_rl_memcpys = 0; g_app_frees = 0; g_malloc_fails = in_mfail; g_sbx_malloc_ret = in_mret;\n'
                      '  struct %s r = $ROOT(&sb, (%s *)in_s, in_num, in_free, &copied);\n' % (esz, TT, cel))
    return Inst('c10_copy_memory_or_grant_access_%s' % tid(el), 'rlbox_sandbox<vsbx>& s, %s* src, size_t num, bool fr, bool& copied' % el,
                'copy_memory_or_grant_access(s, src, num, fr, copied);', cl, h, leaves=['dynamic_check', malloc_leaf, malloc_other, memcpy_leaf], prop=PROP,
                root_name='copy_memory_or_grant_access', tier=tier, pre=GRANT_SPEC, extra_replace=['vstd_free'])


def native_access_inst(which, el, esz, tier):
    """native path of copy_memory_or_grant/deny_access on a backend with can_grant_deny_access: what INTERNAL_grant_access /
    INTERNAL_deny_access is handed is a range of num whole elements that does not straddle the sandbox boundary (deny: lies
    wholly inside one sandbox).  The backend call itself is a stub that succeeds."""
    SBG = cs('rlbox::rlbox_sandbox<rlbox::vsbx_gd>')
    cel = {'char16_t': 'unsigned short'}.get(el, el)
    BYTES = '(MI($1) * MI(%d))' % esz
    # the stub stands for the BACKEND's operation (impl_grant_access / impl_deny_access of vsbx_gd); the core wrappers
    # INTERNAL_grant_access / INTERNAL_deny_access are verified inline: they pass the start and the ELEMENT count on unchanged and
    # hand back what the backend returned (g_backend_ret: an arbitrary address, e.g. where the backend re-homed the buffer)
    A = '((uintptr_t)$0)'
    if which == 'grant':
        leaf = ('vsbx_gd.impl_grant_access(stub: succeeds)', lambda fn, rec: fn.get('name') == 'impl_grant_access',
                '__CPROVER_requires(%s != 0 && %s < (MI(1) << 64) && V_WHICH(%s) == V_WHICH(%s + $1 * %dUL - 1)) /*@granted_range_has_num_whole_elements_on_one_side_of_the_boundary*/\n'
                '__CPROVER_requires($1 == g_exp_num && %s == g_exp_start) /*@backend_is_handed_the_start_and_the_element_count_given*/\n'
                '__CPROVER_ensures(*$2 == 1 && (uintptr_t)$ret == g_backend_ret && g_native_calls == __CPROVER_old(g_native_calls) + 1)\n__CPROVER_assigns(*$2, g_native_calls)' % (A, BYTES, A, A, esz, A))
        TT = cs('rlbox::tainted<%s *, rlbox::vsbx_gd>' % el)
        params, expr, rn = 'rlbox_sandbox<vsbx_gd>& s, %s* src, size_t num, bool fr, bool& copied' % el, 'copy_memory_or_grant_access(s, src, num, fr, copied);', 'copy_memory_or_grant_access'
        decl = '  uintptr_t in_s; unsigned long in_num; _Bool in_free; _Bool copied; g_exp_num = in_num; g_exp_start = in_s;\n  struct %s r = $ROOT(&sb, (%s *)in_s, in_num, in_free, &copied);\n' % (TT, cel)
        post = [('moved_not_copied_and_the_backends_address_is_handed_back', '__CPROVER_ensures(g_native_calls == 1 && *$4 == 0 && (uintptr_t)$ret.data == g_backend_ret)')]
    else:
        TT = cs('rlbox::tainted<%s *, rlbox::vsbx_gd>' % el)
        leaf = ('vsbx_gd.impl_deny_access(stub: succeeds)', lambda fn, rec: fn.get('name') == 'impl_deny_access',
                '__CPROVER_requires(%s < (MI(1) << 64) && WHOLLY_IN_SOME(%s, %s)) /*@denied_range_has_num_whole_elements_inside_one_sandbox*/\n'
                '__CPROVER_requires($1 == g_exp_num && %s == g_exp_start) /*@backend_is_handed_the_start_and_the_element_count_given*/\n'
                '__CPROVER_ensures(*$2 == 1 && (uintptr_t)$ret == g_backend_ret && g_native_calls == __CPROVER_old(g_native_calls) + 1)\n__CPROVER_assigns(*$2, g_native_calls)' % (BYTES, A, BYTES, A))
        params, expr, rn = 'rlbox_sandbox<vsbx_gd>& s, tainted<%s*, vsbx_gd> src, size_t num, bool fr, bool& copied' % el, 'copy_memory_or_deny_access(s, src, num, fr, copied);', 'copy_memory_or_deny_access'
        decl = ('  struct %s src; uintptr_t in_p; src.data = (%s *)in_p; __CPROVER_assume(in_p == 0 || V_WHICH(in_p) != -1); unsigned long in_num; _Bool in_free; _Bool copied; g_exp_num = in_num; g_exp_start = in_p;\n'
                '  void *r = (void *)$ROOT(&sb, src, in_num, in_free, &copied);\n' % (TT, cel))
        post = [('moved_not_copied_and_the_backends_address_is_handed_back', '__CPROVER_ensures(g_native_calls == 1 && *$4 == 0 && (uintptr_t)$ret == g_backend_ret)')]
    cl = [('wf', '__CPROVER_requires(V_BACKEND_WF && g_native_calls == 0 && __CPROVER_w_ok($4, 1))'),
          ('sandbox_obj', '__CPROVER_requires(__CPROVER_r_ok($0, sizeof(struct %s)) && ($0->base0.base0.slot == 0 || $0->base0.base0.slot == 1) && V_LIVE($0->base0.base0.slot))' % SBG)] + post + [
          ('frame', '__CPROVER_assigns(g_native_calls, *$4)')]
    h = ('  struct %s sb; int in_slot; sb.base0.base0.slot = in_slot; unsigned long in_base0, in_size0, in_base1, in_size1;\n'
         '  V_BASE[0] = in_base0; V_SIZE[0] = in_size0; V_BASE[1] = in_base1; V_SIZE[1] = in_size1;\n'
         '  __CPROVER_assume(V_BACKEND_WF && (in_slot == 0 || in_slot == 1) && V_LIVE(in_slot)); g_noabort = 0; g_native_calls = 0; unsigned long in_backend_ret; g_backend_ret = in_backend_ret;\n' % SBG) + decl
    return Inst('c10_%s_access_native_%s' % (which, tid(el)), params, expr, cl, h, leaves=['dynamic_check', CHECK_RANGE_LEAF, leaf], prop=PROP, root_name=rn, tier=tier,
                pre=SPEC + ' unsigned g_native_calls; unsigned long g_exp_num, g_exp_start, g_backend_ret;\n', solvers=('cadical', 'minisat'), timeout=400, note='backend with can_grant_deny_access (vsbx_gd); the backend move itself is a stub that reports success and returns an arbitrary address; the core wrappers INTERNAL_grant_access / INTERNAL_deny_access are verified inline')


def units(tier):
    insts = [check_range_inst(tier), memset_inst('plain', tier), memset_inst('tainted', tier), memcpy_inst('raw', tier),
             memcpy_inst('tainted', tier), memcmp_inst(tier), memcmp_inst(tier, 'tainted'), memcmp_inst(tier, 'raw', 'tainted'), memcpy_inst('raw', tier, 'tainted'), memcmp_volatile_size_inst(tier), memcmp_volatile_dest_inst(tier), memcmp_volatile_src_inst(tier)]
    for pt in (['int', 'char', 'long'] if tier == 'quick' else ['int', 'char', 'long', 'short', 'double', 'long long', 'unsigned char']):
        insts.append(unverified_ptr_inst(pt, tier))
    for pt in (['char', 'long'] if tier == 'quick' else ['int', 'char', 'long', 'short', 'double']):
        insts.append(buffer_address_inst(pt, tier))
    insts += [deny_access_inst('char', 1, tier), deny_access_inst('char16_t', 2, tier), grant_access_inst('char', 1, tier), grant_access_inst('char16_t', 2, tier),
              native_access_inst('grant', 'char16_t', 2, tier), native_access_inst('deny', 'char16_t', 2, tier), native_access_inst('deny', 'char', 1, tier)]
    return [Unit('C10_bulk', insts, extra_cpp=EXTRA_CPP)]


ASSUMPTIONS = [
    'A_backend for vsbx (DESIGN.md 4.1) incl. impl_get_total_memory(k) == size_k; regions in [4096, 2^47), <= 4 GiB, disjoint',
    'libc memset/memcpy/memcmp touch exactly [d,d+n) / [s,s+n): they are stubs; the obligations are on the arguments RLBox passes (numeric view: nothing is dereferenced)',
    'the tainted pointer operands satisfy the C03 invariant (null or inside some live sandbox region)',
]
TRUSTED = ['numeric memory view: addresses are integers; "touches only those bytes" is the call-site precondition of the libc stub']
MANIFEST = {
    'level_text': 'For each bulk operation the instantiated body is proved, for all start addresses, extents up to 2^64 and every well-formed two-region address space, to either abort or call the libc routine exactly once with exactly the given ranges, each sandbox-side range lying wholly inside one region and each application-side range wholly outside the sandbox (call-site preconditions of the libc stubs), and not to abort for a non-empty valid request. The range checker is verified against its own contract and callers only see that contract. Loop-free: complete.',
    'level_note': 'Numeric view: libc routines are contract stubs. copy_and_verify_range/string are decided under C09 (object view). copy_memory_or_grant_access is proved over the contracts of malloc_in_sandbox and rlbox::memcpy; copy_memory_or_deny_access over malloc/memcpy/free stubs for a backend that cannot revoke access (copy path). On a backend that can grant / revoke access the core wrappers INTERNAL_grant_access / INTERNAL_deny_access are verified inline against a stub of the backend operation (exact start, element count, returned address). memcmp is also proved with its size operand and with its destination pointer in sandbox memory (adversarial reads).',
}
