"""C04 - pointer representation conversion is faithful, null-preserving and per-sandbox.
Functions under contract: the four translation entry points (rlbox_sandbox.hpp:452-500), convert_type_non_class for
each Direction x Context reached through its public callers (rlbox_conversion.hpp:156-233; rlbox.hpp:904-915,
959-975, 1141-1156, 1191-1236), arrays of pointers (loop), find_sandbox_from_example (rlbox_sandbox.hpp:324-339),
free_in_sandbox (580-589), and the round-trip lemmas over those contracts."""
from vlib.unit import Unit, Inst, find_func
from .common import cs, PRE_GHOST
from . import C03
from .C03 import REGIONS, SB_DECL, sb_req, SB, OBJVIEW, _is_named

PROP = 'C04'
TITLE = 'Pointer representation conversion is faithful, null-preserving and per-sandbox'
FUNCTIONS = ['rlbox_sandbox::get_unsandboxed_pointer, get_sandboxed_pointer, get_unsandboxed_pointer_no_ctx, get_sandboxed_pointer_no_ctx (rlbox_sandbox.hpp:452-500)',
             'detail::convert_type_non_class pointer branches (rlbox_conversion.hpp:156-233) via tainted(const tainted_volatile&), tainted_volatile::operator=, tainted::get_raw_sandbox_value',
             'rlbox_sandbox::find_sandbox_from_example (rlbox_sandbox.hpp:324-339)', 'rlbox_sandbox::free_in_sandbox (rlbox_sandbox.hpp:580-589)']

SANDBOX_CTX_CL = sb_req('$this') + [
    ('null_maps_to_zero', '__CPROVER_ensures((uintptr_t)$0 == 0 ==> $ret == 0)'),
    ('faithful', '__CPROVER_ensures(((uintptr_t)$0 != 0 && V_IN($this->base0.slot, (uintptr_t)$0)) ==> MI($ret) == MI((uintptr_t)$0) - MI(V_BASE[$this->base0.slot]))'),
    ('frame', '__CPROVER_assigns()'),
]
SANDBOX_NOCTX_CL = [
    ('wf', '__CPROVER_requires(V_BACKEND_WF)'),
    ('example_in_sandbox', '__CPROVER_requires((uintptr_t)$0 == 0 || V_WHICH((uintptr_t)$1) != -1)'),
    ('null_maps_to_zero', '__CPROVER_ensures((uintptr_t)$0 == 0 ==> $ret == 0)'),
    ('faithful_relative_to_example', '__CPROVER_ensures(((uintptr_t)$0 != 0 && V_IN(V_WHICH((uintptr_t)$1), (uintptr_t)$0)) ==> MI($ret) == MI((uintptr_t)$0) - MI(V_BASE[V_WHICH((uintptr_t)$1)]))'),
    ('frame', '__CPROVER_assigns()'),
]
S_CTX_LEAF = ('get_sandboxed_pointer(contract)', _is_named('get_sandboxed_pointer'), SANDBOX_CTX_CL)
S_NOCTX_LEAF = ('get_sandboxed_pointer_no_ctx(contract)', _is_named('get_sandboxed_pointer_no_ctx'), SANDBOX_NOCTX_CL)
U_CTX_LEAF = C03.CTX_LEAF
U_NOCTX_LEAF = C03.NOCTX_LEAF


def entry_points(tier):
    a = C03.unsandbox_ctx(tier)
    a.name = 'c04_get_unsandboxed_pointer'
    b = C03.unsandbox_noctx(tier)
    b.name = 'c04_get_unsandboxed_pointer_no_ctx'
    h = REGIONS + SB_DECL + '  uintptr_t in_p;\n  unsigned int r = $ROOT(&sb, (const void *)in_p);\n'
    c = Inst('c04_get_sandboxed_pointer', 'rlbox_sandbox<vsbx>& s, const void* p', 's.get_sandboxed_pointer<int*>(p);', SANDBOX_CTX_CL, h,
             leaves=['vsbx.impl_get_sandboxed_pointer'], prop=PROP, root_name='get_sandboxed_pointer', tier=tier, pre=PRE_GHOST)
    h = REGIONS + '  uintptr_t in_p, in_example;\n  unsigned int r = $ROOT((const void *)in_p, (const void *)in_example);\n'
    d = Inst('c04_get_sandboxed_pointer_no_ctx', 'const void* p, const void* ex', 'rlbox_sandbox<vsbx>::get_sandboxed_pointer_no_ctx<int*>(p, ex);', SANDBOX_NOCTX_CL, h,
             leaves=['vsbx.impl_get_sandboxed_pointer_no_ctx', 'find_sandbox_from_example'], prop=PROP, root_name='get_sandboxed_pointer_no_ctx', tier=tier, pre=PRE_GHOST)
    for it in (a, b):
        it.prop = PROP
    return [a, b, c, d]


def self_root(tu, fn):
    return fn


def lemmas(tier):
    """round trips over the entry-point contracts (clients written here; the callees are replaced by their contracts)"""
    out = []
    cl = sb_req('$0') + [
        ('addr_roundtrip', '__CPROVER_ensures((V_IN($0->base0.slot, (uintptr_t)$1) && (uintptr_t)$1 != V_BASE[$0->base0.slot]) ==> (uintptr_t)$ret == (uintptr_t)$1)'),
        ('null_roundtrip', '__CPROVER_ensures((uintptr_t)$1 == 0 ==> (uintptr_t)$ret == 0)'),
        ('frame', '__CPROVER_assigns()')]
    h = REGIONS + SB_DECL + '  uintptr_t in_p;\n  void *r = (void *)$ROOT(&sb, (const void *)in_p);\n'
    out.append(Inst('c04_lemma_addr_roundtrip_ctx', 'rlbox_sandbox<vsbx>& s, const void* p', 'return s.get_unsandboxed_pointer<int*>(s.get_sandboxed_pointer<int*>(p));',
                    cl, h, leaves=[S_CTX_LEAF, U_CTX_LEAF], prop=PROP, tier=tier, pre=PRE_GHOST, ret='int*', root_pick=self_root,
                    note='lemma over the two context entry-point contracts; offset 0 of a region is the guest null and is excluded'))
    cl = sb_req('$0') + [
        ('repr_roundtrip', '__CPROVER_ensures(($1 != 0 && (uintptr_t)$1 < V_SIZE[$0->base0.slot]) ==> $ret == $1)'),
        ('zero_roundtrip', '__CPROVER_ensures($1 == 0 ==> $ret == 0)'),
        ('frame', '__CPROVER_assigns()')]
    h = REGIONS + SB_DECL + '  unsigned int in_r;\n  unsigned int r = $ROOT(&sb, in_r);\n'
    out.append(Inst('c04_lemma_repr_roundtrip_ctx', 'rlbox_sandbox<vsbx>& s, uint32_t r', 'return s.get_sandboxed_pointer<int*>(s.get_unsandboxed_pointer<int*>(r));',
                    cl, h, leaves=[S_CTX_LEAF, U_CTX_LEAF], prop=PROP, tier=tier, pre=PRE_GHOST, ret='uint32_t', root_pick=self_root))
    cl = [('wf', '__CPROVER_requires(V_BACKEND_WF)'), ('example_in_sandbox', '__CPROVER_requires(V_WHICH((uintptr_t)$1) != -1)'),
          ('addr_roundtrip', '__CPROVER_ensures((V_IN(V_WHICH((uintptr_t)$1), (uintptr_t)$0) && (uintptr_t)$0 != V_BASE[V_WHICH((uintptr_t)$1)]) ==> (uintptr_t)$ret == (uintptr_t)$0)'),
          ('null_roundtrip', '__CPROVER_ensures((uintptr_t)$0 == 0 ==> (uintptr_t)$ret == 0)'),
          ('frame', '__CPROVER_assigns()')]
    h = REGIONS + '  uintptr_t in_p, in_example;\n  void *r = (void *)$ROOT((const void *)in_p, (const void *)in_example);\n'
    out.append(Inst('c04_lemma_addr_roundtrip_no_ctx', 'const void* p, const void* ex',
                    'return rlbox_sandbox<vsbx>::get_unsandboxed_pointer_no_ctx<int*>(rlbox_sandbox<vsbx>::get_sandboxed_pointer_no_ctx<int*>(p, ex), ex);',
                    cl, h, leaves=[S_NOCTX_LEAF, U_NOCTX_LEAF], prop=PROP, tier=tier, pre=PRE_GHOST, ret='int*', root_pick=self_root))
    cl = [('wf', '__CPROVER_requires(V_BACKEND_WF)'), ('example_in_sandbox', '__CPROVER_requires(V_WHICH((uintptr_t)$1) != -1)'),
          ('repr_roundtrip', '__CPROVER_ensures(($0 != 0 && (uintptr_t)$0 < V_SIZE[V_WHICH((uintptr_t)$1)]) ==> $ret == $0)'),
          ('zero_roundtrip', '__CPROVER_ensures($0 == 0 ==> $ret == 0)'),
          ('frame', '__CPROVER_assigns()')]
    h = REGIONS + '  unsigned int in_r; uintptr_t in_example;\n  unsigned int r = $ROOT(in_r, (const void *)in_example);\n'
    out.append(Inst('c04_lemma_repr_roundtrip_no_ctx', 'uint32_t r, const void* ex',
                    'return rlbox_sandbox<vsbx>::get_sandboxed_pointer_no_ctx<int*>(rlbox_sandbox<vsbx>::get_unsandboxed_pointer_no_ctx<int*>(r, ex), ex);',
                    cl, h, leaves=[S_NOCTX_LEAF, U_NOCTX_LEAF], prop=PROP, tier=tier, pre=PRE_GHOST, ret='uint32_t', root_pick=self_root))
    return out


def cell_ops(tier):
    """loads and stores of pointer cells: null-preserving, relative to the sandbox of the CELL (example == &cell)"""
    out = []
    TV = cs('rlbox::tainted_volatile<int *, rlbox::vsbx>')
    TT = cs('rlbox::tainted<int *, rlbox::vsbx>')
    CELLH = REGIONS + '  struct %s cell; unsigned int in_repr = cell.data;\n  __CPROVER_assume(V_WHICH((uintptr_t)&cell) != -1);\n  g_expect_example = (uintptr_t)&cell;\n' % TV
    W = 'V_WHICH((uintptr_t)%s)'
    # load: tainted<int*> t = tv   (TO_APPLICATION, EXAMPLE)
    cell = '$0'
    cl = [('wf', '__CPROVER_requires(V_BACKEND_WF)'),
          ('cell_obj', '__CPROVER_requires(__CPROVER_r_ok(%s, sizeof(struct %s)) && V_WHICH((uintptr_t)%s) != -1 && g_expect_example == (uintptr_t)%s)' % (cell, TV, cell, cell)),
          ('zero_loads_null', '__CPROVER_ensures(%s->data == 0 ==> (uintptr_t)$ret.data == 0)' % cell),
          ('nonzero_loads_nonnull', '__CPROVER_ensures(%s->data != 0 ==> (uintptr_t)$ret.data != 0)' % cell),
          ('relative_to_cells_sandbox', '__CPROVER_ensures((%s->data != 0 && (uintptr_t)%s->data < V_SIZE[%s]) ==> (uintptr_t)$ret.data == V_BASE[%s] + (uintptr_t)%s->data)' % (cell, cell, W % cell, W % cell, cell)),
          ('frame', '__CPROVER_assigns()')]
    pick = lambda tu, fn: find_func(tu, 'tainted', 'rlbox::tainted<int *, rlbox::vsbx>', lambda f, rn: 'tainted_volatile' in f['type']['qualType'])
    out.append(Inst('c04_load_ptr_cell', 'tainted_volatile<int*, vsbx>& tv', 'tainted<int*, vsbx> t = tv;', cl, CELLH + '  struct %s r = $ROOT(&cell);\n' % TT,
                    leaves=['dynamic_check', U_NOCTX_LEAF, 'vsbx.impl_get_unsandboxed_pointer_no_ctx', 'find_sandbox_from_example'], prop=PROP, root_name='tainted', tier=tier,
                    pre=PRE_GHOST, pre_defines=OBJVIEW, root_pick=pick,
                    note='get_unsandboxed_pointer_no_ctx is verified inline here so that the example handed to the BACKEND is checked (g_expect_example == &cell)'))
    # store: tv = t   (TO_SANDBOX, EXAMPLE)
    cl = [('wf', '__CPROVER_requires(V_BACKEND_WF)'),
          ('cell_obj', '__CPROVER_requires(__CPROVER_rw_ok($this, sizeof(struct %s)) && V_WHICH((uintptr_t)$this) != -1 && g_expect_example == (uintptr_t)$this)' % TV),
          ('val_obj', '__CPROVER_requires(__CPROVER_r_ok($0, sizeof(struct %s)))' % TT),
          ('null_stores_zero', '__CPROVER_ensures((uintptr_t)$0->data == 0 ==> $this->data == 0)'),
          ('relative_to_cells_sandbox', '__CPROVER_ensures(((uintptr_t)$0->data != 0 && V_IN(%s, (uintptr_t)$0->data)) ==> MI($this->data) == MI((uintptr_t)$0->data) - MI(V_BASE[%s]))' % (W % '$this', W % '$this')),
          ('returns_self', '__CPROVER_ensures((void *)$ret == (void *)$this)'),
          ('frame', '__CPROVER_assigns($this->data)')]
    out.append(Inst('c04_store_ptr_cell', 'tainted_volatile<int*, vsbx>& tv, tainted<int*, vsbx>& t', 'tv = t;', cl,
                    CELLH + '  struct %s t; uintptr_t in_val; t.data = (int *)in_val;\n  $ROOT(&cell, &t);\n' % TT,
                    leaves=['dynamic_check', 'vsbx.impl_get_sandboxed_pointer_no_ctx', 'find_sandbox_from_example'], prop=PROP, root_name='operator=', tier=tier,
                    pre=PRE_GHOST, pre_defines=OBJVIEW))
    # null store: tv = nullptr
    cl = [('cell_obj', '__CPROVER_requires(__CPROVER_rw_ok($this, sizeof(struct %s)))' % TV),
          ('stores_zero', '__CPROVER_ensures($this->data == 0)'),
          ('frame', '__CPROVER_assigns($this->data)')]
    out.append(Inst('c04_store_null', 'tainted_volatile<int*, vsbx>& tv', 'tv = nullptr;', cl, '  struct %s cell;\n  $ROOT(&cell, (void *)0);\n' % TV,
                    leaves=[], prop=PROP, root_name='operator=', tier=tier, pre=PRE_GHOST))
    # cell-to-cell copy: tv = tv2 (NO_CHANGE)
    cl = [('objs', '__CPROVER_requires(__CPROVER_rw_ok($this, sizeof(struct %s)) && __CPROVER_r_ok($0, sizeof(struct %s)))' % (TV, TV)),
          ('representation_copied', '__CPROVER_ensures($this->data == __CPROVER_old($0->data))'),
          ('frame', '__CPROVER_assigns($this->data)')]
    out.append(Inst('c04_copy_ptr_cell', 'tainted_volatile<int*, vsbx>& tv, tainted_volatile<int*, vsbx>& tv2', 'tv = tv2;', cl,
                    '  struct %s a, b; unsigned int in_repr = b.data;\n  $ROOT(&a, &b);\n' % TV, leaves=[], prop=PROP, root_name='operator=', tier=tier, pre=PRE_GHOST))
    # with context: t.UNSAFE_sandboxed(sandbox)  (TO_SANDBOX, SANDBOX)
    cl = sb_req('$0') + [
        ('val_obj', '__CPROVER_requires(__CPROVER_r_ok((const struct %s *)$this, sizeof(struct %s)))' % (TT, TT)),
        ('null_maps_to_zero', '__CPROVER_ensures((uintptr_t)((const struct %s *)$this)->data == 0 ==> $ret == 0)' % TT),
        ('relative_to_given_sandbox', '__CPROVER_ensures(((uintptr_t)((const struct %s *)$this)->data != 0 && V_IN($0->base0.slot, (uintptr_t)((const struct %s *)$this)->data)) ==> MI($ret) == MI((uintptr_t)((const struct %s *)$this)->data) - MI(V_BASE[$0->base0.slot]))' % (TT, TT, TT)),
        ('frame', '__CPROVER_assigns()')]
    out.append(Inst('c04_unsafe_sandboxed_ptr', 'tainted<int*, vsbx>& t, rlbox_sandbox<vsbx>& s', 't.UNSAFE_sandboxed(s);', cl,
                    REGIONS + SB_DECL + '  struct %s t; uintptr_t in_val; t.data = (int *)in_val;\n  unsigned int r = $ROOT((void *)&t, &sb);\n' % TT,
                    leaves=['dynamic_check', S_CTX_LEAF], prop=PROP, root_name='UNSAFE_sandboxed', tier=tier, pre=PRE_GHOST))
    return out


def free_inst(tier):
    TT = cs('rlbox::tainted<int *, rlbox::vsbx>')
    spec = PRE_GHOST + '''
unsigned int g_freed; unsigned g_free_calls;
'''
    cl = sb_req('$this') + [
        ('ptr_inv', '__CPROVER_requires((uintptr_t)$0.data == 0 || V_IN($this->base0.slot, (uintptr_t)$0.data))'),
        ('created_frees_translated', '__CPROVER_ensures($this->sandbox_created == 2 ==> (g_free_calls == 1 && MI(g_freed) == ((uintptr_t)$0.data == 0 ? MI(0) : MI((uintptr_t)$0.data) - MI(V_BASE[$this->base0.slot]))))'),
        ('not_created_ignored', '__CPROVER_ensures($this->sandbox_created != 2 ==> g_free_calls == 0)'),
        ('frame', '__CPROVER_assigns(g_freed, g_free_calls)')]

    def is_free(fn, rec):
        return fn.get('name') == 'impl_free_in_sandbox'
    free_leaf = ('vsbx.impl_free_in_sandbox(stub)', is_free,
                 '__CPROVER_ensures(g_freed == $0 && g_free_calls == __CPROVER_old(g_free_calls) + 1)\n__CPROVER_assigns(g_freed, g_free_calls)')
    h = REGIONS + SB_DECL + '  int in_status; sb.sandbox_created = in_status; struct %s p; uintptr_t in_p; p.data = (int *)in_p; g_free_calls = 0;\n  $ROOT(&sb, p);\n' % TT
    return Inst('c04_free_in_sandbox', 'rlbox_sandbox<vsbx>& s, tainted<int*, vsbx> p', 's.free_in_sandbox(p);', cl, h,
                leaves=['dynamic_check', S_CTX_LEAF, free_leaf], prop=PROP, root_name='free_in_sandbox', tier=tier, pre=spec,
                note='Sandbox_Status::CREATED == 2 (enumerator value taken from the instantiated AST by the emitter; the spec constant is checked by instance c14 under C14)')


def free_overload_inst(kind, tier):
    """the other public overloads of free_in_sandbox (opaque pointer, reference to a pointer cell): same guard and same argument
    as the tainted overload - they must not reach the backend allocator on their own"""
    spec = PRE_GHOST + ' unsigned int g_freed; unsigned g_free_calls;\n'

    def is_free(fn, rec):
        return fn.get('name') == 'impl_free_in_sandbox'
    free_leaf = ('vsbx.impl_free_in_sandbox(stub)', is_free,
                 '__CPROVER_ensures(g_freed == $0 && g_free_calls == __CPROVER_old(g_free_calls) + 1)\n__CPROVER_assigns(g_freed, g_free_calls)')
    if kind == 'opaque':
        TO = cs('rlbox::tainted_opaque<int *, rlbox::vsbx>')
        P = '(uintptr_t)$0.data'
        params, decl, arg = 'rlbox_sandbox<vsbx>& s, tainted_opaque<int*, vsbx> p', '  struct %s p; uintptr_t in_p; p.data = (int *)in_p;\n' % TO, 'p'
        leaves = ['dynamic_check', S_CTX_LEAF, free_leaf]
        pre_def = ''
        pick = lambda tu, fn: find_func(tu, 'free_in_sandbox', 'rlbox::rlbox_sandbox<rlbox::vsbx>', lambda f, rn: 'tainted_opaque' in f['type']['qualType'])
        inv = '(%s == 0 || V_IN($this->base0.slot, %s))' % (P, P)
        expect = '(%s == 0 ? MI(0) : MI(%s) - MI(V_BASE[$this->base0.slot]))' % (P, P)
    else:
        TV = cs('rlbox::tainted_volatile<int *, rlbox::vsbx>')
        params, decl, arg = 'rlbox_sandbox<vsbx>& s, tainted_volatile<int*, vsbx>& p', '  struct %s cell; unsigned int in_repr = cell.data; __CPROVER_assume(V_WHICH((uintptr_t)&cell) == in_slot && in_repr < V_SIZE[in_slot]);\n' % TV, '&cell'
        leaves = ['dynamic_check', S_CTX_LEAF, free_leaf, U_NOCTX_LEAF]
        pre_def = OBJVIEW
        pick = lambda tu, fn: find_func(tu, 'free_in_sandbox', 'rlbox::rlbox_sandbox<rlbox::vsbx>', lambda f, rn: 'tainted_volatile' in f['type']['qualType'])
        inv = '(__CPROVER_r_ok($0, sizeof(*$0)) && V_WHICH((uintptr_t)$0) == $this->base0.slot && $0->data < V_SIZE[$this->base0.slot])'
        expect = 'MI($0->data)'
    cl = sb_req('$this') + [
        ('ptr_inv', '__CPROVER_requires(%s)' % inv),
        ('created_frees_the_same_representation', '__CPROVER_ensures($this->sandbox_created == 2 ==> (g_free_calls == 1 && MI(g_freed) == %s))' % expect),
        ('not_created_ignored', '__CPROVER_ensures($this->sandbox_created != 2 ==> g_free_calls == 0)'),
        ('frame', '__CPROVER_assigns(g_freed, g_free_calls)')]
    h = REGIONS + SB_DECL + '  int in_status; sb.sandbox_created = in_status; g_free_calls = 0; g_noabort = 0;\n' + decl + '  $ROOT(&sb, %s);\n' % arg
    return Inst('c04_free_in_sandbox_%s' % kind, params, 's.free_in_sandbox(p);', cl, h, leaves=leaves, prop=PROP, root_name='free_in_sandbox', tier=tier,
                pre=spec, pre_defines=pre_def, root_pick=pick, note='%s overload, with the tainted overload inline' % kind)


def finder_inst(tier):
    """find_sandbox_from_example: walks the live list; returns the element whose region contains the example, or null"""
    VS = cs('rlbox::vsbx')
    L = '$G(sandbox_list)'
    EL = '((const struct %s *)%s.elem[%%s])' % (SB, L)
    listwf = ('%s.len <= 2 && __CPROVER_r_ok(%s.elem, 2 * sizeof(void *)) && '
              '(%s.len >= 1 ==> (__CPROVER_r_ok(%s, sizeof(struct %s)) && (%s->base0.slot == 0 || %s->base0.slot == 1) && V_LIVE(%s->base0.slot))) && '
              '(%s.len >= 2 ==> (__CPROVER_r_ok(%s, sizeof(struct %s)) && (%s->base0.slot == 0 || %s->base0.slot == 1) && V_LIVE(%s->base0.slot)))'
              % (L, L, L, EL % 0, SB, EL % 0, EL % 0, EL % 0, L, EL % 1, SB, EL % 1, EL % 1, EL % 1))
    cl = [('wf', '__CPROVER_requires(V_BACKEND_WF)'),
          ('list_wf', '__CPROVER_requires(%s)' % listwf),
          ('noabort_pre', '__CPROVER_requires(g_noabort ==> (uintptr_t)$0 != 0)'),
          ('example_nonnull', '__CPROVER_ensures((uintptr_t)$0 != 0)'),
          ('found_contains_example', '__CPROVER_ensures((uintptr_t)$ret != 0 ==> V_IN($ret->slot, (uintptr_t)$0))'),
          ('found_is_list_element', '__CPROVER_ensures((uintptr_t)$ret != 0 ==> ((%s.len >= 1 && (void *)$ret == %s.elem[0]) || (%s.len >= 2 && (void *)$ret == %s.elem[1])))' % (L, L, L, L)),
          ('null_means_none_contains', '__CPROVER_ensures(((uintptr_t)$ret == 0 && g_w < %s.len) ==> !V_IN(%s->base0.slot, (uintptr_t)$0))' % (L, EL % 'g_w')),
          ('frame', '__CPROVER_assigns()')]
    # $LV: the loop's index, $LR: the vector it walks - however the walk is spelled (range-for, index loop, std::find_if)
    lc = ('__CPROVER_assigns($LV)\n'
          '__CPROVER_loop_invariant($LV <= $LR->len)\n'
          '__CPROVER_loop_invariant(g_w < $LV ==> !V_IN(((const struct %s *)$LR->elem[g_w])->base0.slot, (uintptr_t)$0))\n'
          '__CPROVER_decreases($LR->len - $LV)' % SB)
    h = REGIONS + ('  struct %s sbA, sbB; int in_slotA, in_slotB; sbA.base0.slot = in_slotA; sbB.base0.slot = in_slotB;\n'
                   '  __CPROVER_assume((in_slotA == 0 || in_slotA == 1) && (in_slotB == 0 || in_slotB == 1) && V_LIVE(in_slotA) && V_LIVE(in_slotB));\n'
                   '  void *arr[2] = { &sbA, &sbB }; unsigned long in_len; __CPROVER_assume(in_len <= 2);\n'
                   '  %s.len = in_len; %s.elem = arr; unsigned long in_w; g_w = in_w;\n'
                   '  uintptr_t in_example;\n  void *r = (void *)$ROOT((const void *)in_example);\n' % (SB, L, L))
    pick = lambda tu, fn: find_func(tu, 'find_sandbox_from_example', 'rlbox::rlbox_sandbox<rlbox::vsbx>')
    return Inst('c04_find_sandbox_from_example', 'tainted_volatile<int*, vsbx>& tv', 'tainted<int*, vsbx> t = tv;', cl, h,
                leaves=['dynamic_check', 'vsbx.impl_is_pointer_in_sandbox_memory'], prop=PROP, root_name='find_sandbox_from_example', tier=tier,
                pre=PRE_GHOST + ' unsigned long g_w;', root_pick=pick, loop_contracts={('find_sandbox_from_example', 0): lc},
                note='loop over the live-sandbox list by loop contract (inductive; ghost witness index g_w instead of forall); list of the <= 2 live instances of the two-slot verification backend')


def ptr_array_inst(n, tier, cls='vsbx'):
    """tainted<int*[N]> t = tv: element-wise translation of an array of pointer cells (loop contract, witness index)"""
    TVA = cs('rlbox::tainted_volatile<int *[%d], rlbox::%s>' % (n, cls))
    TA = cs('rlbox::tainted<int *[%d], rlbox::%s>' % (n, cls))
    cell = '$0'
    W = 'V_WHICH((uintptr_t)%s)' % cell
    FROM = '%s->data._M_elems[g_w]' % cell
    cl = [('wf', '__CPROVER_requires(V_BACKEND_WF)'),
          ('cell_obj', '__CPROVER_requires(__CPROVER_r_ok(%s, sizeof(struct %s)) && V_WHICH((uintptr_t)%s) != -1 && g_expect_example == (uintptr_t)%s && g_w < %d)' % (cell, TVA, cell, cell, n)),
          ('zero_loads_null', '__CPROVER_ensures(%s == 0 ==> (uintptr_t)$ret.data._M_elems[g_w] == 0)' % FROM),
          ('element_relative_to_cells_sandbox', '__CPROVER_ensures((%s != 0 && (uintptr_t)%s < V_SIZE[%s]) ==> (uintptr_t)$ret.data._M_elems[g_w] == V_BASE[%s] + (uintptr_t)%s)' % (FROM, FROM, W, W, FROM)),
          ('frame', '__CPROVER_assigns()')]
    lc = ('__CPROVER_assigns($LV, __CPROVER_object_whole($0))\n'
          '__CPROVER_loop_invariant($LV <= %d)\n'
          '__CPROVER_loop_invariant((g_w < $LV && $1->_M_elems[g_w] == 0) ==> (uintptr_t)$0->_M_elems[g_w] == 0)\n'
          '__CPROVER_loop_invariant((g_w < $LV && $1->_M_elems[g_w] != 0 && (uintptr_t)$1->_M_elems[g_w] < V_SIZE[V_WHICH((uintptr_t)$2)]) ==> (uintptr_t)$0->_M_elems[g_w] == V_BASE[V_WHICH((uintptr_t)$2)] + (uintptr_t)$1->_M_elems[g_w])\n'
          '__CPROVER_decreases(%d - $LV)' % (n, n))
    h = REGIONS + ('  struct %s cell; unsigned long in_w; g_w = in_w; __CPROVER_assume(in_w < %d);\n'
                   '  __CPROVER_assume(V_WHICH((uintptr_t)&cell) != -1);\n  g_expect_example = (uintptr_t)&cell;\n'
                   '  struct %s r = $ROOT(&cell);\n' % (TVA, n, TA))
    pick = lambda tu, fn: find_func(tu, 'tainted', 'rlbox::tainted<int *[%d], rlbox::%s>' % (n, cls), lambda f, rn: 'tainted_volatile' in f['type']['qualType'])
    return Inst('c04_load_ptr_array_%d%s' % (n, '' if cls == 'vsbx' else '_' + cls), 'tainted_volatile<int*[%d], %s>& tv' % (n, cls), 'tainted<int*[%d], %s> t = tv;' % (n, cls), cl, h,
                leaves=['dynamic_check', U_NOCTX_LEAF], prop=PROP, root_name='tainted', tier=tier, pre=PRE_GHOST + ' unsigned long g_w;', pre_defines=OBJVIEW,
                root_pick=pick, loop_contracts={('convert_type_non_class', 0): lc},
                note='array of %d pointer cells; loop by loop contract with a ghost witness index; backend %s%s' % (n, cls, '' if cls == 'vsbx' else ' (representation as wide as a host pointer but not the identity: still element by element)'))


def ptr_array_store_inst(n, tier, cls='vsbx'):
    """tv = t for an array of pointers: every element is translated to the guest representation relative to the cell's sandbox"""
    TVA = cs('rlbox::tainted_volatile<int *[%d], rlbox::%s>' % (n, cls))
    TA = cs('rlbox::tainted<int *[%d], rlbox::%s>' % (n, cls))
    W = 'V_WHICH((uintptr_t)$this)'
    SRC = '(uintptr_t)$0->data._M_elems[g_w]'
    DST = '$this->data._M_elems[g_w]'
    cl = [('wf', '__CPROVER_requires(V_BACKEND_WF)'),
          ('cell_obj', '__CPROVER_requires(__CPROVER_rw_ok($this, sizeof(struct %s)) && V_WHICH((uintptr_t)$this) != -1 && g_expect_example == (uintptr_t)$this && g_w < %d)' % (TVA, n)),
          ('src_obj', '__CPROVER_requires(__CPROVER_r_ok($0, sizeof(struct %s)))' % TA),
          ('null_stores_zero', '__CPROVER_ensures(%s == 0 ==> %s == 0)' % (SRC, DST)),
          ('element_relative_to_cells_sandbox', '__CPROVER_ensures((%s != 0 && V_IN(%s, %s)) ==> MI(%s) == MI(%s) - MI(V_BASE[%s]))' % (SRC, W, SRC, DST, SRC, W)),
          ('frame', '__CPROVER_assigns(__CPROVER_object_whole($this))')]
    lc = ('__CPROVER_assigns($LV, __CPROVER_object_whole($0))\n'
          '__CPROVER_loop_invariant($LV <= %d)\n'
          '__CPROVER_loop_invariant((g_w < $LV && (uintptr_t)$1->_M_elems[g_w] == 0) ==> $0->_M_elems[g_w] == 0)\n'
          '__CPROVER_loop_invariant((g_w < $LV && (uintptr_t)$1->_M_elems[g_w] != 0 && V_IN(V_WHICH((uintptr_t)$2), (uintptr_t)$1->_M_elems[g_w])) ==> MI($0->_M_elems[g_w]) == MI((uintptr_t)$1->_M_elems[g_w]) - MI(V_BASE[V_WHICH((uintptr_t)$2)]))\n'
          '__CPROVER_decreases(%d - $LV)' % (n, n))
    h = REGIONS + ('  struct %s cell; struct %s v; unsigned long in_w; g_w = in_w; __CPROVER_assume(in_w < %d);\n'
                   '  __CPROVER_assume(V_WHICH((uintptr_t)&cell) != -1);\n  g_expect_example = (uintptr_t)&cell; uintptr_t in_val = (uintptr_t)v.data._M_elems[in_w];\n'
                   '  $ROOT(&cell, &v);\n' % (TVA, TA, n))
    return Inst('c04_store_ptr_array_%d%s' % (n, '' if cls == 'vsbx' else '_' + cls), 'tainted_volatile<int*[%d], %s>& tv, tainted<int*[%d], %s>& t' % (n, cls, n, cls), 'tv = t;', cl, h,
                leaves=['dynamic_check', S_NOCTX_LEAF], prop=PROP, root_name='operator=', tier=tier, pre=PRE_GHOST + ' unsigned long g_w;', pre_defines=OBJVIEW,
                loop_contracts={('convert_type_non_class', 0): lc},
                note='store of an array of %d pointers; loop by loop contract with a ghost witness index; backend %s' % (n, cls))


def same_repr_copy_inst(n, tier):
    """convert_type_non_class<NO_CHANGE> on pointer representations that ARE host pointers (the bundled no-op and dylib backends:
    T_PointerType = void*): a copy between two cells.  The verification backend's 32-bit representation never reaches these two
    arms through the public routes, so the dispatcher is instantiated directly.  n == 0: scalar (`to = from`); n > 0: array (memcpy)"""
    if n == 0:
        cl = [('objs', '__CPROVER_requires(__CPROVER_rw_ok($0, sizeof(*$0)) && __CPROVER_r_ok($1, sizeof(*$1)))'),
              ('representation_copied', '__CPROVER_ensures((uintptr_t)*$0 == (uintptr_t)__CPROVER_old(*$1))'),
              ('frame', '__CPROVER_assigns(*$0)')]
        h = '  int *to; int *from; uintptr_t in_from; from = (int *)in_from;\n  $ROOT(&to, &from, (const void *)0, (void *)0);\n'
        params = 'int*& to, int* const& from'
    else:
        AT = cs('std::array<int *, %d>' % n).replace('S_array', 'A_array', 1)
        cl = [('objs', '__CPROVER_requires(__CPROVER_rw_ok($0, %d) && __CPROVER_r_ok($1, %d) && g_w < %d)' % (8 * n, 8 * n, n)),
              ('every_element_copied_whole', '__CPROVER_ensures((uintptr_t)$0->_M_elems[g_w] == (uintptr_t)__CPROVER_old($1->_M_elems[g_w]))'),
              ('frame', '__CPROVER_assigns(__CPROVER_object_whole($0))')]
        h = ('  struct %s to, from; unsigned long in_w; g_w = in_w; __CPROVER_assume(in_w < %d); uintptr_t in_from = (uintptr_t)from._M_elems[in_w];\n'
             '  $ROOT(&to, &from, (const void *)0, (void *)0);\n' % (AT, n))
        params = 'std::array<int*, %d>& to, const std::array<int*, %d>& from' % (n, n)
    return Inst('c04_same_representation_copy_%s' % ('scalar' if n == 0 else 'array_%d' % n), params,
                'detail::convert_type_non_class<vsbx, detail::adjust_type_direction::NO_CHANGE, detail::adjust_type_context::EXAMPLE>(to, from, nullptr, nullptr);',
                cl, h, leaves=['dynamic_check'], prop=PROP, root_name='convert_type_non_class', tier=tier, pre=PRE_GHOST + ' unsigned long g_w;\n',
                note='pointer representation == host pointer (no-op / dylib ABI): NO_CHANGE arms of the dispatcher')


def units(tier):
    insts = entry_points(tier) + lemmas(tier) + cell_ops(tier) + [free_inst(tier), free_overload_inst('opaque', tier), free_overload_inst('cell', tier), finder_inst(tier)] + [ptr_array_inst(n, tier) for n in ([4] if tier == 'quick' else [1, 4, 16, 64])]
    insts += [same_repr_copy_inst(0, tier), same_repr_copy_inst(3, tier), ptr_array_inst(4, tier, 'vsbx64'), ptr_array_store_inst(4, tier), ptr_array_store_inst(4, tier, 'vsbx64')]
    # the no-context paths find the sandbox through the live registry: its exactness under create/destroy in any order
    # (contracts of C14) is what makes "relative to that sandbox and never relative to another" hold across histories
    from . import C14
    for it in (C14.create_inst(tier), C14.destroy_inst(tier, clause_recreate=False)):
        it.name = it.name.replace('c14_', 'c04_registry_')
        it.prop = PROP
        insts.append(it)
    # struct fields: whole-struct store and load (macro-expanded bodies, contracts of C08) translate the pointer field
    # relative to the sandbox the guest image lives in, null <-> 0
    from . import C08
    sinsts = []
    for it in (C08.store_inst('VOuter', tier), C08.load_inst('VOuter', tier), C08.unverified_inst('VOuter', tier)):
        it.name = it.name.replace('c08_', 'c04_struct_')
        it.prop = PROP
        sinsts.append(it)
    return [Unit('C04_translation', insts), Unit('C04_struct_fields', sinsts, includes=('rlbox.hpp', 'vsbx.hpp', 'vstructs.hpp'))]


ASSUMPTIONS = [
    'A_backend for the plugin (DESIGN.md 4.1): translation is base+offset on the region of the instance (context forms) or of the sandbox containing the example address (no-context forms); discharged for vsbx under C03',
    'offset 0 of a region is the guest null pointer and is never a valid object address (round-trip lemmas exclude it)',
    'two simultaneously live sandboxes (two-region symbolic address space); create/destroy histories are C14',
]
TRUSTED = ['object view for pointer cells: the cell is a CBMC object (4 bytes, guest representation) whose integer address is constrained to lie in a live region']
MANIFEST = {
    'level_text': 'Each of the four translation entry points is proved null-preserving on every path (0 <-> null before the backend is consulted: the backend stubs require a non-zero argument) and faithful (base+offset) for all 2^32 representations / all 2^64 addresses; round-trip lemmas are proved over those contracts for the context and the no-context path; loads and stores of pointer cells are proved to hand the backend the address of the cell itself as example, hence to translate relative to the sandbox that owns the cell when two sandboxes are live; free_in_sandbox passes the translated representation. Loop-free instances: complete.',
    'level_note': 'Assumes A_backend (discharged for vsbx). Arrays of pointers (element loop), struct fields, and the finder loop find_sandbox_from_example are separate instances (loop contracts); calls and callbacks (TO_APPLICATION/SANDBOX) are decided under C11/C12.',
}
