"""C09 - verified copies are application-memory snapshots: no check/use window.
Functions under contract (rlbox.hpp): copy_and_verify pointer branch (486-562), copy_and_verify_range_helper /
copy_and_verify_range (591-636), copy_and_verify_string for both verifier kinds (646-710), verify_range_helper (564-589).
Adversarial model (DESIGN.md 4.5): sandbox memory is one heap object whose content is arbitrary at every read of a
volatile-qualified location (goto-instrument --nondet-volatile), strlen is a stub returning an arbitrary length; the
verifier is a stub whose *precondition* states what RLBox must hand it: null or an object allocated by this call in
application memory, with the right size and terminator."""
from vlib.unit import Unit, Inst, find_func
import vlib.replay_c09  # registers the hook-based native replays
from .common import cs, PRE_GHOST, mi
from .C03 import REGIONS, OBJVIEW

PROP = 'C09'
TITLE = 'Verified copies are application-memory snapshots: no check/use window'
FUNCTIONS = ['tainted_base_impl::copy_and_verify (pointer branch, rlbox.hpp:486-562)', 'copy_and_verify_range / copy_and_verify_range_helper (591-636)',
             'copy_and_verify_string, unique_ptr<char[]> and std::string verifiers (646-710)', 'verify_range_helper (564-589)']

EXTRA_CPP = '''#include <memory>
#include <string>
#include <string_view>
namespace rlbox { namespace vinst {
struct VStrV { int operator()(std::string_view) const; };
struct VPtrI { int operator()(std::unique_ptr<int>) const; };
struct VPtrL { int operator()(std::unique_ptr<long>) const; };
struct VArrI { int operator()(std::unique_ptr<int[]>) const; };
struct VStrU { int operator()(std::unique_ptr<char[]>) const; };
struct VStrS { int operator()(std::string) const; };
struct VAddr { unsigned long operator()(uintptr_t) const; };
struct VC_int { int operator()(std::unique_ptr<int>) const; };
struct VR_int { int operator()(std::unique_ptr<int[]>) const; };
struct VC_long { int operator()(std::unique_ptr<long>) const; };
struct VR_long { int operator()(std::unique_ptr<long[]>) const; };
struct VC_unsigned_short { int operator()(std::unique_ptr<unsigned short>) const; };
struct VR_unsigned_short { int operator()(std::unique_ptr<unsigned short[]>) const; };
struct VC_unsigned_long { int operator()(std::unique_ptr<unsigned long>) const; };
struct VR_unsigned_long { int operator()(std::unique_ptr<unsigned long[]>) const; };
struct VC_char { int operator()(std::unique_ptr<char>) const; };
struct VR_char { int operator()(std::unique_ptr<char[]>) const; };
}}
'''
# object-view memcpy: cbmc's own byte copy, whose source and destination ranges carry cbmc's pointer checks (a bulk copy
# out of sandbox memory is fine as long as it reads the range that was checked)
GH = PRE_GHOST + '''
void *memcpy(void *, const void *, unsigned long);
void *vstd_memcpy(void *d, const void *s, unsigned long n) { return memcpy(d, s, n); }
unsigned long g_new_bytes; unsigned g_news; void *g_new_ptr;
unsigned g_vcalls; int g_vret; void *g_sbx_mem; unsigned long g_strlen_ret; unsigned g_strlens; unsigned long g_checked_bytes; unsigned long g_checked_start;
'''
# sandbox memory = one heap object [mem, mem+size) registered as region 0 of the backend
MEM = ('  unsigned long in_size; __CPROVER_assume(in_size >= 16 && in_size <= 4096);\n'
       '  char *mem = malloc(in_size); __CPROVER_assume(mem != 0); g_sbx_mem = mem;\n'
       '  V_BASE[0] = (unsigned long)mem; V_SIZE[0] = in_size; V_BASE[1] = 0; V_SIZE[1] = 0;\n'
       '  __CPROVER_assume(V_BACKEND_WF);\n'
       '  g_noabort = 0; g_backend_nonnull = 0; g_expect_example = 0; g_vcalls = 0; g_news = 0; g_strlens = 0; int in_vret; g_vret = in_vret;\n')


def _is(name):
    def p(fn, rec):
        return fn.get('name') == name
    return p


CHECK_RANGE = ('check_range(contract + recorded length)', _is('check_range_doesnt_cross_app_sbx_boundary'),
               '__CPROVER_requires(g_noabort ==> ((uintptr_t)$0 != 0 && $1 >= 1 && MI((uintptr_t)$0) + MI($1) - 1 < (MI(1) << 64) && V_WHICH((uintptr_t)$0) == V_WHICH((uintptr_t)$0 + $1 - 1))) /*@a_valid_request_is_not_refused*/\n'
               '__CPROVER_ensures((uintptr_t)$0 != 0 && V_WHICH((uintptr_t)$0) == V_WHICH((uintptr_t)$0 + $1 - 1) && ($1 >= 1 ==> MI((uintptr_t)$0) + MI($1) - 1 < (MI(1) << 64)))\n'
               '__CPROVER_ensures(g_checked_bytes == $1 && g_checked_start == (uintptr_t)$0)\n__CPROVER_assigns(g_checked_bytes, g_checked_start)')


def vstub(argdecl, req):
    return ('int verifier_stub(%s)\n'
            '__CPROVER_requires(%s) /*@verifier_gets_null_or_a_fresh_application_object*/\n'
            '__CPROVER_ensures(g_vcalls == __CPROVER_old(g_vcalls) + 1 && __CPROVER_return_value == g_vret)\n'
            '__CPROVER_assigns(g_vcalls);\n' % (argdecl, req))


def fresh(arg, size_expr):
    return '(%s == 0 || ((void *)%s == g_new_ptr && g_news >= 1 && !__CPROVER_same_object(%s, g_sbx_mem) && g_new_bytes == %s))' % (arg, arg, arg, size_expr)


def cav_ptr_inst(pointee, cpointee, guest_bytes, tier):
    TT = cs('rlbox::tainted<%s *, rlbox::vsbx>' % pointee)
    cl = [('obj', '__CPROVER_requires(__CPROVER_r_ok((const struct %s *)$this, sizeof(struct %s)) && g_vcalls == 0 && g_news == 0)' % (TT, TT)),
          ('verifier_runs_once_and_its_result_is_returned', '__CPROVER_ensures(g_vcalls == 1 && $ret == g_vret)'),
          ('frame', '__CPROVER_assigns(g_vcalls, g_new_bytes, g_news, g_new_ptr)')]
    h = MEM + ('  struct %s p; unsigned long in_off; _Bool in_null; __CPROVER_assume(in_off <= in_size - %d);\n'
               '  p.data = in_null ? (%s *)0 : (%s *)(mem + in_off);\n  struct S_VPtr%s vf;\n  int r = $ROOT((void *)&p, vf);\n' % (TT, guest_bytes, cpointee, cpointee, 'I' if pointee == 'int' else 'L'))
    stub = vstub('%s *arg' % cpointee, fresh('arg', 'sizeof(%s)' % cpointee))
    return Inst('c09_copy_and_verify_ptr_%s' % pointee, 'tainted<%s*, vsbx>& p, VPtr%s verifier' % (pointee, 'I' if pointee == 'int' else 'L'), 'p.copy_and_verify(verifier);', cl, h,
                leaves=['dynamic_check'], prop=PROP, root_name='copy_and_verify', tier=tier, pre=GH, pre_defines=OBJVIEW, post_protos=stub,
                opts={'param_fn_stubs': {'*': 'verifier_stub'}, 'amp_star': True, 'volatile_read_check': True}, extra_replace=['verifier_stub'], nondet_volatile=True,
                replay={'kind': 'cav_content', 'ctype': pointee, 'gtype': {'int': 'int32_t', 'long': 'int32_t'}[pointee], 'no_inputs': True},
                note='pointee occupies %d guest bytes at the end of a %s-typed read' % (guest_bytes, pointee))


def cav_ptr_volatile_inst(tier):
    """copy_and_verify (pointer form) on a tainted_volatile<int*> receiver: the pointer itself lives in sandbox memory and may be
    rewritten between any two reads; the pointee is read once through the pointer value that was null-checked"""
    TV = cs('rlbox::tainted_volatile<int *, rlbox::vsbx>')
    cl = [('obj', '__CPROVER_requires(__CPROVER_r_ok((const struct %s *)$this, sizeof(struct %s)) && g_vcalls == 0 && g_news == 0 && V_BACKEND_WF)' % (TV, TV)),
          ('cell_inv', '__CPROVER_requires(V_IN(0, (uintptr_t)$this) && g_expect_example == 0)'),
          ('sandbox_memory_is_one_object_followed_by_a_guard_zone', '__CPROVER_requires(__CPROVER_r_ok(g_sbx_mem, V_SIZE[0] + 8) && (unsigned long)g_sbx_mem == V_BASE[0] && V_SIZE[1] == 0 && V_SIZE[0] <= 4096)'),
          ('verifier_runs_once_and_its_result_is_returned', '__CPROVER_ensures(g_vcalls == 1 && $ret == g_vret)'),
          ('frame', '__CPROVER_assigns(g_vcalls, g_new_bytes, g_news, g_new_ptr)')]
    h = MEM.replace('V_SIZE[0] = in_size;', 'V_SIZE[0] = in_size - 8; /* 8 guard bytes after the region: reads of a pointee that starts inside never fault */') + (
        '  __CPROVER_assume(in_size >= 64); struct %s *pp = (struct %s *)(mem + 8);\n  struct S_VPtrI vf;\n  int r = $ROOT((void *)pp, vf);\n' % (TV, TV))
    stub = vstub('int *arg', fresh('arg', 'sizeof(int)'))
    return Inst('c09_copy_and_verify_ptr_int_volatile_receiver', 'tainted_volatile<int*, vsbx>& p, VPtrI verifier', 'p.copy_and_verify(verifier);', cl, h,
                leaves=['dynamic_check', 'vsbx.impl_get_unsandboxed_pointer_no_ctx', 'find_sandbox_from_example'], prop=PROP, root_name='copy_and_verify', tier=tier,
                pre=GH, pre_defines=OBJVIEW, post_protos=stub, opts={'param_fn_stubs': {'*': 'verifier_stub'}, 'amp_star': True, 'volatile_read_check': True},
                extra_replace=['verifier_stub'], nondet_volatile=True,
                root_pick=lambda tu, fn: find_func(tu, 'copy_and_verify', None, lambda f, rn: 'VPtrI' in f.get('mangledName', '') and '16tainted_volatile' in f.get('mangledName', '').split('15copy_and_verify')[0]),
                replay={'kind': 'cav_ptr_refetch', 'no_inputs': True},
                note='receiver in sandbox memory; assumes 8 readable guard bytes after the region (guard page), so that the pointee read of a pointer to the last bytes does not fault')


def volatile_address_inst(which, el, esz, tier):
    """address-with-extent out of a pointer that lives in sandbox memory: the address handed out is the one whose range was
    checked, whatever the sandbox writes to the pointer cell between RLBox's reads (which: buffer_address | unverified_safe)"""
    TV = cs('rlbox::tainted_volatile<%s *, rlbox::vsbx>' % el)
    common = [('obj', '__CPROVER_requires(__CPROVER_r_ok((const struct %s *)$this, sizeof(struct %s)) && V_BACKEND_WF)' % (TV, TV)),
              ('cell_inv', '__CPROVER_requires(V_IN(0, (uintptr_t)$this) && g_expect_example == 0)'),
              ('sandbox_memory_is_one_object', '__CPROVER_requires(__CPROVER_r_ok(g_sbx_mem, V_SIZE[0] + 8) && (unsigned long)g_sbx_mem == V_BASE[0] && V_SIZE[1] == 0 && V_SIZE[0] <= 4096)')]
    hm = MEM.replace('V_SIZE[0] = in_size;', 'V_SIZE[0] = in_size - 8;') + ('  __CPROVER_assume(in_size >= 64); struct %s *pp = (struct %s *)(mem + 8); unsigned long in_count; g_count = in_count; g_checked_start = 0; g_checked_bytes = 0;\n' % (TV, TV))
    leaves = ['dynamic_check', CHECK_RANGE, 'vsbx.impl_is_in_same_sandbox', 'vsbx.impl_get_unsandboxed_pointer_no_ctx', 'find_sandbox_from_example']
    # stated on the address itself (not on what an internal helper recorded): with the count given, that many whole elements lie
    # inside the sandbox - an address obtained by a second, unchecked read of the cell cannot satisfy this
    okf = lambda a: '(%s == 0 || (V_IN(0, %s) && (g_count == 0 || V_IN_MI(0, MI(%s) + MI(g_count) * MI(%d) - 1))))' % (a, a, a, esz)
    ok = okf('a')
    if which == 'buffer_address':
        stub = ('unsigned long verifier_stub(unsigned long a)\n__CPROVER_requires(%s) /*@address_handed_out_has_count_whole_elements_inside_the_sandbox*/\n'
                '__CPROVER_ensures(g_vcalls == __CPROVER_old(g_vcalls) + 1 && __CPROVER_return_value == a)\n__CPROVER_assigns(g_vcalls);\n' % ok)
        cl = common + [('fresh', '__CPROVER_requires(g_vcalls == 0)'), ('verifier_runs_once', '__CPROVER_ensures(g_vcalls == 1)'),
                       ('frame', '__CPROVER_assigns(g_vcalls, g_checked_bytes, g_checked_start)')]
        h = hm + '  g_vcalls = 0; struct S_VAddr vf;\n  unsigned long r = $ROOT((void *)pp, vf, in_count);\n'
        return Inst('c09_buffer_address_volatile_receiver_%s' % el.replace(' ', '_'), 'tainted_volatile<%s*, vsbx>& p, VAddr verifier, size_t n' % el, 'p.copy_and_verify_buffer_address(verifier, n);', cl, h,
                    leaves=leaves, prop=PROP, root_name='copy_and_verify_buffer_address', tier=tier, pre=GH + ' unsigned long g_count;\n', pre_defines=OBJVIEW, post_protos=stub,
                    opts={'param_fn_stubs': {'*': 'verifier_stub'}, 'amp_star': True, 'volatile_read_check': True}, extra_replace=['verifier_stub'], nondet_volatile=True,
                    root_pick=lambda tu, fn: find_func(tu, 'copy_and_verify_buffer_address', None, lambda f, rn: '16tainted_volatile' in f.get('mangledName', '').split('30copy_and_verify_buffer_address')[0]),
                    note='pointer cell in sandbox memory, adversarial reads; element %s' % el)
    a = '(uintptr_t)$ret'
    cl = common + [('pointer_handed_out_has_count_whole_elements_inside_the_sandbox', '__CPROVER_ensures(%s)' % okf(a)),
                   ('frame', '__CPROVER_assigns(g_checked_bytes, g_checked_start)')]
    h = hm + '  const char reason[2] = "r";\n  void *r = (void *)$ROOT((void *)pp, in_count, &reason);\n'
    return Inst('c09_unverified_safe_pointer_volatile_receiver_%s' % el.replace(' ', '_'), 'tainted_volatile<%s*, vsbx>& p, size_t n' % el, 'p.unverified_safe_pointer_because(n, "r");', cl, h,
                leaves=leaves, prop=PROP, root_name='unverified_safe_pointer_because', tier=tier, pre=GH + ' unsigned long g_count;\n', pre_defines=OBJVIEW,
                opts={'amp_star': True, 'volatile_read_check': True}, nondet_volatile=True,
                root_pick=lambda tu, fn: find_func(tu, 'unverified_safe_pointer_because', None, lambda f, rn: '16tainted_volatile' in f.get('mangledName', '').split('31unverified_safe_pointer_because')[0]),
                note='pointer cell in sandbox memory, adversarial reads; element %s' % el)


def range_inst(tier):
    TT = cs('rlbox::tainted<int *, rlbox::vsbx>')
    cl = [('obj', '__CPROVER_requires(__CPROVER_r_ok((const struct %s *)$this, sizeof(struct %s)) && g_vcalls == 0 && g_news == 0 && V_BACKEND_WF)' % (TT, TT)),
          ('ptr_inv', '__CPROVER_requires((uintptr_t)((const struct %s *)$this)->data == 0 || V_IN(0, (uintptr_t)((const struct %s *)$this)->data))' % (TT, TT)),
          ('sandbox_memory_is_one_object', '__CPROVER_requires(__CPROVER_r_ok(g_sbx_mem, V_SIZE[0]) && (unsigned long)g_sbx_mem == V_BASE[0] && V_SIZE[1] == 0 && V_SIZE[0] <= 4096)'),
          ('verifier_runs_once_and_its_result_is_returned', '__CPROVER_ensures(g_vcalls == 1 && $ret == g_vret)'),
          ('frame', '__CPROVER_assigns(g_vcalls, g_new_bytes, g_news, g_new_ptr, g_checked_bytes, g_checked_start)')]
    lc = ('__CPROVER_assigns($LV, __CPROVER_object_whole(g_new_ptr))\n'
          '__CPROVER_loop_invariant($LV <= $0)\n'
          '__CPROVER_decreases($0 - $LV)')
    h = MEM + ('  struct %s p; unsigned long in_off; _Bool in_null; __CPROVER_assume(in_off < in_size);\n'
               '  p.data = in_null ? (int *)0 : (int *)(mem + in_off);\n  struct S_VArrI vf; unsigned long in_count;\n  int r = $ROOT((void *)&p, vf, in_count);\n' % TT)
    stub = vstub('int *arg', fresh('arg', 'g_count * sizeof(int)'))
    return Inst('c09_copy_and_verify_range_int', 'tainted<int*, vsbx>& p, VArrI verifier, size_t n', 'p.copy_and_verify_range(verifier, n);', cl,
                h.replace('unsigned long in_count;', 'unsigned long in_count; g_count = in_count;'),
                leaves=['dynamic_check', CHECK_RANGE, 'vsbx.impl_is_in_same_sandbox'], prop=PROP, root_name='copy_and_verify_range', tier=tier,
                pre=GH + ' unsigned long g_count;\n', pre_defines=OBJVIEW, post_protos=stub, opts={'param_fn_stubs': {'*': 'verifier_stub'}, 'amp_star': True, 'volatile_read_check': True},
                extra_replace=['verifier_stub'], object_bits=12, nondet_volatile=True, loop_contracts={('copy_and_verify_range_helper', 0): lc}, timeout=600,
                note='element copy loop by loop contract; every element read is an adversarial (nondeterministic) read; the buffer handed to the verifier is the object allocated with count elements')


STRLEN = ('unsigned long vstd_strlen(const char *s)\n'
          '__CPROVER_requires(s != 0 && __CPROVER_same_object(s, g_sbx_mem)) /*@strlen_scans_a_non_null_string_that_starts_in_sandbox_memory*/\n'
          '__CPROVER_ensures(__CPROVER_return_value == g_strlen_ret && g_strlens == __CPROVER_old(g_strlens) + 1)\n__CPROVER_assigns(g_strlens);\n')


def string_inst(kind, recv, tier):
    """kind: uptr | std ; recv: tainted | tainted_volatile (pointer cell in sandbox memory)"""
    V = {'uptr': 'VStrU', 'std': 'VStrS', 'view': 'VStrV'}[kind]
    if recv == 'tainted':
        TT = cs('rlbox::tainted<char *, rlbox::vsbx>')
        recv_decl = ('  struct %s p; unsigned long in_off; _Bool in_null; __CPROVER_assume(in_off < in_size);\n'
                     '  p.data = in_null ? (char *)0 : (mem + in_off);\n' % TT)
        params = 'tainted<char*, vsbx>& p, %s verifier' % V
        inv = '((uintptr_t)((const struct %s *)$this)->data == 0 || V_IN(0, (uintptr_t)((const struct %s *)$this)->data))' % (TT, TT)
        leaves = ['dynamic_check', CHECK_RANGE, 'vsbx.impl_is_in_same_sandbox']
    else:
        TT = cs('rlbox::tainted_volatile<char *, rlbox::vsbx>')
        recv_decl = ('  __CPROVER_assume(in_size >= 64); struct %s *pp = (struct %s *)(mem + 8);\n' % (TT, TT))
        params = 'tainted_volatile<char*, vsbx>& p, %s verifier' % V
        inv = '(V_IN(0, (uintptr_t)$this))'
        leaves = ['dynamic_check', CHECK_RANGE, 'vsbx.impl_is_in_same_sandbox', 'vsbx.impl_get_unsandboxed_pointer_no_ctx', 'find_sandbox_from_example']
    cl = [('obj', '__CPROVER_requires(__CPROVER_r_ok((const struct %s *)$this, sizeof(struct %s)) && g_vcalls == 0 && g_news == 0 && g_strlens == 0 && V_BACKEND_WF && g_strlen_ret < 0x100000000UL)' % (TT, TT)),
          ('ptr_inv', '__CPROVER_requires(%s)' % inv),
          ('sandbox_memory_is_one_object', '__CPROVER_requires(__CPROVER_r_ok(g_sbx_mem, V_SIZE[0]) && (unsigned long)g_sbx_mem == V_BASE[0] && V_SIZE[1] == 0 && V_SIZE[0] <= 4096)'),
          ('verifier_runs_once_and_its_result_is_returned', '__CPROVER_ensures(g_vcalls == 1 && $ret == g_vret)'),
          ('one_strlen_at_most', '__CPROVER_ensures(g_strlens <= 1)'),
          ('frame', '__CPROVER_assigns(g_vcalls, g_new_bytes, g_news, g_new_ptr, g_checked_bytes, g_checked_start, g_strlens)')]
    h = MEM + recv_decl + '  struct S_%s vf; unsigned long in_strlen; g_strlen_ret = in_strlen;\n' % V
    if recv == 'tainted':
        # no-abort direction (C10: a request whose range lies inside the sandbox is carried out): a string whose terminator is still
        # inside sandbox memory - in particular on its last byte - is delivered, not refused
        D = '((uintptr_t)((const struct %s *)$this)->data)' % TT
        cl.insert(2, ('noabort_pre', '__CPROVER_requires(g_noabort ==> (%s == 0 || MI(%s) + MI(g_strlen_ret) + 1 <= MI(V_BASE[0]) + MI(V_SIZE[0])))' % (D, D)))
        h += '  _Bool in_noabort; g_noabort = in_noabort;\n'
    h += '  int r = $ROOT((void *)%s, vf);\n' % ('&p' if recv == 'tainted' else 'pp')
    lcs = {('copy_and_verify_range_helper', 0): '__CPROVER_assigns($LV, __CPROVER_object_whole(g_new_ptr))\n__CPROVER_loop_invariant($LV <= $0)\n__CPROVER_decreases($0 - $LV)'}
    if kind == 'uptr':
        # buffer handed over: allocated by this call with exactly strlen+1 bytes == the range-checked length, NUL-terminated inside it
        req = ('(arg == 0 || ((void *)arg == g_new_ptr && g_news >= 1 && !__CPROVER_same_object(arg, g_sbx_mem) && g_new_bytes == g_strlen_ret + 1 && '
               'arg[g_new_bytes - 1] == 0))')
        stub = vstub('char *arg', req)
        extra = ['verifier_stub', 'vstd_strlen']
        post = STRLEN + stub
    elif kind == 'view':
        # a verifier-parameter kind outside the closed set of the pinned tree (std::string_view): rejected by the compiler there
        # (may_not_compile); an arm that accepts it must still hand over an object that lives in application memory
        stub = vstub('struct M_string arg', 'arg.len == 0 || !__CPROVER_same_object(arg.src, g_sbx_mem)')
        extra = ['verifier_stub', 'vstd_strlen']
        post = STRLEN + stub
    else:
        # std::string(const char*, n) copies exactly n bytes; std::string(const char*) scans for a terminator, so its argument
        # must be terminated inside its own buffer: either the empty literal or the snapshot buffer with its last byte forced to NUL
        req = ('arg.len == 0 || ((arg.len == g_strlen_ret && V_IN(0, (uintptr_t)arg.src) && V_IN_MI(0, MI((uintptr_t)arg.src) + MI(arg.len))) || '
               '(g_news >= 1 && (void *)arg.src == g_new_ptr && arg.len + 1 <= g_new_bytes))')
        stub = vstub('struct M_string arg', req)
        post = (STRLEN + 'struct M_string vstd_string_from(const char *s, unsigned long n)\n__CPROVER_requires(n == 0 || __CPROVER_r_ok(s, n)) /*@string_from_reads_n_bytes*/\n'
                '__CPROVER_ensures(__CPROVER_return_value.src == s && __CPROVER_return_value.len == n)\n__CPROVER_assigns();\n'
                'struct M_string vstd_string_cstr(const char *s)\n'
                '__CPROVER_requires(s != 0 && (s[0] == 0 || (g_news >= 1 && (void *)s == g_new_ptr && ((const char *)g_new_ptr)[g_new_bytes - 1] == 0))) /*@c_string_is_terminated_inside_its_own_buffer*/\n'
                '__CPROVER_ensures(__CPROVER_return_value.src == s && (s[0] == 0 ? __CPROVER_return_value.len == 0 : __CPROVER_return_value.len + 1 <= g_new_bytes))\n__CPROVER_assigns();\n' + stub)
        extra = ['verifier_stub', 'vstd_strlen', 'vstd_string_from', 'vstd_string_cstr']
    return Inst('c09_copy_and_verify_string_%s_%s' % (kind, recv), params, 'p.copy_and_verify_string(verifier);', cl, h, leaves=leaves, prop=PROP,
                root_name='copy_and_verify_string', tier=tier, pre=GH, pre_defines=OBJVIEW, post_protos=post, opts={'param_fn_stubs': {'*': 'verifier_stub'}, 'amp_star': True, 'volatile_read_check': True},
                extra_replace=extra, object_bits=12, nondet_volatile=True, loop_contracts=lcs, timeout=600,
                root_pick=lambda tu, fn, V=V: find_func(tu, 'copy_and_verify_string', None, lambda f, rn: V in f.get('mangledName', '') and (('16tainted_volatile' in f.get('mangledName', '').split('22copy_and_verify_string')[0]) == (recv == 'tainted_volatile'))),
                replay=None if kind == 'view' else {'kind': 'cav_string', 'verifier': kind, 'recv': recv, 'no_inputs': True}, may_not_compile=(kind == 'view'),
                note='strlen is an adversarial stub; %s verifier; receiver %s<char*>' % (kind, recv))


# ---- content of the snapshot (sequential view, no adversary): what the verifier sees is the guest-ABI decoding of the source bytes
GUEST = {'int': ('int', 'int', 4), 'long': ('long', 'int', 4), 'unsigned short': ('unsigned short', 'unsigned short', 2), 'unsigned long': ('unsigned long', 'unsigned int', 4), 'char': ('char', 'char', 1)}

GTYPE = {'int': 'int32_t', 'long': 'int32_t', 'unsigned short': 'uint16_t', 'unsigned long': 'uint32_t', 'char': 'char'}


def content_ptr_inst(pointee, tier):
    cty, gty, gb = GUEST[pointee]
    tag = pointee.replace(' ', '_')
    TT = cs('rlbox::tainted<%s *, rlbox::vsbx>' % pointee)
    cl = [('obj', '__CPROVER_requires(__CPROVER_r_ok((const struct %s *)$this, sizeof(struct %s)) && g_vcalls == 0 && g_news == 0)' % (TT, TT)),
          ('src', '__CPROVER_requires(((const struct %s *)$this)->data == 0 || (void *)((const struct %s *)$this)->data == g_src)' % (TT, TT)),
          ('src_obj', '__CPROVER_requires(__CPROVER_r_ok(g_src, %d))' % gb),
          ('verifier_runs_once_and_its_result_is_returned', '__CPROVER_ensures(g_vcalls == 1 && $ret == g_vret)'),
          ('frame', '__CPROVER_assigns(g_vcalls, g_new_bytes, g_news, g_new_ptr)')]
    h = MEM + ('  struct %s p; unsigned long in_off; _Bool in_null; __CPROVER_assume(in_off <= in_size - %d);\n'
               '  g_src = mem + in_off; p.data = in_null ? (%s *)0 : (%s *)(mem + in_off);\n  struct S_VC_%s vf;\n  int r = $ROOT((void *)&p, vf);\n' % (TT, gb, cty, cty, tag))
    req = '(arg == 0 ? g_null_src : (!g_null_src && (void *)arg == g_new_ptr && !__CPROVER_same_object(arg, g_sbx_mem) && MI(*arg) == MI(*(const %s *)g_src)))' % gty
    stub = vstub('%s *arg' % cty, req).replace('verifier_gets_null_or_a_fresh_application_object', 'verifier_gets_the_guest_decoding_of_the_source_bytes')
    h = h.replace('  struct S_VC_', '  g_null_src = in_null;\n  struct S_VC_')
    return Inst('c09_content_ptr_%s' % tag, 'tainted<%s*, vsbx>& p, VC_%s verifier' % (pointee, tag), 'p.copy_and_verify(verifier);', cl, h,
                leaves=['dynamic_check'], prop=PROP, root_name='copy_and_verify', tier=tier, pre=GH + ' void *g_src; _Bool g_null_src;\n', pre_defines=OBJVIEW, post_protos=stub,
                opts={'param_fn_stubs': {'*': 'verifier_stub'}, 'amp_star': True, 'volatile_read_check': True}, extra_replace=['verifier_stub'],
                replay={'kind': 'cav_content', 'ctype': pointee, 'gtype': GTYPE[pointee], 'no_inputs': True},
                note='pointee %s occupies %d guest bytes; every byte position in sandbox memory including the last %d bytes' % (pointee, gb, gb))


def content_range_inst(el, tier):
    cty, gty, gb = GUEST[el]
    tag = el.replace(' ', '_')
    TT = cs('rlbox::tainted<%s *, rlbox::vsbx>' % el)
    cl = [('obj', '__CPROVER_requires(__CPROVER_r_ok((const struct %s *)$this, sizeof(struct %s)) && g_vcalls == 0 && g_news == 0 && V_BACKEND_WF)' % (TT, TT)),
          ('ptr_inv', '__CPROVER_requires((uintptr_t)((const struct %s *)$this)->data == 0 || (V_IN(0, (uintptr_t)((const struct %s *)$this)->data) && (void *)((const struct %s *)$this)->data == g_src))' % (TT, TT, TT)),
          ('sandbox_memory_is_one_object', '__CPROVER_requires(__CPROVER_r_ok(g_sbx_mem, V_SIZE[0]) && (unsigned long)g_sbx_mem == V_BASE[0] && V_SIZE[1] == 0 && V_SIZE[0] <= 4096 && __CPROVER_same_object(g_src, g_sbx_mem))'),
          ('witness', '__CPROVER_requires(g_w < g_count)'),
          ('verifier_runs_once_and_its_result_is_returned', '__CPROVER_ensures(g_vcalls == 1 && $ret == g_vret)'),
          ('frame', '__CPROVER_assigns(g_vcalls, g_new_bytes, g_news, g_new_ptr, g_checked_bytes, g_checked_start)')]
    lc = ('__CPROVER_assigns($LV, __CPROVER_object_whole(g_new_ptr))\n'
          '__CPROVER_loop_invariant($LV <= $0)\n'
          '__CPROVER_loop_invariant(g_w < $LV ==> MI(((const %s *)g_new_ptr)[g_w]) == MI(((const %s *)g_src)[g_w]))\n'
          '__CPROVER_decreases($0 - $LV)' % (cty, gty))
    h = MEM + ('  struct %s p; unsigned long in_off; _Bool in_null; __CPROVER_assume(in_off < in_size);\n'
               '  g_src = mem + in_off; p.data = in_null ? (%s *)0 : (%s *)(mem + in_off);\n  struct S_VR_%s vf; unsigned long in_count; g_count = in_count; unsigned long in_w; __CPROVER_assume(in_w < in_count); g_w = in_w;\n'
               '  int r = $ROOT((void *)&p, vf, in_count);\n' % (TT, cty, cty, tag))
    req = '(arg == 0 || ((void *)arg == g_new_ptr && !__CPROVER_same_object(arg, g_sbx_mem) && g_new_bytes == g_count * sizeof(%s) && MI(arg[g_w]) == MI(((const %s *)g_src)[g_w])))' % (cty, gty)
    stub = vstub('%s *arg' % cty, req).replace('verifier_gets_null_or_a_fresh_application_object', 'verifier_gets_the_guest_decoding_of_every_element')
    return Inst('c09_content_range_%s' % tag, 'tainted<%s*, vsbx>& p, VR_%s verifier, size_t n' % (el, tag), 'p.copy_and_verify_range(verifier, n);', cl, h,
                leaves=['dynamic_check', CHECK_RANGE, 'vsbx.impl_is_in_same_sandbox'], prop=PROP, root_name='copy_and_verify_range', tier=tier,
                pre=GH + ' unsigned long g_count; unsigned long g_w; void *g_src;\n', pre_defines=OBJVIEW, post_protos=stub,
                opts={'param_fn_stubs': {'*': 'verifier_stub'}, 'amp_star': True, 'volatile_read_check': True}, extra_replace=['verifier_stub'], object_bits=12,
                loop_contracts={('copy_and_verify_range_helper', 0): lc}, timeout=900, replay={'kind': 'cav_content', 'ctype': el, 'gtype': GTYPE[el], 'range': True, 'no_inputs': True},
                note='element g_w is an arbitrary witness index: the loop invariant carries "every copied element equals the guest decoding of its source element"')


def content_insts(tier):
    ps = ['int', 'long', 'unsigned short'] if tier == 'quick' else list(GUEST)
    rs = ['long'] if tier == 'quick' else ['long', 'int', 'char', 'unsigned long']
    return [content_ptr_inst(p, tier) for p in ps] + [content_range_inst(r, tier) for r in rs]


def units(tier):
    insts = [cav_ptr_inst('int', 'int', 4, tier), cav_ptr_inst('long', 'long', 4, tier), cav_ptr_volatile_inst(tier), range_inst(tier),
             string_inst('uptr', 'tainted', tier), string_inst('std', 'tainted', tier), string_inst('uptr', 'tainted_volatile', tier), string_inst('view', 'tainted', tier),
             volatile_address_inst('buffer_address', 'long', 8, tier), volatile_address_inst('unverified_safe', 'int', 4, tier)] + content_insts(tier)
    insts.append(string_inst('std', 'tainted_volatile', tier))
    return [Unit('C09_snapshots', insts, extra_cpp=EXTRA_CPP)]


ASSUMPTIONS = [
    'adversarial-read model: every read of a volatile-qualified sandbox location and every strlen of sandbox memory returns an arbitrary value (over-approximates any schedule of a hostile writer thread)',
    'sandbox memory is one heap object of symbolic size 16..4096 bytes registered as the only live region (object view); allocations by make_unique are bounded by 4096 elements (VSTD_NEW_MAX_ELEMS)',
    'M-mem: std::unique_ptr as an owning raw pointer, std::make_unique as a fresh zero-initialised heap object (never null), std::string as the (pointer, length) of its constructing call',
    'the verifier is an arbitrary function that returns; its precondition is what RLBox must guarantee about the object it is handed',
    'volatile-receiver pointer form: 8 readable guard bytes follow the region (guard page), so that reading a pointee that starts on the last bytes of the region does not fault; the pointer itself is arbitrary at every read',
    'std::memcpy in these units is cbmc\'s own byte copy (with its pointer checks on source and destination ranges)',
    'the verifier-parameter kinds are those the pinned tree accepts (pointer to fresh copy, unique_ptr<char[]>, std::string, address); of the kinds it rejects one is watched: a std::string_view verifier of copy_and_verify_string is a snippet that must not compile (may_not_compile) and, on a tree where it does, must still be handed an application-memory object (seeded/W63); other new parameter kinds are not seen',
]
TRUSTED = ['goto-instrument --nondet-volatile as the model of concurrent modification', 'libstdc++ unique_ptr/string semantics (M-mem)']
MANIFEST = {
    'level_text': 'In the adversarial-read model each copy_and_verify variant is proved to call the verifier exactly once and to return its result, handing it either null or an object that this call allocated in application memory (not sandbox memory) of exactly the expected size: one element for the pointer form, count elements for the range form (copy loop closed by a loop contract), strlen+1 bytes for the string form with the terminator written inside that buffer and the buffer never longer than the range-checked length; at most one strlen of the source is taken. Nothing is read from the sandbox after the verifier runs on any path (the result is the verifier\'s).',
    'level_note': 'Object view with sandbox memory as one heap object of at most 4096 bytes and allocations of at most 4096 elements (stated bounds of the memory model, not of the loops). Known findings: copy_and_verify on tainted<long*> reads the pointee with the application width; copy_and_verify_string on a tainted_volatile<char*> receiver re-reads the pointer cell.',
}
