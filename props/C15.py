"""C15 - app-pointer tokens are non-zero, bounded, unique and resolve to their pointer.
Functions under contract: app_pointer_map::{app_pointer_map, get_unused_index, get_app_pointer_idx, remove_app_ptr,
lookup_index} (rlbox_app_pointer.hpp:30-90), app_pointer::{move ctor, operator=, unregister, ~app_pointer, to_tainted}
(rlbox_policy_types.hpp:176-272), rlbox_sandbox::get_app_pointer / lookup_app_ptr (rlbox_sandbox.hpp:987-1020).
Abstract view of the table: the M-map arrays present[token], val[token] over the whole token space."""
from vlib.unit import Unit, Inst, find_func, member_callees
from .common import cs, PRE_GHOST, mi, trait_inst

PROP = 'C15'
TITLE = 'App-pointer tokens are non-zero, bounded, unique and resolve to their pointer'
FUNCTIONS = ['app_pointer_map::get_unused_index, get_app_pointer_idx, remove_app_ptr, lookup_index, constructor (rlbox_app_pointer.hpp:30-90)',
             'app_pointer move constructor / move assignment / unregister / destructor / to_tainted (rlbox_policy_types.hpp:176-272)',
             'rlbox_sandbox::get_app_pointer, lookup_app_ptr (rlbox_sandbox.hpp:987-1020)']

TOK = {'unsigned char': ('unsigned char', 8), 'unsigned short': ('unsigned short', 16), 'unsigned int': ('unsigned int', 32), 'unsigned long': ('unsigned long', 64)}


def mp(t):
    return cs('rlbox::app_pointer_map<%s>' % t)


def tmax(t):
    return (1 << TOK[t][1]) - 1


def wf(this):
    return '(%s->pointer_map.present[0] && %s->counter >= 1)' % (this, this)


GHOST = PRE_GHOST + ' unsigned long g_k; unsigned long g_o;\n'


def unused_index_cl(t, this='$this', lim='$0', for_leaf=False):
    ct, bits = TOK[t]
    M = '%s->pointer_map' % this
    cl = [('obj', '__CPROVER_requires(__CPROVER_rw_ok(%s, sizeof(struct %s)))' % (this, mp(t))),
          ('well_formed', '__CPROVER_requires(%s && %s->counter <= %s + 1)' % (wf(this), this, lim)),
          ('limit_range', '__CPROVER_requires(%s >= 1 && MI(%s) < %s)' % (lim, lim, mi(tmax(t)))),
          ('noabort_pre', '__CPROVER_requires(g_noabort ==> (g_k >= 1 && g_k <= %s && !%s.present[g_k]))' % (lim, M)),
          ('token_nonzero_bounded', '__CPROVER_ensures($ret >= 1 && $ret <= %s)' % lim),
          ('token_was_free', '__CPROVER_ensures(!%s.present[$ret])' % M),
          ('cursor_advanced', '__CPROVER_ensures(%s->counter == $ret + 1)' % this),
          ('frame', '__CPROVER_assigns(%s->counter)' % this)]
    return cl


def unused_loops(t):
    M = '$this->pointer_map'
    l0 = ('__CPROVER_assigns($LV)\n'
          '__CPROVER_loop_invariant($LV >= __CPROVER_loop_entry($this->counter) && MI($LV) <= MI($0) + 1 && $this->counter == __CPROVER_loop_entry($this->counter))\n'
          '__CPROVER_loop_invariant((g_k >= __CPROVER_loop_entry($this->counter) && g_k < $LV) ==> %s.present[g_k])\n'
          '__CPROVER_decreases(MI($0) + 1 - MI($LV))' % M)
    l1 = ('__CPROVER_assigns($LV)\n'
          '__CPROVER_loop_invariant($LV >= 1 && $LV <= $this->counter && $this->counter == __CPROVER_loop_entry($this->counter))\n'
          '__CPROVER_loop_invariant((g_k >= 1 && g_k < $LV) ==> %s.present[g_k])\n'
          '__CPROVER_decreases(MI($this->counter) - MI($LV))' % M)
    return {('*root*', 0): l0, ('*root*', 1): l1}


def table_harness(t, extra=''):
    ct, bits = TOK[t]
    return ('  struct %s m; %s in_limit; unsigned long in_k, in_o; g_k = in_k; g_o = in_o;\n'
            '  _Bool in_noabort; g_noabort = in_noabort;\n' % (mp(t), ct)) + extra


def _scan_helper(tu, t):
    outer = find_func(tu, 'get_app_pointer_idx', 'rlbox::app_pointer_map<%s>' % t)
    cs_ = member_callees(tu, outer)
    if not cs_:
        raise Exception('get_app_pointer_idx calls no member function of app_pointer_map')
    return cs_[0]


def unused_index_inst(t, tier):
    # the private scan helper is identified as the first member function get_app_pointer_idx calls, not by its name
    pick = lambda tu, fn: _scan_helper(tu, t)
    h = table_harness(t) + '  %s r = $ROOT(&m, in_limit);\n' % TOK[t][0]
    return Inst('c15_get_unused_index_%s' % t.replace(' ', '_'), 'app_pointer_map<%s>& m, void* p, %s lim' % (t, t), 'm.get_app_pointer_idx(p, lim);',
                unused_index_cl(t), h, leaves=['dynamic_check'], prop=PROP, root_name=None, tier=tier, pre=GHOST, root_pick=pick,
                loop_contracts=unused_loops(t), note='two scans by loop contracts; witness token g_k instead of forall')


def _is(name):
    def p(fn, rec):
        return fn.get('name') == name
    return p


def get_idx_inst(t, tier):
    M = '$this->pointer_map'
    cl = [('obj', '__CPROVER_requires(__CPROVER_rw_ok($this, sizeof(struct %s)))' % mp(t)),
          ('well_formed', '__CPROVER_requires(%s && $this->counter <= $1 + 1)' % wf('$this')),
          ('limit_range', '__CPROVER_requires($1 >= 1 && MI($1) < %s)' % mi(tmax(t))),
          ('noabort_pre', '__CPROVER_requires(g_noabort ==> (g_k >= 1 && g_k <= $1 && !%s.present[g_k]))' % M),
          ('token_nonzero_bounded', '__CPROVER_ensures($ret >= 1 && $ret <= $1)'),
          ('token_fresh', '__CPROVER_ensures(g_o == $ret ==> !__CPROVER_old(%s.present[g_o]))' % M),
          ('token_resolves', '__CPROVER_ensures(%s.present[$ret] && %s.val[$ret] == $0)' % (M, M)),
          ('others_unchanged', '__CPROVER_ensures(g_o != $ret ==> (%s.present[g_o] == __CPROVER_old(%s.present[g_o]) && (%s.present[g_o] ==> %s.val[g_o] == __CPROVER_old(%s.val[g_o]))))' % (M, M, M, M, M)),
          ('well_formed_after', '__CPROVER_ensures(%s && $this->counter <= $1 + 1)' % wf('$this')),
          ('frame', '__CPROVER_assigns(*$this)')]
    scan_ids = set()

    def pick(tu, fn):
        # root: get_app_pointer_idx (as the snippet binds it); its scan helper is remembered by declaration id
        scan_ids.add(_scan_helper(tu, t)['id'])
        return find_func(tu, 'get_app_pointer_idx', 'rlbox::app_pointer_map<%s>' % t)
    leaf = ('scan helper of get_app_pointer_idx(contract)', lambda fn, rec: fn['id'] in scan_ids, unused_index_cl(t, for_leaf=True))
    h = table_harness(t, '  void *in_ptr;\n') + '  __CPROVER_assume(in_o <= %dUL);\n  %s r = $ROOT(&m, in_ptr, in_limit);\n' % (tmax(t), TOK[t][0])
    return Inst('c15_get_app_pointer_idx_%s' % t.replace(' ', '_'), 'app_pointer_map<%s>& m, void* p, %s lim' % (t, t), 'm.get_app_pointer_idx(p, lim);',
                cl, h, leaves=['dynamic_check', leaf], prop=PROP, root_name='get_app_pointer_idx', tier=tier, pre=GHOST, root_pick=pick)


def remove_inst(t, tier):
    M = '$this->pointer_map'
    cl = [('obj', '__CPROVER_requires(__CPROVER_rw_ok($this, sizeof(struct %s)))' % mp(t)),
          ('noabort_pre', '__CPROVER_requires(g_noabort ==> %s.present[$0])' % M),
          ('was_registered', '__CPROVER_ensures(__CPROVER_old(%s.present[$0]))' % M),
          ('released', '__CPROVER_ensures(!%s.present[$0])' % M),
          ('others_unchanged', '__CPROVER_ensures(g_o != $0 ==> (%s.present[g_o] == __CPROVER_old(%s.present[g_o]) && %s.val[g_o] == __CPROVER_old(%s.val[g_o])))' % (M, M, M, M)),
          ('frame', '__CPROVER_assigns(*$this)')]
    h = table_harness(t) + '  __CPROVER_assume(in_o <= %dUL);\n  %s in_tok;\n  $ROOT(&m, in_tok);\n' % (tmax(t), TOK[t][0])
    return Inst('c15_remove_app_ptr_%s' % t.replace(' ', '_'), 'app_pointer_map<%s>& m, %s tok' % (t, t), 'm.remove_app_ptr(tok);', cl, h,
                leaves=['dynamic_check'], prop=PROP, root_name='remove_app_ptr', tier=tier, pre=GHOST)


def lookup_inst(t, tier):
    M = '$this->pointer_map'
    cl = [('obj', '__CPROVER_requires(__CPROVER_r_ok($this, sizeof(struct %s)))' % mp(t)),
          ('noabort_pre', '__CPROVER_requires(g_noabort ==> %s.present[$0])' % M),
          ('registered_or_abort', '__CPROVER_ensures(%s.present[$0])' % M),
          ('resolves', '__CPROVER_ensures($ret == %s.val[$0])' % M),
          ('frame', '__CPROVER_assigns()')]
    h = table_harness(t) + '  %s in_tok;\n  void *r = $ROOT(&m, in_tok);\n' % TOK[t][0]
    return Inst('c15_lookup_index_%s' % t.replace(' ', '_'), 'app_pointer_map<%s>& m, %s tok' % (t, t), 'm.lookup_index(tok);', cl, h,
                leaves=['dynamic_check'], prop=PROP, root_name='lookup_index', tier=tier, pre=GHOST)


def ctor_inst(t, tier):
    cl = [('token0_reserved', '__CPROVER_ensures($ret.pointer_map.present[0])'),
          ('cursor_starts_at_1', '__CPROVER_ensures($ret.counter == 1)'),
          ('empty_otherwise', '__CPROVER_ensures((g_o >= 1 && g_o <= %dUL) ==> !$ret.pointer_map.present[g_o])' % tmax(t)),
          ('frame', '__CPROVER_assigns()')]
    h = '  unsigned long in_o; g_o = in_o;\n  struct %s m = $ROOT();\n' % mp(t)
    pick = lambda tu, fn: find_func(tu, 'app_pointer_map', 'rlbox::app_pointer_map<%s>' % t)
    return Inst('c15_table_constructor_%s' % t.replace(' ', '_'), '', 'app_pointer_map<%s> m; (void)m;' % t, cl, h, leaves=[], prop=PROP, root_name='app_pointer_map',
                tier=tier, pre=GHOST, root_pick=pick)


# ---------------------------------------------------------------- owner objects
AP = cs('rlbox::app_pointer<int *, rlbox::vsbx>')
OWNER_GHOST = GHOST + '''
unsigned int g_removed_tok; unsigned g_removes; unsigned long g_removed_map;
'''
REMOVE_STUB = ('app_pointer_map::remove_app_ptr(stub)', _is('remove_app_ptr'),
               '__CPROVER_ensures(g_removed_tok == $0 && g_removed_map == (unsigned long)$this && g_removes == __CPROVER_old(g_removes) + 1)\n'
               '__CPROVER_assigns(g_removed_tok, g_removed_map, g_removes)')
OWNER_H = ('  struct %s p; unsigned int in_idx = p.idx; unsigned long in_map = (unsigned long)p.map; g_removes = 0; g_noabort = 0;\n' % AP)


def released(idx_old, map_old):
    return '(g_removes == 1 && g_removed_tok == %s && g_removed_map == (unsigned long)%s)' % (idx_old, map_old)


def owner_insts(tier):
    out = []
    # base case of the owner invariant: a default-constructed owner is empty (every field, whatever the storage held before)
    cl = [('a_fresh_owner_is_empty', '__CPROVER_ensures($ret.idx == 0 && $ret.map == 0 && $ret.idx_unsandboxed == 0)'), ('frame', '__CPROVER_assigns()')]
    out.append(Inst('c15_owner_default_constructor', '', 'app_pointer<int*, vsbx> p; (void)p;', cl, '  struct %s p = $ROOT();\n' % AP, leaves=[], prop=PROP, root_name='app_pointer',
                    tier=tier, pre=OWNER_GHOST, root_pick=lambda tu, fn: find_func(tu, 'app_pointer', 'rlbox::app_pointer<int *, rlbox::vsbx>', lambda f, rn: f['type']['qualType'].startswith('void ()'))))
    OLDI, OLDM = '__CPROVER_old($this->idx)', '__CPROVER_old($this->map)'
    inert = '($this->idx == 0 && $this->map == 0 && $this->idx_unsandboxed == 0)'
    for form in ('unregister', 'destructor'):
        cl = [('obj', '__CPROVER_requires(__CPROVER_rw_ok($this, sizeof(struct %s)) && g_removes == 0)' % AP),
              ('live_owner_releases_its_token', '__CPROVER_ensures(%s != 0 ==> %s)' % (OLDI, released(OLDI, OLDM))),
              ('inert_owner_releases_nothing', '__CPROVER_ensures(%s == 0 ==> g_removes == 0)' % OLDI),
              ('inert_afterwards', '__CPROVER_ensures(%s != 0 ==> %s)' % (OLDI, inert)),
              ('frame', '__CPROVER_assigns(*$this, g_removed_tok, g_removed_map, g_removes)')]
        expr = 'p.unregister();' if form == 'unregister' else 'p.~app_pointer();'
        rn = 'unregister' if form == 'unregister' else '~app_pointer'
        out.append(Inst('c15_owner_%s' % form, 'app_pointer<int*, vsbx>& p', expr, cl, OWNER_H + '  $ROOT(&p);\n', leaves=['dynamic_check', REMOVE_STUB], prop=PROP,
                        root_name=rn, tier=tier, pre=OWNER_GHOST))
    # move construction: ownership transferred, source inert, nothing released
    cl = [('obj', '__CPROVER_requires(__CPROVER_rw_ok($0, sizeof(struct %s)) && g_removes == 0)' % AP),
          ('transferred', '__CPROVER_ensures($ret.idx == __CPROVER_old($0->idx) && $ret.map == __CPROVER_old($0->map) && $ret.idx_unsandboxed == __CPROVER_old($0->idx_unsandboxed))'),
          ('source_inert', '__CPROVER_ensures($0->idx == 0 && $0->map == 0 && $0->idx_unsandboxed == 0)'),
          ('nothing_released', '__CPROVER_ensures(g_removes == 0)'),
          ('frame', '__CPROVER_assigns(*$0)')]
    pick = lambda tu, fn: find_func(tu, 'app_pointer', 'rlbox::app_pointer<int *, rlbox::vsbx>', lambda f, rn_: '&&' in f['type']['qualType'])
    out.append(Inst('c15_owner_move_construct', 'app_pointer<int*, vsbx>& p', 'app_pointer<int*, vsbx> q(std::move(p)); (void)q;', cl,
                    OWNER_H + '  struct %s q = $ROOT(&p);\n' % AP, leaves=['dynamic_check', REMOVE_STUB], prop=PROP, root_name='app_pointer', tier=tier,
                    pre=OWNER_GHOST, root_pick=pick))
    # move assignment: the overwritten owner releases its token, then ownership is transferred
    cl = [('objs', '__CPROVER_requires(__CPROVER_rw_ok($this, sizeof(struct %s)) && __CPROVER_rw_ok($0, sizeof(struct %s)) && $this != $0 && g_removes == 0)' % (AP, AP)),
          ('overwritten_live_owner_releases_its_token', '__CPROVER_ensures(%s != 0 ==> %s)' % (OLDI, released(OLDI, OLDM))),
          ('overwritten_inert_owner_releases_nothing', '__CPROVER_ensures(%s == 0 ==> g_removes == 0)' % OLDI),
          ('transferred', '__CPROVER_ensures($this->idx == __CPROVER_old($0->idx) && $this->map == __CPROVER_old($0->map) && $this->idx_unsandboxed == __CPROVER_old($0->idx_unsandboxed))'),
          ('source_inert', '__CPROVER_ensures($0->idx == 0 && $0->map == 0)'),
          ('returns_self', '__CPROVER_ensures((void *)$ret == (void *)$this)'),
          ('frame', '__CPROVER_assigns(*$this, *$0, g_removed_tok, g_removed_map, g_removes)')]
    out.append(Inst('c15_owner_move_assign', 'app_pointer<int*, vsbx>& p, app_pointer<int*, vsbx>& q', 'p = std::move(q);', cl,
                    OWNER_H + '  struct %s q; unsigned int in_qidx = q.idx;\n  $ROOT(&p, &q);\n' % AP, leaves=['dynamic_check', REMOVE_STUB], prop=PROP,
                    root_name='operator=', tier=tier, pre=OWNER_GHOST, replay={'kind': 'app_ptr_move_assign', 'no_inputs': True}))
    # self-assignment is a no-op
    cl = [('obj', '__CPROVER_requires(__CPROVER_rw_ok($this, sizeof(struct %s)) && $this == $0 && g_removes == 0)' % AP),
          ('unchanged', '__CPROVER_ensures($this->idx == __CPROVER_old($this->idx) && $this->map == __CPROVER_old($this->map) && g_removes == 0)'),
          ('frame', '__CPROVER_assigns(*$this, g_removed_tok, g_removed_map, g_removes)')]
    out.append(Inst('c15_owner_self_move_assign', 'app_pointer<int*, vsbx>& p, app_pointer<int*, vsbx>& q', 'p = std::move(q);', cl,
                    OWNER_H + '  $ROOT(&p, &p);\n', leaves=['dynamic_check', REMOVE_STUB], prop=PROP, root_name='operator=', tier=tier, pre=OWNER_GHOST))
    # to_tainted: designates the fabricated in-sandbox address of the token
    cl = [('obj', '__CPROVER_requires(__CPROVER_r_ok($this, sizeof(struct %s)))' % AP),
          ('designates_token_address', '__CPROVER_ensures((uintptr_t)$ret.data == (uintptr_t)$this->idx_unsandboxed)'),
          ('frame', '__CPROVER_assigns()')]
    out.append(Inst('c15_owner_to_tainted', 'app_pointer<int*, vsbx>& p', 'p.to_tainted();', cl, OWNER_H + '  struct %s r = $ROOT(&p);\n' % cs('rlbox::tainted<int *, rlbox::vsbx>'),
                    leaves=[], prop=PROP, root_name='to_tainted', tier=tier, pre=OWNER_GHOST))
    return out


def sandbox_insts(tier):
    """rlbox_sandbox::get_app_pointer / lookup_app_ptr over the table contracts (32-bit tokens of vsbx)"""
    from .C03 import REGIONS, SB_DECL, sb_req, SB
    out = []
    IDX_LEAF = ('app_pointer_map::get_app_pointer_idx(contract, numeric part)', _is('get_app_pointer_idx'),
                '__CPROVER_requires($1 >= 1)\n__CPROVER_requires(g_exp_ptr == 0 || (unsigned long)$0 == g_exp_ptr)\n'
                '__CPROVER_ensures($ret >= 1 && $ret <= $1)\n__CPROVER_ensures(g_issued == $ret)\n__CPROVER_assigns(g_issued)')
    LOOKUP_LEAF = ('app_pointer_map::lookup_index(contract)', _is('lookup_index'),
                   '__CPROVER_ensures(g_looked_up == $0 && (unsigned long)$ret == g_lookup_result)\n__CPROVER_assigns(g_looked_up)')
    G = GHOST + ' unsigned int g_issued; unsigned long g_exp_ptr; unsigned int g_looked_up; unsigned long g_lookup_result;\n'
    cl = sb_req('$this') + [
        ('sandbox_has_room', '__CPROVER_requires(V_SIZE[$this->base0.slot] >= 2)'),
        ('ghost', '__CPROVER_requires(g_exp_ptr == (unsigned long)$0 && !g_noabort)'),
        ('token_nonzero', '__CPROVER_ensures($ret.idx != 0 && $ret.idx == g_issued)'),
        ('token_within_address_range', '__CPROVER_ensures(MI($ret.idx) <= MI(V_SIZE[$this->base0.slot]) - 1)'),
        ('fabricated_address_inside', '__CPROVER_ensures(V_IN($this->base0.slot, (uintptr_t)$ret.idx_unsandboxed))'),
        ('owner_bound_to_this_table', '__CPROVER_ensures((void *)$ret.map == (void *)&$this->app_ptr_map)'),
        ('frame', '__CPROVER_assigns(g_issued)')]
    h = REGIONS + SB_DECL + '  uintptr_t in_ptr; g_exp_ptr = in_ptr; g_noabort = 0;\n  struct %s r = $ROOT(&sb, (int *)in_ptr);\n' % AP
    out.append(Inst('c15_get_app_pointer', 'rlbox_sandbox<vsbx>& s, int* p', 's.get_app_pointer(p);', cl, h,
                    leaves=['dynamic_check', IDX_LEAF, 'vsbx.impl_get_total_memory', 'vsbx.impl_get_unsandboxed_pointer', 'vsbx.impl_is_pointer_in_sandbox_memory'],
                    prop=PROP, root_name='get_app_pointer', tier=tier, pre=G))
    TT = cs('rlbox::tainted<int *, rlbox::vsbx>')
    cl = sb_req('$this') + [
        ('ptr_inv', '__CPROVER_requires((uintptr_t)$0.data == 0 || V_IN($this->base0.slot, (uintptr_t)$0.data))'),
        ('looks_up_the_guest_representation', '__CPROVER_ensures(MI(g_looked_up) == ((uintptr_t)$0.data == 0 ? MI(0) : MI((uintptr_t)$0.data) - MI(V_BASE[$this->base0.slot])))'),
        ('returns_table_entry', '__CPROVER_ensures((unsigned long)$ret == g_lookup_result)'),
        ('frame', '__CPROVER_assigns(g_looked_up)')]
    from .C04 import S_CTX_LEAF
    h = REGIONS + SB_DECL + '  struct %s t; uintptr_t in_p; t.data = (int *)in_p; unsigned long in_res; g_lookup_result = in_res;\n  void *r = (void *)$ROOT(&sb, t);\n' % TT
    out.append(Inst('c15_lookup_app_ptr', 'rlbox_sandbox<vsbx>& s, tainted<int*, vsbx> t', 's.lookup_app_ptr(t);', cl, h,
                    leaves=['dynamic_check', LOOKUP_LEAF, S_CTX_LEAF], prop=PROP, root_name='lookup_app_ptr', tier=tier, pre=G))
    return out


def units(tier):
    insts = []
    # 16-bit tokens (65536-entry view) were measured to time out under dfcc on every back end (>120 s per instance): not claimed
    for t in ['unsigned char']:
        insts += [unused_index_inst(t, tier), get_idx_inst(t, tier), remove_inst(t, tier), lookup_inst(t, tier), ctor_inst(t, tier)]
    insts += owner_insts(tier) + sandbox_insts(tier)
    # the ownership argument (one owner per token) relies on there being no other way to make an owner: not copyable
    insts.append(trait_inst('c15_owner_is_not_copyable', PROP, 'std::is_copy_constructible_v<app_pointer<int*, vsbx>> || std::is_copy_assignable_v<app_pointer<int*, vsbx>>', 0,
                            'a_token_owner_cannot_be_copied', tier))
    return [Unit('C15_app_pointer_tokens', insts)]


ASSUMPTIONS = [
    'M-map: std::map<token, void*> behaves as a partial function token -> pointer (find/end/operator[]/erase modelled on the arrays present[], val[])',
    'the limit passed by the sandbox satisfies 1 <= limit < max(token type) (limit == max makes the first scan wrap; outside the statement\'s range 1..254 at 8 bits)',
]
TRUSTED = ['the array view of std::map (vlib/models.py, M-map)']
MANIFEST = {
    'level_text': 'The token table is verified against its abstract view (a partial function token -> pointer): registration returns a token in 1..limit that was free, makes exactly that token resolve to the pointer and leaves every other token unchanged (ghost witness index), aborting only when every token in 1..limit is in use; lookup returns the registered pointer or aborts; release removes exactly the token. The two scans of get_unused_index are closed by loop contracts (inductive invariants, decreases clauses), so the result holds for every table state and every limit - no bound on histories. Token type uint8 with all limits 1..254 symbolic.',
    'level_note': 'Assumes the M-map model of std::map. 16/32/64-bit token types use the same instantiated code with a wider key (16-bit: the 65536-entry view times out; wider: dfcc cannot frame writes into an unbounded array view, measured, DESIGN.md section 2), so they are not claimed here. Owner objects (app_pointer move/destroy) are separate instances. A default-constructed owner is empty and owners are not copyable (type traits of the real class).',
}
