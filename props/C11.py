"""C11 - sandbox function invocation delivers arguments and results faithfully (reduced claim, DESIGN.md C11).
Functions under contract: rlbox_sandbox::invoke_process_param (rlbox_sandbox.hpp:183-213) per argument kind,
INTERNAL_invoke_with_func_ptr (750-811) for a generated family of signatures (parameter packs arrive expanded),
INTERNAL_get_sandbox_function_ptr (973-977).  The backend call itself (impl_invoke_with_func_ptr) is a contract stub
that records how often, with which function address and with which guest-ABI arguments it was called."""
from vlib.unit import Unit, Inst, find_func
import vlib.replay_c09  # registers native replay kinds (invoke)
from .common import cs, PRE_GHOST, mi
from .C03 import REGIONS, SB_DECL, sb_req, SB

PROP = 'C11'
TITLE = 'Sandbox function invocation delivers arguments and results faithfully'
FUNCTIONS = ['rlbox_sandbox::INTERNAL_invoke_with_func_ptr (rlbox_sandbox.hpp:750-811)', 'rlbox_sandbox::lookup_symbol, internal_lookup_symbol, INTERNAL_invoke_with_func_name (696-743)', 'rlbox_sandbox::invoke_process_param (183-213)',
             'rlbox_sandbox::INTERNAL_get_sandbox_function_ptr (973-977)']

# parameter kinds: name -> dict(decl type in signature, C++ snippet param, harness decl, expected guest value expr, guest C type, no-abort condition)
I32 = (-(2 ** 31), 2 ** 31 - 1)


def kinds(i):
    v = 'a%d' % i
    TL = cs('rlbox::tainted<long, rlbox::vsbx>')
    TP = cs('rlbox::tainted<int *, rlbox::vsbx>')
    TO = cs('rlbox::tainted_opaque<long, rlbox::vsbx>')
    TU = cs('rlbox::tainted<unsigned long, rlbox::vsbx>')
    P = '$%d' % (i + 2)
    return {
        'long_plain': dict(sig='long', cxx='long %s' % v, decl='  long %s; long in_%s = %s;\n' % (v, v, v), gt='int',
                           expect='MI(*%s)' % P, fits='(MI(*%s) >= %s && MI(*%s) <= %s)' % (P, mi(I32[0]), P, mi(I32[1]))),
        'long_tainted': dict(sig='long', cxx='tainted<long, vsbx>& %s' % v, decl='  struct %s %s; long in_%s = %s.data;\n' % (TL, v, v, v), gt='int',
                             expect='MI(%s->data)' % P, fits='(MI(%s->data) >= %s && MI(%s->data) <= %s)' % (P, mi(I32[0]), P, mi(I32[1]))),
        'long_opaque': dict(sig='long', cxx='tainted_opaque<long, vsbx>& %s' % v, decl='  struct %s %s; long in_%s = %s.data;\n' % (TO, v, v, v), gt='int',
                            expect='MI(%s->data)' % P, fits='(MI(%s->data) >= %s && MI(%s->data) <= %s)' % (P, mi(I32[0]), P, mi(I32[1]))),
        'ulong_tainted': dict(sig='unsigned long', cxx='tainted<unsigned long, vsbx>& %s' % v, decl='  struct %s %s; unsigned long in_%s = %s.data;\n' % (TU, v, v, v), gt='unsigned int',
                              expect='MI(%s->data)' % P, fits='(MI(%s->data) <= %s)' % (P, mi(2 ** 32 - 1))),
        'int_plain': dict(sig='int', cxx='int %s' % v, decl='  int %s; int in_%s = %s;\n' % (v, v, v), gt='int', expect='MI(*%s)' % P, fits='1'),
        'ptr_tainted': dict(sig='int*', cxx='tainted<int*, vsbx>& %s' % v, decl='  struct %s %s; uintptr_t in_%s; %s.data = (int *)in_%s;\n' % (TP, v, v, v, v), gt='unsigned int',
                            expect='((uintptr_t)%s->data == 0 ? MI(0) : MI((uintptr_t)%s->data) - MI(V_BASE[$this->base0.slot]))' % (P, P),
                            fits='1', pre='((uintptr_t)%s->data == 0 || V_IN($this->base0.slot, (uintptr_t)%s->data))' % (P, P)),
        # a tainted sandbox-function address as argument: must reach the callee in the backend's *function-pointer* representation
        'fnptr_tainted': dict(sig='int(*)(long)', cxx='tainted<int(*)(long), vsbx>& %s' % v,
                              decl='  struct %s %s; uintptr_t in_%s; %s.data = (void *)in_%s;\n' % (cs('rlbox::tainted<int (*)(long), rlbox::vsbx>'), v, v, v, v), gt='unsigned int',
                              expect='((uintptr_t)%s->data == 0 ? MI(0) : MI(g_fn_repr))' % P, fits='1',
                              post='((uintptr_t)%s->data != 0 ==> (g_fn_swizzles == 1 && g_fn_swizzled == (uintptr_t)%s->data))' % (P, P)),
        'nullptr': dict(sig='int*', cxx='std::nullptr_t %s' % v, decl='  void *%s = (void *)0;\n' % v, gt='unsigned int', expect='MI(0)', fits='1'),
    }


RETS = {
    'void': dict(sig='void', gt=None),
    'int': dict(sig='int', gt='int', res='MI($ret.data) == MI((int)g_guest_ret)', rs=lambda: cs('rlbox::tainted<int, rlbox::vsbx>')),
    'long': dict(sig='long', gt='int', res='MI($ret.data) == MI((int)g_guest_ret)', rs=lambda: cs('rlbox::tainted<long, rlbox::vsbx>')),
    # a function-pointer result comes back through the backend's *function-pointer* translation (abstract host address g_fn_host)
    'fnptr': dict(sig='std::add_pointer_t<int(long)>', gt='unsigned int',
                  res='((unsigned int)g_guest_ret == 0 ? (uintptr_t)$ret.data == 0 : ((unsigned long)$ret.data == g_fn_host && g_fn_unswizzles == 1 && g_fn_unswizzled == (unsigned int)g_guest_ret))',
                  rs=lambda: cs('rlbox::tainted<int (*)(long), rlbox::vsbx>')),
    'ptr': dict(sig='int*', gt='unsigned int',
                res='((unsigned int)g_guest_ret == 0 ? (uintptr_t)$ret.data == 0 : (V_IN($this->base0.slot, (uintptr_t)$ret.data) && ((unsigned int)g_guest_ret < V_SIZE[$this->base0.slot] ==> (uintptr_t)$ret.data == V_BASE[$this->base0.slot] + (unsigned int)g_guest_ret)))',
                rs=lambda: cs('rlbox::tainted<int *, rlbox::vsbx>')),
}


def _is(name):
    def p(fn, rec):
        return fn.get('name') == name
    return p


def invoke_inst(pkinds, rkind, tier):
    n = len(pkinds)
    ks = [kinds(i)[k] for i, k in enumerate(pkinds)]
    ret = RETS[rkind]
    fsig = '%s(%s)' % (ret['sig'], ', '.join(k['sig'] for k in ks))
    ghost = PRE_GHOST + ' unsigned g_calls; unsigned long g_fn; long g_guest_ret; unsigned g_fn_swizzles; unsigned long g_fn_swizzled; unsigned int g_fn_repr; unsigned g_fn_unswizzles; unsigned int g_fn_unswizzled; unsigned long g_fn_host; ' + ' '.join('long g_arg%d;' % i for i in range(n)) + '\n'
    # backend stub: records the call
    stub_ens = ['g_calls == __CPROVER_old(g_calls) + 1', 'g_fn == (unsigned long)$0'] + ['MI(g_arg%d) == MI(*$%d)' % (i, i + 1) for i in range(n)]
    if ret['gt']:
        stub_ens.append('$ret == (%s)g_guest_ret' % ret['gt'])
    stub = ('backend impl_invoke_with_func_ptr(recording stub)', _is('impl_invoke_with_func_ptr'),
            '__CPROVER_ensures(%s)\n__CPROVER_assigns(g_calls, g_fn%s)' % (' && '.join(stub_ens), ''.join(', g_arg%d' % i for i in range(n))))
    cl = sb_req('$this') + [('fresh_ghost', '__CPROVER_requires(g_calls == 0 && g_backend_nonnull)')]
    for i, k in enumerate(ks):
        if 'pre' in k:
            cl.append(('arg%d_inv' % i, '__CPROVER_requires(%s)' % k['pre']))
    cl.append(('noabort_pre', '__CPROVER_requires(g_noabort ==> (%s))' % (' && '.join(k['fits'] for k in ks) or '1')))
    cl.append(('called_exactly_once', '__CPROVER_ensures(g_calls == 1)'))
    cl.append(('the_function_that_was_named', '__CPROVER_ensures(g_fn == (unsigned long)$1)'))
    for i, k in enumerate(ks):
        cl.append(('arg%d_in_guest_abi' % i, '__CPROVER_ensures(MI((%s)g_arg%d) == %s)' % (k['gt'], i, k['expect'])))
    if ret['gt']:
        cl.append(('result_converted_back', '__CPROVER_ensures(%s)' % ret['res']))
    for i, k in enumerate(ks):
        if 'post' in k:
            cl.append(('arg%d_swizzled_as_function_pointer' % i, '__CPROVER_ensures(%s)' % k['post']))
    cl.append(('frame', '__CPROVER_assigns(g_calls, g_fn, g_fn_swizzles, g_fn_swizzled, g_fn_unswizzles, g_fn_unswizzled%s)' % ''.join(', g_arg%d' % i for i in range(n))))
    h = REGIONS + SB_DECL + ''.join(k['decl'] for k in ks)
    h += '  g_fn_swizzles = 0; unsigned int in_fn_repr; g_fn_repr = in_fn_repr; g_fn_unswizzles = 0; unsigned long in_fn_host; __CPROVER_assume(in_fn_host != 0); g_fn_host = in_fn_host;\n'
    h += '  g_calls = 0; long in_guest_ret; g_guest_ret = in_guest_ret; uintptr_t in_fn;\n'
    args = ''.join(', &a%d' % i for i in range(n))
    if ret['gt']:
        h += '  struct %s r = $ROOT(&sb, "f", (void *)in_fn%s);\n' % (ret['rs'](), args)
    else:
        h += '  $ROOT(&sb, "f", (void *)in_fn%s);\n' % args
    params = 'rlbox_sandbox<vsbx>& s, void* fp' + ''.join(', ' + k['cxx'] for k in ks)
    call = 's.INTERNAL_invoke_with_func_ptr<%s>("f", fp%s);' % (fsig, ''.join(', a%d' % i for i in range(n)))
    name = 'c11_invoke_%s__%s' % (rkind, '_'.join(pkinds) if pkinds else 'noargs')
    # A_backend, function-pointer form: impl_get_sandboxed_pointer<T> with T a function-pointer type yields the backend's
    # function-pointer representation (an arbitrary value g_fn_repr here), not the data-pointer swizzle
    fn_swz = ('vsbx.impl_get_sandboxed_pointer<function pointer>(A_backend)',
              lambda fn, rec: fn.get('name') == 'impl_get_sandboxed_pointer' and 'IPF' in fn.get('mangledName', ''),
              '__CPROVER_requires($0 != 0)\n__CPROVER_ensures($ret == g_fn_repr && g_fn_swizzles == __CPROVER_old(g_fn_swizzles) + 1 && g_fn_swizzled == (uintptr_t)$0)\n'
              '__CPROVER_assigns(g_fn_swizzles, g_fn_swizzled)')
    fn_unswz = ('vsbx.impl_get_unsandboxed_pointer<function pointer>(A_backend)',
                lambda fn, rec: fn.get('name') == 'impl_get_unsandboxed_pointer' and 'IPF' in fn.get('mangledName', ''),
                '__CPROVER_requires($0 != 0)\n__CPROVER_ensures((unsigned long)$ret == g_fn_host && g_fn_unswizzles == __CPROVER_old(g_fn_unswizzles) + 1 && g_fn_unswizzled == $0)\n'
                '__CPROVER_assigns(g_fn_unswizzles, g_fn_unswizzled)')
    leaves = ['dynamic_check', stub, fn_swz, fn_unswz, 'vsbx.impl_get_sandboxed_pointer', 'vsbx.impl_get_unsandboxed_pointer']
    return Inst(name, params, call, cl, h, leaves=leaves, prop=PROP, root_name='INTERNAL_invoke_with_func_ptr', tier=tier, pre=ghost,
                replay={'kind': 'invoke', 'params': list(pkinds), 'ret': rkind}, note='signature %s with argument forms %s' % (fsig, pkinds), timeout=300)


def fnptr_inst(tier):
    TT = cs('rlbox::tainted<int (*)(long), rlbox::vsbx>')
    cl = [('same_address_bits', '__CPROVER_ensures((unsigned long)$ret.data == (unsigned long)$0)'), ('frame', '__CPROVER_assigns()')]
    h = '  struct %s sb; uintptr_t in_fn;\n  struct %s r = $ROOT(&sb, (void *)in_fn);\n' % (SB, TT)
    return Inst('c11_get_sandbox_function_ptr', 'rlbox_sandbox<vsbx>& s, void* fp', 's.INTERNAL_get_sandbox_function_ptr<int(long)>(fp);', cl, h, leaves=[], prop=PROP,
                root_name='INTERNAL_get_sandbox_function_ptr', tier=tier, pre=PRE_GHOST)


# ---------------------------------------------------------------- symbol cache (lookup_symbol / internal_lookup_symbol)
SYM_GH = PRE_GHOST + ''' unsigned char g_name_id; unsigned long g_name; unsigned g_be_lookups; unsigned long g_be_lookup_name, g_be_lookup_result; unsigned char g_o;
struct M_string vstd_string_cstr(const char *s)
__CPROVER_ensures(__CPROVER_return_value.src == s)
__CPROVER_assigns();
/* content of a name abstracted to an id: the one name of this call has id g_name_id (any other name has another id) */
unsigned char vstd_str_id(struct M_string k)
__CPROVER_requires((unsigned long)k.src == g_name) /*@key_is_the_name_that_was_asked_for*/
__CPROVER_ensures(__CPROVER_return_value == g_name_id)
__CPROVER_assigns();
'''


def lookup_inst(fn_name, tier, be_cls='vsbx'):
    """lookup_symbol caches in func_ptr_map (addresses the application calls), internal_lookup_symbol in internal_func_ptr_map
    (addresses as the sandbox sees them); be_cls vsbx_il: a backend for which the two differ (needs_internal_lookup_symbol)"""
    internal = fn_name == 'internal_lookup_symbol'
    M = '$this->%s' % ('internal_func_ptr_map' if internal else 'func_ptr_map')
    OTHER = '$this->%s' % ('func_ptr_map' if internal else 'internal_func_ptr_map')
    SBX = cs('rlbox::rlbox_sandbox<rlbox::%s>' % be_cls)
    be_fn = 'impl_internal_lookup_symbol' if (internal and be_cls == 'vsbx_il') else 'impl_lookup_symbol'
    wrong_fn = 'impl_lookup_symbol' if be_fn == 'impl_internal_lookup_symbol' else 'impl_internal_lookup_symbol'
    be = ('backend %s(recording stub)' % be_fn, _is(be_fn),
          '__CPROVER_requires(!((struct %s *)g_obj)->%s.present[g_name_id]) /*@nothing_is_cached_for_the_name_while_the_backend_may_still_refuse_it*/\n'
          '__CPROVER_ensures(g_be_lookups == __CPROVER_old(g_be_lookups) + 1 && g_be_lookup_name == (unsigned long)$0 && (unsigned long)$ret == g_be_lookup_result)\n'
          '__CPROVER_assigns(g_be_lookups, g_be_lookup_name)' % (SBX, 'internal_func_ptr_map' if internal else 'func_ptr_map'))
    other = ('backend %s(must not be used here)' % wrong_fn, _is(wrong_fn), '__CPROVER_requires(0) /*@the_other_kind_of_lookup_is_never_used*/\n__CPROVER_assigns()')
    cl = [('obj', '__CPROVER_requires(__CPROVER_rw_ok($this, sizeof(struct %s)) && g_be_lookups == 0 && g_name == (unsigned long)$0)' % SBX),
          ('cached_name_answered_from_this_instances_cache', '__CPROVER_ensures(__CPROVER_old(%s.present[g_name_id]) ==> ((unsigned long)$ret == (unsigned long)__CPROVER_old(%s.val[g_name_id]) && g_be_lookups == 0))' % (M, M)),
          ('new_name_resolved_once_by_this_instances_backend', '__CPROVER_ensures(!__CPROVER_old(%s.present[g_name_id]) ==> (g_be_lookups == 1 && g_be_lookup_name == (unsigned long)$0 && (unsigned long)$ret == g_be_lookup_result))' % M),
          ('answer_is_cached', '__CPROVER_ensures(%s.present[g_name_id] && (unsigned long)%s.val[g_name_id] == (unsigned long)$ret)' % (M, M)),
          ('other_names_unchanged', '__CPROVER_ensures(g_o != g_name_id ==> (%s.present[g_o] == __CPROVER_old(%s.present[g_o]) && %s.val[g_o] == __CPROVER_old(%s.val[g_o])))' % (M, M, M, M)),
          # the frame leaves the other cache out: application-side addresses and sandbox-side representations never mix
          ('frame_only_its_own_cache', '__CPROVER_assigns(%s, g_be_lookups, g_be_lookup_name)' % M)]
    h = ('  struct %s sb; uintptr_t in_name; g_name = in_name; unsigned char in_id; g_name_id = in_id; unsigned char in_o; g_o = in_o;\n'
         '  unsigned long in_res; g_be_lookup_result = in_res; g_be_lookups = 0; g_obj = &sb;\n  void *r = (void *)$ROOT(&sb, (const char *)in_name);\n' % SBX)
    return Inst('c11_%s%s' % (fn_name, '' if be_cls == 'vsbx' else '_distinct_representations'), 'rlbox_sandbox<%s>& s, const char* n' % be_cls, 's.%s(n);' % fn_name, cl, h,
                leaves=['dynamic_check', be, other], prop=PROP, root_name=fn_name,
                tier=tier, pre=SYM_GH + ' void *g_obj;', opts={'map_str_keys': True}, extra_replace=['vstd_string_cstr', 'vstd_str_id'],
                note='std::map<std::string, void*> as an array view over abstract name ids (M-map, string keys); the caches are members of this sandbox object; backend %s' % be_cls)


def addr_by_name_inst(tier):
    """INTERNAL_get_sandbox_function_name (sandbox_function_address in by-name mode): the tainted address is what
    internal_lookup_symbol of this instance returns for that name - the sandbox-side representation, never the host entry point"""
    TF = cs('rlbox::tainted<int (*)(long), rlbox::vsbx>')
    G = PRE_GHOST + ' unsigned g_ilookups; unsigned long g_ilookup_name, g_isym, g_ilookup_this;\n'
    ilk = ('rlbox_sandbox::internal_lookup_symbol(contract)', _is('internal_lookup_symbol'),
           '__CPROVER_ensures(g_ilookups == __CPROVER_old(g_ilookups) + 1 && g_ilookup_name == (unsigned long)$0 && g_ilookup_this == (unsigned long)$this && (unsigned long)$ret == g_isym)\n'
           '__CPROVER_assigns(g_ilookups, g_ilookup_name, g_ilookup_this)')
    lk = ('rlbox_sandbox::lookup_symbol(must not be used for taking an address)', _is('lookup_symbol'),
          '__CPROVER_requires(0) /*@address_is_never_taken_from_the_invocation_lookup*/\n__CPROVER_ensures(1)\n__CPROVER_assigns()')
    cl = [('fresh', '__CPROVER_requires(g_ilookups == 0)'),
          ('address_is_the_sandbox_side_representation_for_that_name_in_this_instance',
           '__CPROVER_ensures(g_ilookups == 1 && g_ilookup_name == (unsigned long)$0 && g_ilookup_this == (unsigned long)$this && (unsigned long)$ret.data == g_isym)'),
          ('frame', '__CPROVER_assigns(g_ilookups, g_ilookup_name, g_ilookup_this)')]
    h = ('  struct %s sb; uintptr_t in_name; unsigned long in_sym; g_isym = in_sym; g_ilookups = 0;\n'
         '  struct %s r = $ROOT(&sb, (const char *)in_name);\n' % (SB, TF))
    return Inst('c11_function_address_by_name', 'rlbox_sandbox<vsbx>& s, const char* n', 's.INTERNAL_get_sandbox_function_name<int(long)>(n);', cl, h, leaves=[ilk, lk], prop=PROP,
                root_name='INTERNAL_get_sandbox_function_name', tier=tier, pre=G)


def by_name_inst(tier):
    """INTERNAL_invoke_with_func_name: the address invoked is the one lookup_symbol of *this* instance returned for *that* name"""
    TL = cs('rlbox::tainted<int, rlbox::vsbx>')
    G = PRE_GHOST + ' unsigned g_lookups, g_invokes; unsigned long g_lookup_name, g_sym, g_inv_fn, g_inv_name, g_lookup_this, g_inv_this; long g_inv_arg; int g_inv_ret;\n'
    lk = ('rlbox_sandbox::lookup_symbol(contract)', _is('lookup_symbol'),
          '__CPROVER_ensures(g_lookups == __CPROVER_old(g_lookups) + 1 && g_lookup_name == (unsigned long)$0 && g_lookup_this == (unsigned long)$this && (unsigned long)$ret == g_sym)\n'
          '__CPROVER_assigns(g_lookups, g_lookup_name, g_lookup_this)')
    iv = ('rlbox_sandbox::INTERNAL_invoke_with_func_ptr(contract)', _is('INTERNAL_invoke_with_func_ptr'),
          '__CPROVER_ensures(g_invokes == __CPROVER_old(g_invokes) + 1 && g_inv_name == (unsigned long)$0 && g_inv_fn == (unsigned long)$1 && g_inv_this == (unsigned long)$this && g_inv_arg == *$2 && $ret.data == g_inv_ret)\n'
          '__CPROVER_assigns(g_invokes, g_inv_name, g_inv_fn, g_inv_this, g_inv_arg)')
    cl = [('fresh', '__CPROVER_requires(g_lookups == 0 && g_invokes == 0 && __CPROVER_r_ok($1, sizeof(long)))'),
          ('looked_up_once_in_this_instance_under_that_name', '__CPROVER_ensures(g_lookups == 1 && g_lookup_name == (unsigned long)$0 && g_lookup_this == (unsigned long)$this)'),
          ('invoked_once_at_the_address_that_lookup_returned', '__CPROVER_ensures(g_invokes == 1 && g_inv_fn == g_sym && g_inv_this == (unsigned long)$this && g_inv_name == (unsigned long)$0)'),
          ('argument_and_result_passed_through', '__CPROVER_ensures(g_inv_arg == __CPROVER_old(*$1) && $ret.data == g_inv_ret)'),
          ('frame', '__CPROVER_assigns(g_lookups, g_lookup_name, g_lookup_this, g_invokes, g_inv_name, g_inv_fn, g_inv_this, g_inv_arg)')]
    h = ('  struct %s sb; uintptr_t in_name; long a; long in_a = a; unsigned long in_sym; g_sym = in_sym; int in_ret; g_inv_ret = in_ret; g_lookups = 0; g_invokes = 0;\n'
         '  struct %s r = $ROOT(&sb, (const char *)in_name, &a);\n' % (SB, TL))
    return Inst('c11_invoke_by_name', 'rlbox_sandbox<vsbx>& s, const char* n, long a', 's.INTERNAL_invoke_with_func_name<int(long)>(n, a);', cl, h, leaves=[lk, iv], prop=PROP,
                root_name='INTERNAL_invoke_with_func_name', tier=tier, pre=G)


def units(tier):
    fam = [([], 'void'), (['long_plain'], 'int'), (['long_tainted', 'ptr_tainted'], 'int'), (['fnptr_tainted', 'long_plain'], 'int'), (['int_plain'], 'fnptr'), (['long_opaque'], 'long'), (['nullptr', 'int_plain'], 'ptr'),
           (['ulong_tainted', 'long_plain', 'ptr_tainted'], 'void')]
    if tier != 'quick':
        fam += [(['long_plain'] * 4, 'long'), (['long_tainted', 'ptr_tainted', 'int_plain', 'ulong_tainted', 'long_opaque', 'nullptr'], 'ptr'),
                (['long_tainted'] * 8, 'int'), (['long_plain', 'long_tainted', 'long_opaque', 'ulong_tainted', 'int_plain', 'ptr_tainted', 'nullptr', 'long_plain', 'long_tainted', 'ptr_tainted', 'int_plain', 'long_opaque'], 'int')]
    insts = [invoke_inst(p, r, tier) for p, r in fam] + [fnptr_inst(tier), lookup_inst('lookup_symbol', tier), lookup_inst('internal_lookup_symbol', tier),
                                                                  lookup_inst('lookup_symbol', tier, 'vsbx_il'), lookup_inst('internal_lookup_symbol', tier, 'vsbx_il'), by_name_inst(tier), addr_by_name_inst(tier)]
    # by-value struct arguments and results with array-of-pointer fields reach the array arm of the conversion dispatcher
    # (convert_type_non_class): element-by-element translation in both directions also for a guest representation as wide as
    # a host pointer (backend variant vsbx64; contracts of C04, example-context form of the same arm)
    from . import C04
    for it in (C04.ptr_array_inst(4, tier, 'vsbx64'), C04.ptr_array_store_inst(4, tier, 'vsbx64')):
        it.name = it.name.replace('c04_', 'c11_pointer_array_')
        it.prop = PROP
        insts.append(it)
    # a callback passed as an argument reaches the sandbox as the entry point the backend issued (contract of C13)
    from . import C13
    it = [i for i in C13.owner_insts(tier) if i.name == 'c13_owner_hands_the_sandbox_its_entry_point'][0]
    it.name = 'c11_callback_argument_is_its_entry_point'
    it.prop = PROP
    insts.append(it)
    return [Unit('C11_invoke', insts)]


ASSUMPTIONS = [
    'the backend\'s impl_invoke_with_func_ptr calls the function address it is given exactly once with the arguments it is given (stub records them); dlsym / static symbol resolution are the backend\'s',
    'A_backend pointer translation contracts for argument and result pointers',
    'by-value structs and callbacks as arguments are decided under C08 / C12',
    'symbol caches: std::map<std::string, void*> as an array view over abstract 8-bit name ids (equal content <=> equal id is the contract of the stub vstd_str_id); dlsym / static resolution are the backend\'s',
]
TRUSTED = ['the generated signature family stands for "every signature": parameter packs arrive expanded per instance']
MANIFEST = {
    'level_text': 'For each signature of the generated family and each argument form (plain primitive, tainted, tainted_opaque, tainted pointer, nullptr) INTERNAL_invoke_with_func_ptr is proved to call the backend exactly once, with exactly the function address that was named, with every argument converted to the guest ABI in order (or to abort before the call when one is not representable, and not to abort otherwise), and to return the backend result converted back with the sandbox context of this instance. Loop-free, full-width symbolic arguments: complete per signature.',
    'level_note': 'Reduced claim: signatures outside the generated family are further instantiations of the same code; the backend call itself is a recording stub. lookup_symbol / internal_lookup_symbol are proved against an abstract cache view (answered from the cache of this instance or resolved once by the backend of this instance, other names unchanged, the two kinds of address never mixed - also for a backend whose two representations differ), and INTERNAL_invoke_with_func_name is proved to invoke exactly the address that lookup returned for that name in that instance.',
}
