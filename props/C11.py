"""C11 - sandbox function invocation delivers arguments and results faithfully (reduced claim, DESIGN.md C11).
Functions under contract: rlbox_sandbox::invoke_process_param (rlbox_sandbox.hpp:183-213) per argument kind,
INTERNAL_invoke_with_func_ptr (750-811) for a generated family of signatures (parameter packs arrive expanded),
INTERNAL_get_sandbox_function_ptr (973-977).  The backend call itself (impl_invoke_with_func_ptr) is a contract stub
that records how often, with which function address and with which guest-ABI arguments it was called."""
from vlib.unit import Unit, Inst, find_func
from .common import cs, PRE_GHOST, mi
from .C03 import REGIONS, SB_DECL, sb_req, SB

PROP = 'C11'
TITLE = 'Sandbox function invocation delivers arguments and results faithfully'
FUNCTIONS = ['rlbox_sandbox::INTERNAL_invoke_with_func_ptr (rlbox_sandbox.hpp:750-811)', 'rlbox_sandbox::invoke_process_param (183-213)',
             'rlbox_sandbox::INTERNAL_get_sandbox_function_ptr (973-977)']

# parameter kinds: name -> dict(decl type in signature, C++ snippet param, harness decl, expected guest value expr, guest C type, no-abort condition)
I32 = (-(2 ** 31), 2 ** 31 - 1)


def kinds(i):
    v = 'a%d' % i
    TL = cs('rlbox::tainted<long, rlbox::vsbx>')
    TP = cs('rlbox::tainted<int *, rlbox::vsbx>')
    TO = cs('rlbox::tainted_opaque<long, rlbox::vsbx>')
    TU = cs('rlbox::tainted<unsigned long, rlbox::vsbx>')
    P = '$%d' % (i + 2)
    return {
        'long_plain': dict(sig='long', cxx='long %s' % v, decl='  long %s; long in_%s = %s;\n' % (v, v, v), gt='int',
                           expect='MI(*%s)' % P, fits='(MI(*%s) >= %s && MI(*%s) <= %s)' % (P, mi(I32[0]), P, mi(I32[1]))),
        'long_tainted': dict(sig='long', cxx='tainted<long, vsbx>& %s' % v, decl='  struct %s %s; long in_%s = %s.data;\n' % (TL, v, v, v), gt='int',
                             expect='MI(%s->data)' % P, fits='(MI(%s->data) >= %s && MI(%s->data) <= %s)' % (P, mi(I32[0]), P, mi(I32[1]))),
        'long_opaque': dict(sig='long', cxx='tainted_opaque<long, vsbx>& %s' % v, decl='  struct %s %s; long in_%s = %s.data;\n' % (TO, v, v, v), gt='int',
                            expect='MI(%s->data)' % P, fits='(MI(%s->data) >= %s && MI(%s->data) <= %s)' % (P, mi(I32[0]), P, mi(I32[1]))),
        'ulong_tainted': dict(sig='unsigned long', cxx='tainted<unsigned long, vsbx>& %s' % v, decl='  struct %s %s; unsigned long in_%s = %s.data;\n' % (TU, v, v, v), gt='unsigned int',
                              expect='MI(%s->data)' % P, fits='(MI(%s->data) <= %s)' % (P, mi(2 ** 32 - 1))),
        'int_plain': dict(sig='int', cxx='int %s' % v, decl='  int %s; int in_%s = %s;\n' % (v, v, v), gt='int', expect='MI(*%s)' % P, fits='1'),
        'ptr_tainted': dict(sig='int*', cxx='tainted<int*, vsbx>& %s' % v, decl='  struct %s %s; uintptr_t in_%s; %s.data = (int *)in_%s;\n' % (TP, v, v, v, v), gt='unsigned int',
                            expect='((uintptr_t)%s->data == 0 ? MI(0) : MI((uintptr_t)%s->data) - MI(V_BASE[$this->base0.slot]))' % (P, P),
                            fits='1', pre='((uintptr_t)%s->data == 0 || V_IN($this->base0.slot, (uintptr_t)%s->data))' % (P, P)),
        # a tainted sandbox-function address as argument: must reach the callee in the backend's *function-pointer* representation
        'fnptr_tainted': dict(sig='int(*)(long)', cxx='tainted<int(*)(long), vsbx>& %s' % v,
                              decl='  struct %s %s; uintptr_t in_%s; %s.data = (void *)in_%s;\n' % (cs('rlbox::tainted<int (*)(long), rlbox::vsbx>'), v, v, v, v), gt='unsigned int',
                              expect='((uintptr_t)%s->data == 0 ? MI(0) : MI(g_fn_repr))' % P, fits='1',
                              post='((uintptr_t)%s->data != 0 ==> (g_fn_swizzles == 1 && g_fn_swizzled == (uintptr_t)%s->data))' % (P, P)),
        'nullptr': dict(sig='int*', cxx='std::nullptr_t %s' % v, decl='  void *%s = (void *)0;\n' % v, gt='unsigned int', expect='MI(0)', fits='1'),
    }


RETS = {
    'void': dict(sig='void', gt=None),
    'int': dict(sig='int', gt='int', res='MI($ret.data) == MI((int)g_guest_ret)', rs=lambda: cs('rlbox::tainted<int, rlbox::vsbx>')),
    'long': dict(sig='long', gt='int', res='MI($ret.data) == MI((int)g_guest_ret)', rs=lambda: cs('rlbox::tainted<long, rlbox::vsbx>')),
    'ptr': dict(sig='int*', gt='unsigned int',
                res='((unsigned int)g_guest_ret == 0 ? (uintptr_t)$ret.data == 0 : (V_IN($this->base0.slot, (uintptr_t)$ret.data) && ((unsigned int)g_guest_ret < V_SIZE[$this->base0.slot] ==> (uintptr_t)$ret.data == V_BASE[$this->base0.slot] + (unsigned int)g_guest_ret)))',
                rs=lambda: cs('rlbox::tainted<int *, rlbox::vsbx>')),
}


def _is(name):
    def p(fn, rec):
        return fn.get('name') == name
    return p


def invoke_inst(pkinds, rkind, tier):
    n = len(pkinds)
    ks = [kinds(i)[k] for i, k in enumerate(pkinds)]
    ret = RETS[rkind]
    fsig = '%s(%s)' % (ret['sig'], ', '.join(k['sig'] for k in ks))
    ghost = PRE_GHOST + ' unsigned g_calls; unsigned long g_fn; long g_guest_ret; unsigned g_fn_swizzles; unsigned long g_fn_swizzled; unsigned int g_fn_repr; ' + ' '.join('long g_arg%d;' % i for i in range(n)) + '\n'
    # backend stub: records the call
    stub_ens = ['g_calls == __CPROVER_old(g_calls) + 1', 'g_fn == (unsigned long)$0'] + ['MI(g_arg%d) == MI(*$%d)' % (i, i + 1) for i in range(n)]
    if ret['gt']:
        stub_ens.append('$ret == (%s)g_guest_ret' % ret['gt'])
    stub = ('backend impl_invoke_with_func_ptr(recording stub)', _is('impl_invoke_with_func_ptr'),
            '__CPROVER_ensures(%s)\n__CPROVER_assigns(g_calls, g_fn%s)' % (' && '.join(stub_ens), ''.join(', g_arg%d' % i for i in range(n))))
    cl = sb_req('$this') + [('fresh_ghost', '__CPROVER_requires(g_calls == 0 && g_backend_nonnull)')]
    for i, k in enumerate(ks):
        if 'pre' in k:
            cl.append(('arg%d_inv' % i, '__CPROVER_requires(%s)' % k['pre']))
    cl.append(('noabort_pre', '__CPROVER_requires(g_noabort ==> (%s))' % (' && '.join(k['fits'] for k in ks) or '1')))
    cl.append(('called_exactly_once', '__CPROVER_ensures(g_calls == 1)'))
    cl.append(('the_function_that_was_named', '__CPROVER_ensures(g_fn == (unsigned long)$1)'))
    for i, k in enumerate(ks):
        cl.append(('arg%d_in_guest_abi' % i, '__CPROVER_ensures(MI((%s)g_arg%d) == %s)' % (k['gt'], i, k['expect'])))
    if ret['gt']:
        cl.append(('result_converted_back', '__CPROVER_ensures(%s)' % ret['res']))
    for i, k in enumerate(ks):
        if 'post' in k:
            cl.append(('arg%d_swizzled_as_function_pointer' % i, '__CPROVER_ensures(%s)' % k['post']))
    cl.append(('frame', '__CPROVER_assigns(g_calls, g_fn, g_fn_swizzles, g_fn_swizzled%s)' % ''.join(', g_arg%d' % i for i in range(n))))
    h = REGIONS + SB_DECL + ''.join(k['decl'] for k in ks)
    h += '  g_fn_swizzles = 0; unsigned int in_fn_repr; g_fn_repr = in_fn_repr;\n'
    h += '  g_calls = 0; long in_guest_ret; g_guest_ret = in_guest_ret; uintptr_t in_fn;\n'
    args = ''.join(', &a%d' % i for i in range(n))
    if ret['gt']:
        h += '  struct %s r = $ROOT(&sb, "f", (void *)in_fn%s);\n' % (ret['rs'](), args)
    else:
        h += '  $ROOT(&sb, "f", (void *)in_fn%s);\n' % args
    params = 'rlbox_sandbox<vsbx>& s, void* fp' + ''.join(', ' + k['cxx'] for k in ks)
    call = 's.INTERNAL_invoke_with_func_ptr<%s>("f", fp%s);' % (fsig, ''.join(', a%d' % i for i in range(n)))
    name = 'c11_invoke_%s__%s' % (rkind, '_'.join(pkinds) if pkinds else 'noargs')
    # A_backend, function-pointer form: impl_get_sandboxed_pointer<T> with T a function-pointer type yields the backend's
    # function-pointer representation (an arbitrary value g_fn_repr here), not the data-pointer swizzle
    fn_swz = ('vsbx.impl_get_sandboxed_pointer<function pointer>(A_backend)',
              lambda fn, rec: fn.get('name') == 'impl_get_sandboxed_pointer' and 'IPF' in fn.get('mangledName', ''),
              '__CPROVER_requires($0 != 0)\n__CPROVER_ensures($ret == g_fn_repr && g_fn_swizzles == __CPROVER_old(g_fn_swizzles) + 1 && g_fn_swizzled == (uintptr_t)$0)\n'
              '__CPROVER_assigns(g_fn_swizzles, g_fn_swizzled)')
    leaves = ['dynamic_check', stub, fn_swz, 'vsbx.impl_get_sandboxed_pointer', 'vsbx.impl_get_unsandboxed_pointer']
    return Inst(name, params, call, cl, h, leaves=leaves, prop=PROP, root_name='INTERNAL_invoke_with_func_ptr', tier=tier, pre=ghost,
                note='signature %s with argument forms %s' % (fsig, pkinds), timeout=300)


def fnptr_inst(tier):
    TT = cs('rlbox::tainted<int (*)(long), rlbox::vsbx>')
    cl = [('same_address_bits', '__CPROVER_ensures((unsigned long)$ret.data == (unsigned long)$0)'), ('frame', '__CPROVER_assigns()')]
    h = '  struct %s sb; uintptr_t in_fn;\n  struct %s r = $ROOT(&sb, (void *)in_fn);\n' % (SB, TT)
    return Inst('c11_get_sandbox_function_ptr', 'rlbox_sandbox<vsbx>& s, void* fp', 's.INTERNAL_get_sandbox_function_ptr<int(long)>(fp);', cl, h, leaves=[], prop=PROP,
                root_name='INTERNAL_get_sandbox_function_ptr', tier=tier, pre=PRE_GHOST)


def units(tier):
    fam = [([], 'void'), (['long_plain'], 'int'), (['long_tainted', 'ptr_tainted'], 'int'), (['fnptr_tainted', 'long_plain'], 'int'), (['long_opaque'], 'long'), (['nullptr', 'int_plain'], 'ptr'),
           (['ulong_tainted', 'long_plain', 'ptr_tainted'], 'void')]
    if tier != 'quick':
        fam += [(['long_plain'] * 4, 'long'), (['long_tainted', 'ptr_tainted', 'int_plain', 'ulong_tainted', 'long_opaque', 'nullptr'], 'ptr'),
                (['long_tainted'] * 8, 'int'), (['long_plain', 'long_tainted', 'long_opaque', 'ulong_tainted', 'int_plain', 'ptr_tainted', 'nullptr', 'long_plain', 'long_tainted', 'ptr_tainted', 'int_plain', 'long_opaque'], 'int')]
    insts = [invoke_inst(p, r, tier) for p, r in fam] + [fnptr_inst(tier)]
    return [Unit('C11_invoke', insts)]


ASSUMPTIONS = [
    'the backend\'s impl_invoke_with_func_ptr calls the function address it is given exactly once with the arguments it is given (stub records them); dlsym / static symbol resolution are the backend\'s',
    'A_backend pointer translation contracts for argument and result pointers',
    'by-value structs and callbacks as arguments are decided under C08 / C12; symbol cache (lookup_symbol) is not decided here',
]
TRUSTED = ['the generated signature family stands for "every signature": parameter packs arrive expanded per instance']
MANIFEST = {
    'level_text': 'For each signature of the generated family and each argument form (plain primitive, tainted, tainted_opaque, tainted pointer, nullptr) INTERNAL_invoke_with_func_ptr is proved to call the backend exactly once, with exactly the function address that was named, with every argument converted to the guest ABI in order (or to abort before the call when one is not representable, and not to abort otherwise), and to return the backend result converted back with the sandbox context of this instance. Loop-free, full-width symbolic arguments: complete per signature.',
    'level_note': 'Reduced claim: signatures outside the generated family are further instantiations of the same code; the symbol cache (lookup_symbol / internal_lookup_symbol, std::map<std::string, void*>) and the backend call itself are not decided (listed in not-decided part of DESIGN.md C11).',
}
