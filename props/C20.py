"""C20 - opaque wrappers and sandbox casts preserve bits, designation and taint.
Functions under contract: tainted::to_opaque (rlbox.hpp:1073-1076), from_opaque (1101-1105), tainted_opaque
(rlbox_types.hpp:7-19), sandbox_reinterpret_cast / sandbox_const_cast / sandbox_static_cast
(rlbox_stdlib.hpp:39-98)."""
from vlib.unit import Unit, Inst, find_func
from .common import cs, PRE_GHOST, CXX_INTS, trait_inst
from .C03 import REGIONS, OBJVIEW, NOCTX_LEAF, _is_named

PROP = 'C20'
TITLE = 'Opaque wrappers and sandbox casts preserve bits, designation and taint'
FUNCTIONS = ['tainted::to_opaque (rlbox.hpp:1073-1076)', 'rlbox::from_opaque (rlbox.hpp:1101-1105)',
             'sandbox_reinterpret_cast, sandbox_const_cast, sandbox_static_cast (rlbox_stdlib.hpp:39-98)']

CT = {'int': 'int', 'long': 'long', 'unsigned char': 'unsigned char', 'double': 'double', 'int*': 'int *', 'long long': 'long long',
      'short': 'short', 'unsigned long': 'unsigned long', 'unsigned long long': 'unsigned long long', 'char': 'char', 'float': 'float', 'const int*': 'const int *', 'void*': 'void *', 'long*': 'long *', 'char*': 'char *'}


def tt(t):
    return cs('rlbox::tainted<%s, rlbox::vsbx>' % t.replace('*', ' *'))


def to_(t):
    return cs('rlbox::tainted_opaque<%s, rlbox::vsbx>' % t.replace('*', ' *'))


def same_bits(a, b, t):
    """object representations equal (scalars: value equality; floating point via bit pattern union)"""
    if t in ('double', 'float'):
        it = 'unsigned long' if t == 'double' else 'unsigned int'
        return '((union { %s f; %s u; }){ .f = %s }).u == ((union { %s f; %s u; }){ .f = %s }).u' % (t, it, a, t, it, b)
    return '%s == %s' % (a, b)


def to_opaque_inst(t, tier):
    cl = [('obj', '__CPROVER_requires(__CPROVER_r_ok($this, sizeof(struct %s)))' % tt(t)),
          ('same_size', '__CPROVER_ensures(sizeof(struct %s) == sizeof(struct %s))' % (tt(t), to_(t))),
          ('same_bits', '__CPROVER_ensures(%s)' % same_bits('$ret.data', '$this->data', t)),
          ('frame', '__CPROVER_assigns()')]
    h = '  struct %s x; %s in_x = x.data;\n  struct %s r = $ROOT(&x);\n' % (tt(t), CT[t], to_(t))
    return Inst('c20_to_opaque_%s' % t.replace(' ', '_').replace('*', 'p'), 'tainted<%s, vsbx>& x' % t, 'x.to_opaque();', cl, h, leaves=[], prop=PROP,
                root_name='to_opaque', tier=tier, pre=PRE_GHOST)


def from_opaque_inst(t, tier):
    cl = [('same_bits', '__CPROVER_ensures(%s)' % same_bits('$ret.data', '$0.data', t)),
          ('frame', '__CPROVER_assigns()')]
    h = '  struct %s o; %s in_x = o.data;\n  struct %s r = $ROOT(o);\n' % (to_(t), CT[t], tt(t))
    return Inst('c20_from_opaque_%s' % t.replace(' ', '_').replace('*', 'p'), 'tainted_opaque<%s, vsbx> o' % t, 'from_opaque(o);', cl, h, leaves=[], prop=PROP,
                root_name='from_opaque', tier=tier, pre=PRE_GHOST)


def roundtrip_inst(t, tier):
    """lemma client over the two contracts: from_opaque(x.to_opaque()) has the bits of x"""
    l1 = ('to_opaque(contract)', _is_named('to_opaque'),
          [('obj', '__CPROVER_requires(__CPROVER_r_ok($this, sizeof(struct %s)))' % tt(t)),
           ('same_bits', '__CPROVER_ensures(%s)' % same_bits('$ret.data', '$this->data', t)), ('frame', '__CPROVER_assigns()')])
    l2 = ('from_opaque(contract)', _is_named('from_opaque'),
          [('same_bits', '__CPROVER_ensures(%s)' % same_bits('$ret.data', '$0.data', t)), ('frame', '__CPROVER_assigns()')])
    cl = [('obj', '__CPROVER_requires(__CPROVER_r_ok($0, sizeof(struct %s)))' % tt(t)),
          ('identical', '__CPROVER_ensures(%s)' % same_bits('$ret.data', '$0->data', t)),
          ('frame', '__CPROVER_assigns()')]
    h = '  struct %s x; %s in_x = x.data;\n  struct %s r = $ROOT(&x);\n' % (tt(t), CT[t], tt(t))
    return Inst('c20_lemma_opaque_roundtrip_%s' % t.replace(' ', '_').replace('*', 'p'), 'tainted<%s, vsbx>& x' % t, 'return from_opaque(x.to_opaque());', cl, h,
                leaves=[l1, l2], prop=PROP, tier=tier, pre=PRE_GHOST, ret='tainted<%s, vsbx>' % t, root_pick=lambda tu, fn: fn,
                note='lemma over the contracts of to_opaque and from_opaque')


def cast_inst(kind, lhs, rhs, src_wrap, tier):
    """kind: reinterpret|const|static; sandbox_<kind>_cast<lhs>(src_wrap<rhs>)"""
    fn = 'sandbox_%s_cast' % kind
    RT = tt(lhs)
    is_ptr = lhs.endswith('*')
    if src_wrap == 'tainted':
        ST = tt(rhs)
        src = '$0->data'
        if is_ptr:
            post = [('address_unchanged', '__CPROVER_ensures((uintptr_t)$ret.data == (uintptr_t)%s)' % src)]
        else:
            post = [('value_is_c_cast', '__CPROVER_ensures(%s)' % same_bits('$ret.data', '((%s)%s)' % (CT[lhs], src), lhs))]
        cl = [('obj', '__CPROVER_requires(__CPROVER_r_ok($0, sizeof(struct %s)))' % ST)] + post + [('frame', '__CPROVER_assigns()')]
        h = '  struct %s x; %s in_x = x.data;\n  struct %s r = $ROOT(&x);\n' % (ST, CT[rhs], RT)
        leaves, pre_def = [], ''
    else:
        ST = cs('rlbox::tainted_volatile<%s, rlbox::vsbx>' % rhs.replace('*', ' *'))
        cell = '$0'
        W = 'V_WHICH((uintptr_t)%s)' % cell
        cl = [('wf', '__CPROVER_requires(V_BACKEND_WF)'),
              ('cell_obj', '__CPROVER_requires(__CPROVER_r_ok(%s, sizeof(struct %s)) && V_WHICH((uintptr_t)%s) != -1)' % (cell, ST, cell)),
              ('null_iff_zero', '__CPROVER_ensures(((uintptr_t)$ret.data == 0) == (%s->data == 0))' % cell),
              ('designates_translated_cell_value', '__CPROVER_ensures((%s->data != 0 && (uintptr_t)%s->data < V_SIZE[%s]) ==> (uintptr_t)$ret.data == V_BASE[%s] + (uintptr_t)%s->data)' % (cell, cell, W, W, cell)),
              ('frame', '__CPROVER_assigns()')]
        h = REGIONS + '  struct %s cell; unsigned int in_repr = cell.data;\n  __CPROVER_assume(V_WHICH((uintptr_t)&cell) != -1);\n  struct %s r = $ROOT(&cell);\n' % (ST, RT)
        leaves, pre_def = ['dynamic_check', NOCTX_LEAF], OBJVIEW
        if not is_ptr:
            # numeric source in sandbox memory: the cell holds the guest representation, whose value is the application value
            cl = [('cell_obj', '__CPROVER_requires(__CPROVER_r_ok(%s, sizeof(struct %s)))' % (cell, ST)),
                  ('value_is_c_cast_of_the_cell_value', '__CPROVER_ensures(%s)' % same_bits('$ret.data', '((%s)(%s)%s->data)' % (CT[lhs], CT[rhs], cell), lhs)),
                  ('frame', '__CPROVER_assigns()')]
            h = '  struct %s cell; long long in_repr = cell.data;\n  struct %s r = $ROOT(&cell);\n' % (ST, RT)
            leaves, pre_def = ['dynamic_check'], ''
    srcp = '%s<%s, vsbx>& x' % (src_wrap, rhs)
    name = 'c20_%s_cast_%s_from_%s_%s' % (kind, lhs.replace(' ', '_').replace('*', 'p'), src_wrap, rhs.replace(' ', '_').replace('*', 'p'))
    return Inst(name, srcp, '%s<%s>(x);' % (fn, lhs), cl, h, leaves=leaves, prop=PROP, root_name=fn, tier=tier, pre=PRE_GHOST, pre_defines=pre_def)


def struct_opaque_insts(tier):
    """to_opaque / from_opaque of a registered struct: the opaque object has the application-side size and identical bytes
    (g_b: an arbitrary byte index of the object)"""
    out = []
    for S in (['VOuter'] if tier == 'quick' else ['VOuter', 'VMisc']):
        TT = cs('rlbox::tainted<rlbox::%s, rlbox::vsbx>' % S)
        TO = cs('rlbox::tainted_opaque<rlbox::%s, rlbox::vsbx>' % S)
        cl = [('obj', '__CPROVER_requires(__CPROVER_r_ok($this, sizeof(struct %s)) && g_b < sizeof(struct %s))' % (TT, TT)),
              ('same_size', '__CPROVER_ensures(sizeof(struct %s) == sizeof(struct %s))' % (TT, TO)),
              ('every_byte_identical', '__CPROVER_ensures(((const unsigned char *)&$ret)[g_b] == ((const unsigned char *)$this)[g_b])'),
              ('frame', '__CPROVER_assigns()')]
        h = '  struct %s x; unsigned long in_b; g_b = in_b; __CPROVER_assume(in_b < sizeof(x));\n  struct %s r = $ROOT(&x);\n' % (TT, TO)
        pick = lambda tu, fn, S=S: find_func(tu, 'to_opaque', 'rlbox::tainted<rlbox::%s, rlbox::vsbx>' % S)
        out.append(Inst('c20_struct_to_opaque_%s' % S, 'tainted<%s, vsbx>& x' % S, 'x.to_opaque();', cl, h, leaves=[], prop=PROP, root_name='to_opaque', tier=tier,
                        pre=PRE_GHOST + ' unsigned long g_b;\n', root_pick=pick, object_bits=12, note='struct %s: application-side size, byte for byte' % S))
        # from_opaque(struct) copy-constructs std::array members (implicit copy constructors of library types): not extracted
    return out


def units(tier):
    insts = []
    types = ['int', 'int*', 'double', 'unsigned char'] if tier == 'quick' else ['int', 'int*', 'double', 'unsigned char', 'long', 'long long', 'short', 'float', 'char', 'void*']
    for t in types:
        insts += [to_opaque_inst(t, tier), from_opaque_inst(t, tier), roundtrip_inst(t, tier)]
    casts = [('reinterpret', 'long*', 'int*', 'tainted'), ('reinterpret', 'char*', 'int*', 'tainted_volatile'),
             ('const', 'int*', 'const int*', 'tainted'), ('static', 'long', 'int', 'tainted'), ('static', 'short', 'long', 'tainted'),
             ('static', 'double', 'int', 'tainted'), ('static', 'void*', 'int*', 'tainted'),
             # targets whose sandbox-ABI width is narrower than the application's (long / unsigned long are 32 bits in vsbx)
             ('static', 'long', 'long long', 'tainted'), ('static', 'unsigned long', 'int', 'tainted'), ('static', 'long', 'unsigned long long', 'tainted_volatile')]
    if tier != 'quick':
        casts += [('reinterpret', 'void*', 'long*', 'tainted'), ('reinterpret', 'int*', 'char*', 'tainted'), ('const', 'int*', 'const int*', 'tainted_volatile'),
                  ('static', 'unsigned char', 'int', 'tainted'), ('static', 'int', 'double', 'tainted'), ('static', 'unsigned long', 'long', 'tainted'),
                  ('static', 'float', 'double', 'tainted'), ('static', 'unsigned long', 'long long', 'tainted_volatile'), ('static', 'long', 'double', 'tainted'),
                  ('static', 'unsigned long', 'unsigned long long', 'tainted'), ('static', 'long', 'short', 'tainted_volatile')]
    for c in casts:
        insts.append(cast_inst(*c, tier))
    # an opaque value travels through callback signatures in place of the tainted value (register_callback reinterpret_casts the
    # function pointer), so both wrappers must be passed the same way by the C++ ABI: trivially copyable and destructible, same size
    for t in ['int', 'int*']:
        nm = t.replace('*', 'ptr')
        insts.append(trait_inst('c20_opaque_and_tainted_%s_share_calling_convention' % nm, PROP,
                                '(std::is_trivially_copyable_v<tainted_opaque<%s, vsbx>> && std::is_trivially_destructible_v<tainted_opaque<%s, vsbx>> && '
                                'std::is_trivially_copyable_v<tainted<%s, vsbx>> && std::is_trivially_destructible_v<tainted<%s, vsbx>> && '
                                'sizeof(tainted_opaque<%s, vsbx>) == sizeof(tainted<%s, vsbx>) && alignof(tainted_opaque<%s, vsbx>) == alignof(tainted<%s, vsbx>))' % ((t,) * 8), 1,
                                'opaque_and_tainted_are_passed_the_same_way', tier))
    from . import C02
    insts.append(C02.cast_shape_inst(tier, PROP, 'c20'))
    return [Unit('C20_opaque_casts', insts), Unit('C20_struct_opaque', struct_opaque_insts(tier), includes=('rlbox.hpp', 'vsbx.hpp', 'vstructs.hpp'))]


ASSUMPTIONS = [
    'for a tainted_volatile source the pointer is first loaded through the no-context translation (contract of C03/C04) with the cell as example',
    'opaque parameters of invocations and callbacks are decided under C11/C12',
]
TRUSTED = ['floating-point values are compared by bit pattern (union punning in the specification)']
MANIFEST = {
    'level_text': 'to_opaque and from_opaque are proved to produce an object with identical size and bit pattern for every value of every listed type, and the round trip is a lemma over the two contracts; each sandbox cast is proved to return a tainted value whose content is exactly what the corresponding C++ cast yields on the underlying value - for pointers the designated address is unchanged (tainted source) or is the translated content of the cell (tainted_volatile source). Loop-free, full-width symbolic inputs: complete.',
    'level_note': 'Instance list: primitives, pointers, and registered structs (to_opaque byte for byte at the application-side size; from_opaque of a struct is not extracted: it copy-constructs std::array members). The result *types* (still tainted) are what clang instantiated: the emitted signatures carry them.',
}
