"""C14 - the sandbox lifecycle is a strict state machine; the live-sandbox registry is exact.
Functions under contract: rlbox_sandbox::create_sandbox (rlbox_sandbox.hpp:375-417), destroy_sandbox (428-450), the
status guards of malloc_in_sandbox (534-538), free_in_sandbox (582-586), unregister_callback (304-310) and
register_callback (916-918), find_sandbox_from_example (324-339).
State: status in {NOT_CREATED, INITIALIZING, CREATED, CLEANING_UP} (enumerator values are B-facts), the process-wide
sandbox_list (M-vec sequence view), per-object callback_keys."""
import os
from vlib.unit import Unit, Inst, find_func, VERIF
from .common import cs, PRE_GHOST, dyn_keeps
from .C03 import REGIONS, SB_DECL, sb_req, SB

PROP = 'C14'
TITLE = 'Sandbox lifecycle is a strict state machine; the live-sandbox registry is exact'
FUNCTIONS = ['rlbox_sandbox::create_sandbox (rlbox_sandbox.hpp:375-417)', 'rlbox_sandbox::destroy_sandbox (428-450)',
             'status guards: malloc_in_sandbox, free_in_sandbox, register_callback, unregister_callback', 'M-vec model helpers vec_find / vec_erase_range (self-consistency)']

ST = 'rlbox::rlbox_sandbox<rlbox::vsbx>::Sandbox_Status'
FACTS = {'ST_NOT_CREATED': ('(int)%s::NOT_CREATED' % ST, 'int'), 'ST_INITIALIZING': ('(int)%s::INITIALIZING' % ST, 'int'),
         'ST_CREATED': ('(int)%s::CREATED' % ST, 'int'), 'ST_CLEANING_UP': ('(int)%s::CLEANING_UP' % ST, 'int')}
L = '$G(sandbox_list)'
GH = PRE_GHOST + ' unsigned long g_vw, g_vw2; void *g_obj; int g_snap;\n'
# a refused life-cycle call (a catchable exception under RLBOX_USE_EXCEPTIONS) leaves the status as it found it
KEEP = dyn_keeps('((struct %s *)g_obj)->sandbox_created == g_snap' % SB, 'a_refused_call_leaves_the_status_unchanged')

# environment: the registry holds at most two other live instances (two-slot verification backend; the property
# quantifies over up to three sandbox objects); witnesses 0 and 1 then cover every position
LIST_ENV = ('  void *arr[4]; unsigned long in_len; __CPROVER_assume(in_len <= 2);\n'
            '  %s.len = in_len; %s.elem = arr; %s.cap = 4; g_vw = 0; g_vw2 = 1;\n' % (L, L, L))
LIST_WF = '%s.len <= 2 && %s.cap == 4 && __CPROVER_rw_ok(%s.elem, 4 * sizeof(void *)) && g_vw == 0 && g_vw2 == 1' % (L, L, L)


def absent(this, lenexpr=None):
    ln = lenexpr or '%s.len' % L
    return '((0 < %s ==> %s.elem[0] != (void *)%s) && (1 < %s ==> %s.elem[1] != (void *)%s) && (2 < %s ==> %s.elem[2] != (void *)%s))' % (ln, L, this, ln, L, this, ln, L, this)


def create_inst(tier):
    cl = [('obj', '__CPROVER_requires(__CPROVER_rw_ok($this, sizeof(struct %s)))' % SB),
          ('registry_wf', '__CPROVER_requires(%s)' % LIST_WF),
          ('life_ok', '__CPROVER_requires($this->sandbox_created != ST_CREATED ==> %s)' % absent('$this')),
          ('slot_arg', '__CPROVER_requires($0 == 0 || $0 == 1)'),
          ('noabort_pre', '__CPROVER_requires(g_noabort ==> $this->sandbox_created == ST_NOT_CREATED)'),
          ('only_from_not_created', '__CPROVER_ensures(__CPROVER_old($this->sandbox_created) == ST_NOT_CREATED)'),
          ('backend_verdict_returned', '__CPROVER_ensures($ret == (__CPROVER_old($this->base0.create_ok) != 0))'),
          ('success_created_and_registered', '__CPROVER_ensures($ret ==> ($this->sandbox_created == ST_CREATED && %s.len == __CPROVER_old(%s.len) + 1 && %s.elem[%s.len - 1] == (void *)$this))' % (L, L, L, L)),
          ('failure_not_registered', '__CPROVER_ensures(!$ret ==> (%s.len == __CPROVER_old(%s.len) && $this->sandbox_created != ST_CREATED))' % (L, L)),
          ('other_entries_unchanged', '__CPROVER_ensures((0 < __CPROVER_old(%s.len) ==> %s.elem[0] == __CPROVER_old(%s.elem[0])) && (1 < __CPROVER_old(%s.len) ==> %s.elem[1] == __CPROVER_old(%s.elem[1])))' % (L, L, L, L, L, L)),
          # the frame names what create must NOT touch (state of the registrations, symbol caches and app-pointer table of the object);
          # every other member of the record - including members a later version adds - may be written
          ('frame', '__CPROVER_assigns($FIELDS_EXCEPT($this; struct %s; callback_keys, func_ptr_map, internal_func_ptr_map, app_ptr_map), V_BASE[0], V_BASE[1], V_SIZE[0], V_SIZE[1], %s.len, __CPROVER_object_whole(%s.elem))' % (SB, L, L))]
    h = ('  struct %s sb; int in_status = sb.sandbox_created; int in_create_ok = sb.base0.create_ok;\n' % SB + LIST_ENV +
         '  _Bool in_noabort; g_noabort = in_noabort; int in_slot; unsigned long in_base, in_size;\n'
         '  __CPROVER_assume((in_status != ST_CREATED) ==> ((in_len < 1 || arr[0] != (void *)&sb) && (in_len < 2 || arr[1] != (void *)&sb)));\n'
         '  g_obj = &sb; g_snap = in_status;\n  _Bool r = $ROOT(&sb, in_slot, in_base, in_size);\n')
    return Inst('c14_create_sandbox', 'rlbox_sandbox<vsbx>& s, int slot, uintptr_t base, uintptr_t size', 's.create_sandbox(slot, base, size);', cl, h,
                leaves=[KEEP], prop=PROP, root_name='create_sandbox', tier=tier, pre=GH, facts=FACTS,
                note='vsbx::impl_create_sandbox (may fail: create_ok) is verified inline')


def destroy_inst(tier, clause_recreate=True):
    # the object is registered exactly once at position g_pos (life_ok for a CREATED sandbox)
    once = ('(g_pos < %s.len && %s.elem[g_pos] == (void *)$this && (g_pos != 0 && 0 < %s.len ==> %s.elem[0] != (void *)$this) && (g_pos != 1 && 1 < %s.len ==> %s.elem[1] != (void *)$this))'
            % (L, L, L, L, L, L))
    cl = [('obj', '__CPROVER_requires(__CPROVER_rw_ok($this, sizeof(struct %s)) && ($this->base0.slot == 0 || $this->base0.slot == 1))' % SB),
          ('registry_wf', '__CPROVER_requires(%s)' % LIST_WF),
          ('life_ok', '__CPROVER_requires($this->sandbox_created == ST_CREATED ==> %s)' % once),
          ('noabort_pre', '__CPROVER_requires(g_noabort ==> $this->sandbox_created == ST_CREATED)'),
          ('only_from_created', '__CPROVER_ensures(__CPROVER_old($this->sandbox_created) == ST_CREATED)'),
          ('ends_not_created', '__CPROVER_ensures($this->sandbox_created == ST_NOT_CREATED)'),
          ('removed_from_registry', '__CPROVER_ensures(%s.len == __CPROVER_old(%s.len) - 1 && %s)' % (L, L, absent('$this'))),
          ('other_entry_kept', '__CPROVER_ensures(__CPROVER_old(%s.len) == 2 ==> %s.elem[0] == (g_pos == 0 ? __CPROVER_old(%s.elem[1]) : __CPROVER_old(%s.elem[0])))' % (L, L, L, L)),
          ('backend_destroyed', '__CPROVER_ensures($this->base0.destroyed == __CPROVER_old($this->base0.destroyed) + 1)')]
    if clause_recreate:
        cl.append(('no_callback_registrations_survive', '__CPROVER_ensures($this->callback_keys.len == 0)'))
    # cached symbol addresses belong to the incarnation that looked them up (g_name: an arbitrary name id, M-map string keys)
    cl.append(('no_cached_symbol_address_survives', '__CPROVER_ensures(!$this->func_ptr_map.present[g_name] && !$this->internal_func_ptr_map.present[g_name])'))
    cl.append(('frame', '__CPROVER_assigns($this->sandbox_created, $this->base0.destroyed, $this->callback_keys.len, $this->func_ptr_map, $this->internal_func_ptr_map, $FIELDS_EXCEPT($this; struct ' + SB + '; base0, sandbox_created, callback_keys, func_ptr_map, internal_func_ptr_map, app_ptr_map), V_BASE[0], V_BASE[1], V_SIZE[0], V_SIZE[1], %s.len, __CPROVER_object_whole(%s.elem))' % (L, L)))
    h = ('  struct %s sb; int in_status = sb.sandbox_created; unsigned long in_keys = sb.callback_keys.len; __CPROVER_assume(sb.base0.destroyed < 1000);\n' % SB + LIST_ENV +
         '  _Bool in_noabort; g_noabort = in_noabort; unsigned long in_pos; g_pos = in_pos; unsigned char in_name; g_name = in_name;\n'
         '  g_obj = &sb; g_snap = in_status;\n  $ROOT(&sb);\n')
    return Inst('c14_destroy_sandbox', 'rlbox_sandbox<vsbx>& s', 's.destroy_sandbox();', cl, h, leaves=[KEEP], prop=PROP, root_name='destroy_sandbox',
                tier=tier, pre=GH + ' unsigned long g_pos; unsigned char g_name;\n', facts=FACTS, opts={'map_str_keys': True},
                post_protos=('_Bool vstd_strmap_empty(const struct M_map_strk_voidp *m)\n'
                             '__CPROVER_requires(__CPROVER_r_ok(m, sizeof(*m)))\n'
                             '__CPROVER_ensures(__CPROVER_return_value ==> !m->present[g_name]) /* empty() is consistent with the witness name */\n'
                             '__CPROVER_assigns();\n'), extra_replace=['vstd_strmap_empty'],
                note='std::find / vector::erase through the M-vec contracts; symbol caches as array views over name ids; vsbx::impl_destroy_sandbox inline')


def guard_insts(tier):
    """outside the CREATED window: allocation returns null, free is ignored, registration aborts"""
    out = []
    TT = cs('rlbox::tainted<int *, rlbox::vsbx>')
    cl = sb_req('$this') + [
        ('not_created', '__CPROVER_requires($this->sandbox_created != ST_CREATED)'),
        ('returns_null', '__CPROVER_ensures((uintptr_t)$ret.data == 0)'),
        ('allocator_not_called', '__CPROVER_ensures(g_malloc_calls == 0)'),
        ('frame', '__CPROVER_assigns(g_malloc_calls)')]

    def is_malloc(fn, rec):
        return fn.get('name') == 'impl_malloc_in_sandbox'
    stub = ('vsbx.impl_malloc_in_sandbox(counting stub)', is_malloc, '__CPROVER_ensures(g_malloc_calls == __CPROVER_old(g_malloc_calls) + 1)\n__CPROVER_assigns(g_malloc_calls)')
    h = REGIONS + SB_DECL + '  int in_status; sb.sandbox_created = in_status; unsigned in_count; g_malloc_calls = 0; g_noabort = 0;\n  struct %s r = $ROOT(&sb, in_count);\n' % TT
    out.append(Inst('c14_malloc_outside_window', 'rlbox_sandbox<vsbx>& s, uint32_t n', 's.malloc_in_sandbox<int>(n);', cl, h,
                    leaves=['dynamic_check', stub, 'vsbx.impl_get_unsandboxed_pointer', 'vsbx.impl_is_pointer_in_sandbox_memory', 'vsbx.impl_is_in_same_sandbox'],
                    prop=PROP, root_name='malloc_in_sandbox', tier=tier, pre=PRE_GHOST + ' unsigned g_malloc_calls;\n', facts=FACTS))
    # the overload without a count is guarded too (every public overload of a guarded operation has its own guard instance)
    out.append(Inst('c14_malloc_single_outside_window', 'rlbox_sandbox<vsbx>& s', 's.malloc_in_sandbox<int>();', cl, h.replace('$ROOT(&sb, in_count)', '$ROOT(&sb)'),
                    leaves=['dynamic_check', stub, 'vsbx.impl_get_unsandboxed_pointer', 'vsbx.impl_is_pointer_in_sandbox_memory', 'vsbx.impl_is_in_same_sandbox'],
                    prop=PROP, root_name='malloc_in_sandbox', tier=tier, pre=PRE_GHOST + ' unsigned g_malloc_calls;\n', facts=FACTS))
    # frees outside the window are ignored: all three public overloads (contracts of C04)
    from . import C04
    for it in (C04.free_inst(tier), C04.free_overload_inst('opaque', tier), C04.free_overload_inst('cell', tier)):
        it.name = it.name.replace('c04_', 'c14_')
        it.prop = PROP
        out.append(it)
    return out


RAW = [
    {'name': 'stdmodel_vec_find', 'cfile': os.path.join(VERIF, 'include', 'stdmodel_vec_selfcheck.c'), 'entry': 'h_find', 'enforce': ['vec_find'], 'loop_contracts': True,
     'note': 'M-vec: body of the std::find model against the contract the extracted code is verified with'},
    {'name': 'stdmodel_vec_erase', 'cfile': os.path.join(VERIF, 'include', 'stdmodel_vec_selfcheck.c'), 'entry': 'h_erase', 'enforce': ['vec_erase_range'], 'loop_contracts': True,
     'note': 'M-vec: body of the vector::erase model against its contract'},
]


def units(tier):
    # the status guards of register_callback / unregister_callback (contracts of C13: registration only inside the CREATED window,
    # unregistration outside it - NOT_CREATED, INITIALIZING after a failed create, CLEANING_UP - is ignored and never reaches the backend)
    from . import C13
    ginsts = []
    for it in (C13.register_inst(tier), C13.unregister_cb_inst(tier)):
        it.name = it.name.replace('c13_', 'c14_guard_')
        it.prop = PROP
        it.replay = None
        ginsts.append(it)
    return [Unit('C14_lifecycle', [create_inst(tier), destroy_inst(tier)] + guard_insts(tier) + ginsts)]


ASSUMPTIONS = [
    'M-atomic: std::atomic<Sandbox_Status> load/store/compare_exchange_strong read sequentially (single-threaded reading of the state machine; interleavings are C18, not claimed)',
    'M-vec: std::vector<void*> behaves as the sequence view; std::find / erase as the verified model helpers; push_back never fails to allocate (capacity available)',
    'M-lock: lock guards dropped',
    'environment: the registry holds at most two other live instances of the backend type (the property quantifies over up to three sandbox objects)',
]
TRUSTED = ['enumerator values of Sandbox_Status are taken from the real compiler (g++ facts program) and used symbolically in the contracts']
MANIFEST = {
    'level_text': 'create_sandbox and destroy_sandbox are proved against state-machine contracts: create aborts unless the status is NOT_CREATED, returns the backend verdict, and on success sets CREATED and appends exactly this object to the registry (other entries unchanged), on failure leaves the registry unchanged; destroy aborts unless CREATED, removes exactly this object (the other entry is kept), ends in NOT_CREATED and destroys the backend once. Each contract requires and re-establishes life_ok (status == CREATED iff registered exactly once), so the invariant holds after every history by induction. Guards: outside the CREATED window malloc_in_sandbox returns null without calling the allocator (free/unregister/register guards under C04/C13).',
    'level_note': 'Sequential reading of atomics; M-vec model (its helpers are verified against their contracts on every run). Known finding: destroy_sandbox leaves callback_keys (and the symbol cache / app-pointer table) populated, so an earlier incarnation\'s registrations are visible after re-creation (KF-C14-stale-state).',
}
