"""Shared helpers for property modules."""
from vlib.stdmodels import INT_LIMITS

# spec-side table of the C++ integer types named by the properties (host LP64; independent of the code)
CXX_INTS = {
    # C++ spelling: (C type, min, max)
    'bool': ('_Bool', 0, 1),
    'char': ('char', -128, 127),
    'signed char': ('signed char', -128, 127),
    'unsigned char': ('unsigned char', 0, 255),
    'short': ('short', -2**15, 2**15 - 1),
    'unsigned short': ('unsigned short', 0, 2**16 - 1),
    'int': ('int', -2**31, 2**31 - 1),
    'unsigned int': ('unsigned int', 0, 2**32 - 1),
    'long': ('long', -2**63, 2**63 - 1),
    'unsigned long': ('unsigned long', 0, 2**64 - 1),
    'long long': ('long long', -2**63, 2**63 - 1),
    'unsigned long long': ('unsigned long long', 0, 2**64 - 1),
    'char16_t': ('unsigned short', 0, 2**16 - 1),
    'char32_t': ('unsigned int', 0, 2**32 - 1),
    'wchar_t': ('int', -2**31, 2**31 - 1),
}

# spec-side guest ABI of the verification backend vsbx (LP32-like): size of T in sandbox memory
GUEST_SIZE = {'bool': 1, 'char': 1, 'signed char': 1, 'unsigned char': 1, 'short': 2, 'unsigned short': 2,
              'int': 4, 'unsigned int': 4, 'long': 4, 'unsigned long': 4, 'long long': 8, 'unsigned long long': 8,
              'float': 4, 'double': 8, 'char16_t': 2, 'char32_t': 4, 'wchar_t': 4, 'pointer': 4}


def mi(v):
    """C text of a mathint literal"""
    if v < 0:
        return '(-%s)' % mi(-v)
    if v >= 2**63:
        hi, lo = divmod(v, 2**32)
        return '((MI(%dULL) << 32) + MI(%dULL))' % (hi, lo)
    return 'MI(%dLL)' % v


def tid(t):
    return t.replace(' ', '_')


BACKEND_ASSUME = '  __CPROVER_assume(V_BACKEND_WF);\n'


def cs(cxx_type, prefix='S_'):
    """C struct tag the emitter gives to a C++ record type spelling"""
    from vlib.emit import struct_tag
    return struct_tag(cxx_type, prefix)

HOST_SIZE = {'bool': 1, 'char': 1, 'signed char': 1, 'unsigned char': 1, 'short': 2, 'unsigned short': 2,
             'int': 4, 'unsigned int': 4, 'long': 8, 'unsigned long': 8, 'long long': 8, 'unsigned long long': 8,
             'float': 4, 'double': 8, 'char16_t': 2, 'char32_t': 4, 'wchar_t': 4, 'pointer': 8}


def elem_size(t, guest):
    tab = GUEST_SIZE if guest else HOST_SIZE
    if t.endswith('*'):
        return tab['pointer']
    return tab[t]


PRE_GHOST = '_Bool g_noabort; _Bool g_backend_nonnull; unsigned long g_expect_example; unsigned long g_expect_malloc_size;'


def dyn_keeps(state_unchanged, tag):
    """dynamic_check leaf with an exceptional post-condition: wherever a check can fail (the abort point; a catchable exception under
    RLBOX_USE_EXCEPTIONS, after which the caller carries on with the objects it had) the state named by `state_unchanged`
    (a C condition over ghost snapshots taken by the harness) must still be what it was at entry.  Key 'dynamic_check': one alias per site."""
    from vlib.unit import _is
    return ('dynamic_check', _is('dynamic_check'),
            '__CPROVER_requires(g_noabort ==> $0)\n__CPROVER_requires($0 || (%s)) /*@%s*/\n__CPROVER_ensures($0)\n__CPROVER_assigns()' % (state_unchanged, tag))


def trait_inst(name, prop, expr, expect, tag, tier, note=''):
    """a compile-time fact about the real classes (a type trait evaluated by the real compiler, B-fact) stated as an obligation:
    the snippet returns the constant, the contract pins it.  Used for facts the extracted C cannot show (special members, ABI class)"""
    from vlib.unit import Inst
    return Inst(name, 'int unused_', 'return %s;' % expr, [(tag, '__CPROVER_ensures($ret == %d)' % expect), ('frame', '__CPROVER_assigns()')],
                '  int in_x; _Bool r = $ROOT(in_x);\n', leaves=[], prop=prop, tier=tier, pre=PRE_GHOST, ret='bool', root_pick=lambda tu, fn: fn,
                note=note or 'type trait of the real class, computed by g++ in the facts program')


def base_at_offset_zero_inst(name, prop, backends, tier):
    """premise of lowering L-this and of the library's own reinterpret_casts between rlbox_sandbox<B>* and B* (the backend records
    the executing sandbox as a B*, the callback interceptor casts it back): the backend base subobject lies at offset 0 of
    rlbox_sandbox<B>.  Evaluated by g++ in the facts program on the real classes; asserted in the harness"""
    from vlib.unit import Inst
    facts, asserts = {}, ''
    for b in backends:
        k = 'BASE_AT_0_' + b.replace('::', '_')
        facts[k] = ('(unsigned long)((%s*)(reinterpret_cast<rlbox::rlbox_sandbox<%s>*>(0x10000))) == 0x10000UL && !std::is_polymorphic_v<rlbox::rlbox_sandbox<%s>>' % (b, b, b), 'int')
        asserts += '  __CPROVER_assert(%s == 1, "[clause:backend_base_subobject_of_%s_at_offset_0] rlbox_sandbox<B>* and B* designate the same address");\n' % (k, b.replace('::', '_'))
    return Inst(name, 'int unused_', 'return unused_ == unused_;', [('trivial', '__CPROVER_ensures($ret == 1)'), ('frame', '__CPROVER_assigns()')],
                asserts + '  int in_x; _Bool r = $ROOT(in_x);\n', leaves=[], prop=prop, tier=tier, pre=PRE_GHOST, ret='bool', root_pick=lambda tu, fn: fn, facts=facts,
                note='layout fact of the real classes (g++), premise of the pointer casts between the sandbox object and its backend base')


def access_fact_inst(name, prop, facts, tier, note=''):
    """facts about what application code can do with a class (constructors reachable or not): each (tag, C++ bool expression) is
    evaluated by g++ WITH access control on the real headers and asserted to be 1 in the harness"""
    from vlib.unit import Inst
    fd, asserts = {}, ''
    for tag, expr in facts:
        k = 'AC_' + tag
        fd[k] = (expr, 'int')
        asserts += '  __CPROVER_assert(%s == 1, "[clause:%s] access fact of the real classes");\n' % (k, tag)
    return Inst(name, 'int unused_', 'return unused_ == unused_;', [('trivial', '__CPROVER_ensures($ret == 1)'), ('frame', '__CPROVER_assigns()')],
                asserts + '  int in_x; _Bool r = $ROOT(in_x);\n', leaves=[], prop=prop, tier=tier, pre=PRE_GHOST, ret='bool', root_pick=lambda tu, fn: fn, facts=fd,
                note=note or 'access facts of the real classes (g++, access control on)')


def idx_value(kind, idx, arg):
    """C expression (mathint) of an index operand passed by pointer `arg` with the given wrapper kind"""
    if kind == 'plain':
        return 'MI(*%s)' % arg
    w = 'tainted' if kind == 'tainted' else 'tainted_volatile'
    return 'MI(((const struct %s *)%s)->data)' % (cs('rlbox::%s<%s, rlbox::vsbx>' % (w, idx)), arg)


def idx_decl(kind, idx, var='n'):
    """(harness declaration text, snippet parameter text)"""
    c = CXX_INTS[idx][0]
    if kind == 'plain':
        return '  %s %s; %s in_%s = %s;\n' % (c, var, c, var, var), '%s %s' % (idx, var)
    w = 'tainted' if kind == 'tainted' else 'tainted_volatile'
    st = cs('rlbox::%s<%s, rlbox::vsbx>' % (w, idx))
    return '  struct %s %s; long long in_%s = %s.data;\n' % (st, var, var, var), '%s<%s, vsbx>& %s' % (w, idx, var)
