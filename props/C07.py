"""C07 - sandbox-memory accesses use exactly the bytes and encoding of the sandbox ABI (object view, DESIGN.md 4.4).
Functions under contract: tainted_volatile::operator= cond1/2/3/5 (rlbox.hpp:1191-1299), tainted_volatile::get_raw_value
(1141-1156), tainted(const tainted_volatile&) (959-975), tainted_base_impl::copy_and_verify cond1/cond2/cond4 (486-562),
copy_and_verify_range_helper (591-609), and the conversion functions they call (rlbox_conversion.hpp).
The cell is a CBMC object generated from the real FieldDecl of tainted_volatile<T,vsbx>::data; the spec footprint
comes from the independent guest ABI table.  A wider access fails a pointer check or the assigns frame; a narrower
one fails the value post-condition."""
from vlib.unit import Unit, Inst, find_func
from .common import cs, PRE_GHOST, GUEST_SIZE, HOST_SIZE, CXX_INTS, mi
from .C03 import REGIONS, OBJVIEW, NOCTX_LEAF, _is_named

PROP = 'C07'
TITLE = 'Sandbox-memory accesses use exactly the bytes and encoding of the sandbox ABI'
FUNCTIONS = ['tainted_volatile::operator= (rlbox.hpp:1191-1299)', 'tainted_volatile::get_raw_value (1141-1156)', 'tainted(const tainted_volatile&) (959-975)',
             'tainted_base_impl::copy_and_verify (486-562)', 'tainted_base_impl::copy_and_verify_range_helper (591-609)',
             'detail::convert_type_non_class / convert_type_fundamental_or_array / convert_type_fundamental (rlbox_conversion.hpp)']

# T -> (C type on the application side, guest C type, guest min, guest max)
SC = {
    'bool': ('_Bool', '_Bool'), 'char': ('char', 'char'), 'short': ('short', 'short'), 'int': ('int', 'int'), 'long': ('long', 'int'),
    'unsigned long': ('unsigned long', 'unsigned int'), 'long long': ('long long', 'long long'), 'unsigned char': ('unsigned char', 'unsigned char'),
    'unsigned int': ('unsigned int', 'unsigned int'), 'float': ('float', 'float'), 'double': ('double', 'double'),
}
GLIM = {'_Bool': (0, 1), 'char': (-128, 127), 'short': (-2**15, 2**15 - 1), 'int': (-2**31, 2**31 - 1), 'unsigned int': (0, 2**32 - 1),
        'long long': (-2**63, 2**63 - 1), 'unsigned char': (0, 255)}


def tv(t):
    return cs('rlbox::tainted_volatile<%s, rlbox::vsbx>' % t)


def tt(t):
    return cs('rlbox::tainted<%s, rlbox::vsbx>' % t)


def fl(t):
    return t in ('float', 'double')


def eqv(a, b, t):
    if fl(t):
        it = 'unsigned long' if t == 'double' else 'unsigned int'
        return '(((union { %s f; %s u; }){ .f = %s }).u == ((union { %s f; %s u; }){ .f = %s }).u)' % (t, it, a, t, it, b)
    return '(MI(%s) == MI(%s))' % (a, b)


def store_inst(t, src, tier):
    """tv = v with v plain T (cond5) or tainted<T> (cond2)"""
    app, guest = SC[t]
    gs = GUEST_SIZE[t]
    V = '(*$0)' if src == 'plain' else '($0->data)'
    cl = [('cell_is_guest_footprint', '__CPROVER_requires(__CPROVER_rw_ok($this, %d) && sizeof(struct %s) == %d)' % (gs, tv(t), gs)),
          ('src_obj', '__CPROVER_requires(__CPROVER_r_ok($0, sizeof(*$0)))')]
    if not fl(t) and guest in GLIM:
        lo, hi = GLIM[guest]
        cl.append(('noabort_pre', '__CPROVER_requires(g_noabort ==> (MI(%s) >= %s && MI(%s) <= %s))' % (V, mi(lo), V, mi(hi))))
    cl += [('stored_value', '__CPROVER_ensures(%s)' % eqv('$this->data', '__CPROVER_old(%s)' % V if src == 'plain' else V, t)),
           ('returns_self', '__CPROVER_ensures((void *)$ret == (void *)$this)'),
           ('frame_exactly_the_cell', '__CPROVER_assigns($this->data)')]
    if src == 'plain':
        h = '  struct %s cell; %s v; %s in_v = v;\n' % (tv(t), app, app)
        params, arg = 'tainted_volatile<%s, vsbx>& c, %s v' % (t, t), '&v'
    else:
        h = '  struct %s cell; struct %s v; %s in_v = v.data;\n' % (tv(t), tt(t), app)
        params, arg = 'tainted_volatile<%s, vsbx>& c, tainted<%s, vsbx>& v' % (t, t), '&v'
    h += '  _Bool in_noabort; g_noabort = in_noabort; g_backend_nonnull = 0; g_expect_example = 0;\n  $ROOT(&cell, %s);\n' % arg
    return Inst('c07_store_%s_%s' % (src, t.replace(' ', '_')), params, 'c = v;', cl, h, leaves=['dynamic_check'], prop=PROP, root_name='operator=', tier=tier,
                pre=PRE_GHOST, note='store of %s %s into a %d-byte guest cell' % (src, t, gs))


def load_inst(t, form, tier):
    """form: ctor (tainted<T> x = c) | unverified (c.UNSAFE_unverified()) | copy_and_verify"""
    app, guest = SC[t]
    gs = GUEST_SIZE[t]
    cell = '$0' if form == 'ctor' else '$this'
    cellp = '((const struct %s *)%s)' % (tv(t), cell)
    res = '$ret.data' if form == 'ctor' else '$ret'
    cl = [('cell_is_guest_footprint', '__CPROVER_requires(__CPROVER_r_ok(%s, %d) && sizeof(struct %s) == %d)' % (cellp, gs, tv(t), gs))]
    if form == 'copy_and_verify':
        cl.append(('verifier_sees_decoded_value', '__CPROVER_ensures(%s)' % eqv('g_verifier_arg', '%s->data' % cellp, t)))
        cl.append(('returns_verifier_result', '__CPROVER_ensures($ret == g_verifier_ret)'))
        cl.append(('frame', '__CPROVER_assigns(g_verifier_arg, g_verifier_calls)'))
    else:
        cl.append(('decoded_value', '__CPROVER_ensures(%s)' % eqv(res, '%s->data' % cellp, t)))
        cl.append(('frame', '__CPROVER_assigns()'))
    h = '  struct %s cell; %s in_guest = cell.data;\n  g_noabort = 0; g_backend_nonnull = 0; g_expect_example = 0;\n' % (tv(t), guest)
    pre = PRE_GHOST
    extra_replace = []
    opts = {}
    pick = None
    if form == 'ctor':
        h += '  struct %s r = $ROOT(&cell);\n' % tt(t)
        params, expr, rn = 'tainted_volatile<%s, vsbx>& c' % t, 'tainted<%s, vsbx> x = c;' % t, 'tainted'
        pick = lambda tu, fn: find_func(tu, 'tainted', 'rlbox::tainted<%s, rlbox::vsbx>' % t, lambda f, rn_: 'tainted_volatile' in f['type']['qualType'])
    elif form == 'unverified':
        h += '  %s r = $ROOT((void *)&cell);\n' % app
        params, expr, rn = 'tainted_volatile<%s, vsbx>& c' % t, 'c.UNSAFE_unverified();', 'UNSAFE_unverified'
    else:
        pre += (' %s g_verifier_arg; int g_verifier_ret; unsigned g_verifier_calls;\n'
                'int verifier_stub(%s v)\n__CPROVER_ensures(%s && $STUBRET == g_verifier_ret && g_verifier_calls == __CPROVER_old(g_verifier_calls) + 1)\n'
                '__CPROVER_assigns(g_verifier_arg, g_verifier_calls);\n' % (app, app, eqv('g_verifier_arg', 'v', t))).replace('$STUBRET', '__CPROVER_return_value')
        h += '  int in_vret; g_verifier_ret = in_vret; g_verifier_calls = 0;\n  int r = $ROOT((void *)&cell, verifier_stub);\n'
        params, expr, rn = 'tainted_volatile<%s, vsbx>& c, int (*verifier)(%s)' % (t, t), 'c.copy_and_verify(verifier);', 'copy_and_verify'
        opts = {'param_fn_stubs': {'*': 'verifier_stub'}}
        extra_replace = ['verifier_stub']
    return Inst('c07_load_%s_%s' % (form, t.replace(' ', '_')), params, expr, cl, h, leaves=['dynamic_check'], prop=PROP, root_name=rn, tier=tier,
                pre=pre, root_pick=pick, opts=opts, extra_replace=extra_replace, note='load of %s from a %d-byte guest cell via %s' % (t, gs, form))


def ptr_store_footprint(tier):
    """tv = t for T = int*: the cell is the 4-byte guest pointer representation"""
    TV, TT = tv('int *'), tt('int *')
    cl = [('wf', '__CPROVER_requires(V_BACKEND_WF)'),
          ('cell_is_guest_footprint', '__CPROVER_requires(__CPROVER_rw_ok($this, 4) && sizeof(struct %s) == 4 && V_WHICH((uintptr_t)$this) != -1)' % TV),
          ('val_obj', '__CPROVER_requires(__CPROVER_r_ok($0, sizeof(struct %s)))' % TT),
          ('frame_exactly_the_cell', '__CPROVER_assigns($this->data)')]
    h = REGIONS + '  struct %s cell; __CPROVER_assume(V_WHICH((uintptr_t)&cell) != -1);\n  struct %s t; uintptr_t in_val; t.data = (int *)in_val;\n  $ROOT(&cell, &t);\n' % (TV, TT)
    return Inst('c07_store_pointer_cell_footprint', 'tainted_volatile<int*, vsbx>& c, tainted<int*, vsbx>& t', 'c = t;', cl, h,
                leaves=['dynamic_check', 'vsbx.impl_get_sandboxed_pointer_no_ctx', 'find_sandbox_from_example'], prop=PROP, root_name='operator=', tier=tier,
                pre=PRE_GHOST, pre_defines=OBJVIEW, note='value post-condition of pointer stores is C04; here only the 4-byte footprint/frame')


def array_inst(dirn, t, n, tier):
    """arrays: store std::array<T,N> into tainted_volatile<T[N]> (cond5) / load into tainted<T[N]>; witness element g_w"""
    app, guest = SC[t]
    gs = GUEST_SIZE[t] * n
    TVA = cs('rlbox::tainted_volatile<%s[%d], rlbox::vsbx>' % (t, n))
    TA = cs('rlbox::tainted<%s[%d], rlbox::vsbx>' % (t, n))
    same_repr = (SC[t][0] == SC[t][1])
    lcs = {}
    if dirn == 'store':
        cl = [('cell_is_guest_footprint', '__CPROVER_requires(__CPROVER_rw_ok($this, %d) && sizeof(struct %s) == %d && g_w < %d)' % (gs, TVA, gs, n)),
              ('src_obj', '__CPROVER_requires(__CPROVER_r_ok($0, sizeof(struct %s)))' % TA),
              ('element_stored', '__CPROVER_ensures(%s)' % eqv('$this->data._M_elems[g_w]', '$0->data._M_elems[g_w]', t)),
              ('frame_exactly_the_cell', '__CPROVER_assigns(__CPROVER_object_whole($this))')]
        h = ('  struct %s cell; struct %s v; unsigned long in_w; g_w = in_w; __CPROVER_assume(in_w < %d);\n'
             '  g_noabort = 0; g_backend_nonnull = 0; g_expect_example = 0;\n  $ROOT(&cell, &v);\n' % (TVA, TA, n))
        params, expr, rn, pick = 'tainted_volatile<%s[%d], vsbx>& c, tainted<%s[%d], vsbx>& v' % (t, n, t, n), 'c = v;', 'operator=', None
        if not same_repr:
            lcs = {('convert_type_fundamental_or_array', 0):
                   '__CPROVER_assigns($LV, __CPROVER_object_whole($0))\n__CPROVER_loop_invariant($LV <= %d)\n'
                   '__CPROVER_loop_invariant(g_w < $LV ==> MI($0->_M_elems[g_w]) == MI($1->_M_elems[g_w]))\n__CPROVER_decreases(%d - $LV)' % (n, n)}
    else:
        cl = [('cell_is_guest_footprint', '__CPROVER_requires(__CPROVER_r_ok($0, %d) && sizeof(struct %s) == %d && g_w < %d)' % (gs, TVA, gs, n)),
              ('element_decoded', '__CPROVER_ensures(%s)' % eqv('$ret.data._M_elems[g_w]', '$0->data._M_elems[g_w]', t)),
              ('frame', '__CPROVER_assigns()')]
        h = ('  struct %s cell; unsigned long in_w; g_w = in_w; __CPROVER_assume(in_w < %d);\n'
             '  g_noabort = 0; g_backend_nonnull = 0; g_expect_example = 0;\n  struct %s r = $ROOT(&cell);\n' % (TVA, n, TA))
        params, expr, rn = 'tainted_volatile<%s[%d], vsbx>& c' % (t, n), 'tainted<%s[%d], vsbx> x = c;' % (t, n), 'tainted'
        pick = lambda tu, fn: find_func(tu, 'tainted', 'rlbox::tainted<%s[%d], rlbox::vsbx>' % (t, n), lambda f, rn_: 'tainted_volatile' in f['type']['qualType'])
        if not same_repr:
            lcs = {('convert_type_fundamental_or_array', 0):
                   '__CPROVER_assigns($LV, __CPROVER_object_whole($0))\n__CPROVER_loop_invariant($LV <= %d)\n'
                   '__CPROVER_loop_invariant(g_w < $LV ==> MI($0->_M_elems[g_w]) == MI($1->_M_elems[g_w]))\n__CPROVER_decreases(%d - $LV)' % (n, n)}
    return Inst('c07_array_%s_%s_%d' % (dirn, t.replace(' ', '_'), n), params, expr, cl, h, leaves=['dynamic_check'], prop=PROP, root_name=rn, tier=tier,
                pre=PRE_GHOST + ' unsigned long g_w;\n' + MEMCPY_OBJ, root_pick=pick, loop_contracts=lcs, extra_replace=[],
                note='%s of %s[%d]: %s' % (dirn, t, n, 'same representation: memcpy branch' if same_repr else 'element-wise conversion loop (loop contract)'))


def cellcopy_inst(td, ts, tier):
    """c = v with both operands in sandbox memory (cond3): the value keeps its meaning in the destination cell's guest type or the
    store aborts; exactly the destination cell is written.  td != ts: narrowing / other signedness between two guest types"""
    gd, gsz = SC[td][1], GUEST_SIZE[td]
    cl = [('cells_are_guest_footprints', '__CPROVER_requires(__CPROVER_rw_ok($this, %d) && sizeof(struct %s) == %d && __CPROVER_r_ok($0, %d) && sizeof(struct %s) == %d)'
           % (gsz, tv(td), gsz, GUEST_SIZE[ts], tv(ts), GUEST_SIZE[ts]))]
    if not fl(td) and gd in GLIM:
        lo, hi = GLIM[gd]
        cl.append(('noabort_pre', '__CPROVER_requires(g_noabort ==> (MI($0->data) >= %s && MI($0->data) <= %s))' % (mi(lo), mi(hi))))
    cl += [('value_kept_or_aborted', '__CPROVER_ensures(%s)' % eqv('$this->data', '__CPROVER_old($0->data)', td)),
           ('returns_self', '__CPROVER_ensures((void *)$ret == (void *)$this)'),
           ('frame_exactly_the_cell', '__CPROVER_assigns($this->data)')]
    h = ('  struct %s cell; struct %s v; %s in_v = v.data;\n  _Bool in_noabort; g_noabort = in_noabort; g_backend_nonnull = 0; g_expect_example = 0;\n  $ROOT(&cell, &v);\n'
         % (tv(td), tv(ts), SC[ts][1]))
    return Inst('c07_cell_to_cell_%s_from_%s' % (td.replace(' ', '_'), ts.replace(' ', '_')), 'tainted_volatile<%s, vsbx>& c, tainted_volatile<%s, vsbx>& v' % (td, ts), 'c = v;',
                cl, h, leaves=['dynamic_check'], prop=PROP, root_name='operator=', tier=tier, pre=PRE_GHOST, may_not_compile=(td != ts),
                note='store from one guest cell (%s) into another (%s): tainted_volatile::operator= cond3, convert_type_non_class<NO_CHANGE>' % (ts, td))


def cellcopy_array_inst(t, n, tier):
    """c = v for two arrays in sandbox memory: exactly the guest image (n guest elements) is copied, element-wise equal"""
    ptr = t.endswith('*')
    gs = (4 if ptr else GUEST_SIZE[t]) * n
    TVA = cs('rlbox::tainted_volatile<%s[%d], rlbox::vsbx>' % (t.replace('*', ' *'), n))
    cl = [('cells_are_guest_footprints', '__CPROVER_requires(__CPROVER_rw_ok($this, %d) && __CPROVER_r_ok($0, %d) && sizeof(struct %s) == %d && g_w < %d)' % (gs, gs, TVA, gs, n)),
          ('element_copied', '__CPROVER_ensures($this->data._M_elems[g_w] == __CPROVER_old($0->data._M_elems[g_w]))'),
          ('frame_exactly_the_cell', '__CPROVER_assigns(__CPROVER_object_whole($this))')]
    h = ('  struct %s cell, v; unsigned long in_w; g_w = in_w; __CPROVER_assume(in_w < %d);\n'
         '  g_noabort = 0; g_backend_nonnull = 0; g_expect_example = 0;\n  $ROOT(&cell, &v);\n' % (TVA, n))
    return Inst('c07_cell_to_cell_array_%s_%d' % (t.replace(' ', '_').replace('*', 'ptr'), n), 'tainted_volatile<%s[%d], vsbx>& c, tainted_volatile<%s[%d], vsbx>& v' % (t, n, t, n), 'c = v;',
                cl, h, leaves=['dynamic_check'], prop=PROP, root_name='operator=', tier=tier, pre=PRE_GHOST + ' unsigned long g_w;\n' + MEMCPY_OBJ,
                note='array copy between two guest arrays (%d bytes each): the destination object is exactly the guest image, so a copy sized by the application type fails a bounds obligation' % gs)


def array2_inst(dirn, t, n, m, tier):
    """rank-2 arrays T[n][m]: witness element (g_w, g_w2)"""
    app, guest = SC[t]
    gs = GUEST_SIZE[t] * n * m
    TVA = cs('rlbox::tainted_volatile<%s[%d][%d], rlbox::vsbx>' % (t, n, m))
    TA = cs('rlbox::tainted<%s[%d][%d], rlbox::vsbx>' % (t, n, m))
    same_repr = (SC[t][0] == SC[t][1])
    el = '%s->data._M_elems[g_w][g_w2]'
    if dirn == 'store':
        cl = [('cell_is_guest_footprint', '__CPROVER_requires(__CPROVER_rw_ok($this, %d) && sizeof(struct %s) == %d && g_w < %d && g_w2 < %d)' % (gs, TVA, gs, n, m)),
              ('src_obj', '__CPROVER_requires(__CPROVER_r_ok($0, sizeof(struct %s)))' % TA),
              ('element_stored', '__CPROVER_ensures(%s)' % eqv(el % '$this', el % '$0', t)),
              ('frame_exactly_the_cell', '__CPROVER_assigns(__CPROVER_object_whole($this))')]
        h = ('  struct %s cell; struct %s v; unsigned long in_w, in_w2; g_w = in_w; g_w2 = in_w2; __CPROVER_assume(in_w < %d && in_w2 < %d);\n'
             '  g_noabort = 0; g_backend_nonnull = 0; g_expect_example = 0;\n  $ROOT(&cell, &v);\n' % (TVA, TA, n, m))
        params, expr, rn, pick = 'tainted_volatile<%s[%d][%d], vsbx>& c, tainted<%s[%d][%d], vsbx>& v' % (t, n, m, t, n, m), 'c = v;', 'operator=', None
    else:
        cl = [('cell_is_guest_footprint', '__CPROVER_requires(__CPROVER_r_ok($0, %d) && sizeof(struct %s) == %d && g_w < %d && g_w2 < %d)' % (gs, TVA, gs, n, m)),
              ('element_decoded', '__CPROVER_ensures(%s)' % eqv('$ret.data._M_elems[g_w][g_w2]', el % '$0', t)),
              ('frame', '__CPROVER_assigns()')]
        h = ('  struct %s cell; unsigned long in_w, in_w2; g_w = in_w; g_w2 = in_w2; __CPROVER_assume(in_w < %d && in_w2 < %d);\n'
             '  g_noabort = 0; g_backend_nonnull = 0; g_expect_example = 0;\n  struct %s r = $ROOT(&cell);\n' % (TVA, n, m, TA))
        params, expr, rn = 'tainted_volatile<%s[%d][%d], vsbx>& c' % (t, n, m), 'tainted<%s[%d][%d], vsbx> x = c;' % (t, n, m), 'tainted'
        pick = lambda tu, fn: find_func(tu, 'tainted', 'rlbox::tainted<%s[%d][%d], rlbox::vsbx>' % (t, n, m), lambda f, rn_: 'tainted_volatile' in f['type']['qualType'])
    it = Inst('c07_array2_%s_%s_%dx%d' % (dirn, t.replace(' ', '_'), n, m), params, expr, cl, h, leaves=['dynamic_check'], prop=PROP, root_name=rn, tier=tier,
              pre=PRE_GHOST + ' unsigned long g_w, g_w2;\n' + MEMCPY_OBJ, root_pick=pick,
              note='%s of %s[%d][%d]: %s' % (dirn, t, n, m, 'same representation: one memcpy of the whole object' if same_repr else 'nested constant-bound conversion loops, completely unwound (unwinding assertions on)'))
    if not same_repr:
        it.kind = 'bounded'
        it.unwind = max(n, m) + 1
        it.object_bits = 12
    return it


# object-view memcpy: a real byte copy (CBMC's model) with the length RLBox passed
MEMCPY_OBJ = '''
void *memcpy(void *, const void *, unsigned long);
void *vstd_memcpy(void *d, const void *s, unsigned long n) { return memcpy(d, s, n); }
'''


STRUCT_CPP = '''#include <memory>
namespace rlbox { namespace vinst {
struct VStructV { int operator()(std::unique_ptr<tainted<VInner, vsbx>>) const; };
} }
'''


def struct_pointer_cav_inst(tier):
    """p.copy_and_verify(v) on a pointer to a struct (branch cond3): the verifier gets a fresh application object whose fields are the
    guest-ABI decoding of the pointee's guest image (8 bytes for VInner under the 32-bit guest, not the application layout)"""
    TP = cs('rlbox::tainted<rlbox::VInner *, rlbox::vsbx>')
    TS = cs('rlbox::tainted<rlbox::VInner, rlbox::vsbx>')
    GH = PRE_GHOST + ' unsigned long g_new_bytes; unsigned g_news; void *g_new_ptr; unsigned g_vcalls; int g_vret; void *g_src;\nstruct GUEST_VInner { int32_t a; int32_t b; };\n'
    stub = ('int verifier_stub(struct %s *arg)\n'
            '__CPROVER_requires(arg != 0 && (void *)arg == g_new_ptr && g_news == 1 && g_new_bytes == sizeof(struct %s) && !__CPROVER_same_object(arg, g_src)) /*@verifier_gets_a_fresh_application_object*/\n'
            '__CPROVER_requires(MI(arg->a.data) == MI(((const struct GUEST_VInner *)g_src)->a) && MI(arg->b.data) == MI(((const struct GUEST_VInner *)g_src)->b)) /*@fields_are_the_guest_decoding_of_the_pointee*/\n'
            '__CPROVER_ensures(g_vcalls == __CPROVER_old(g_vcalls) + 1 && __CPROVER_return_value == g_vret)\n__CPROVER_assigns(g_vcalls);\n' % (TS, TS))
    cl = [('wf', '__CPROVER_requires(V_BACKEND_WF)'),
          ('pointee_is_a_guest_image', '__CPROVER_requires(__CPROVER_r_ok((const struct %s *)$this, sizeof(struct %s)) && (void *)((const struct %s *)$this)->data == g_src && __CPROVER_r_ok(g_src, sizeof(struct GUEST_VInner)) && V_WHICH((uintptr_t)g_src) != -1 && g_vcalls == 0 && g_news == 0)' % (TP, TP, TP)),
          ('verifier_runs_once_and_its_result_is_returned', '__CPROVER_ensures(g_vcalls == 1 && $ret == g_vret)'),
          ('frame', '__CPROVER_assigns(g_vcalls, g_new_bytes, g_news, g_new_ptr)')]
    h = REGIONS + ('  struct GUEST_VInner img; __CPROVER_assume(V_WHICH((uintptr_t)&img) != -1); g_src = &img; g_expect_example = 0; g_noabort = 0; g_backend_nonnull = 0;\n'
                   '  struct %s p; p.data = (void *)&img; g_vcalls = 0; g_news = 0; int in_vret; g_vret = in_vret; struct S_VStructV vf;\n  int r = $ROOT((void *)&p, vf);\n' % TP)
    return Inst('c07_copy_and_verify_struct_pointer', 'tainted<VInner*, vsbx>& p, VStructV verifier', 'p.copy_and_verify(verifier);', cl, h,
                leaves=['dynamic_check', 'vsbx.impl_get_unsandboxed_pointer_no_ctx', 'find_sandbox_from_example'], prop=PROP, root_name='copy_and_verify', tier=tier,
                pre=GH, pre_defines=OBJVIEW, post_protos=stub, opts={'param_fn_stubs': {'*': 'verifier_stub'}}, extra_replace=['verifier_stub'], object_bits=12,
                note='non-null pointer to a struct in sandbox memory (a null pointer is dereferenced by this branch on the pinned tree: outside the claim)')


def units(tier):
    insts = []
    ts = ['long', 'int', 'short', 'bool', 'unsigned long', 'double'] if tier == 'quick' else list(SC)
    for t in ts:
        insts.append(store_inst(t, 'plain', tier))
        insts.append(load_inst(t, 'ctor', tier))
    for t in (['long', 'char'] if tier == 'quick' else list(SC)):
        insts.append(store_inst(t, 'tainted', tier))
        insts.append(load_inst(t, 'unverified', tier))
        insts.append(load_inst(t, 'copy_and_verify', tier))
    insts.append(ptr_store_footprint(tier))
    for (td, ts_) in ([('long', 'long'), ('short', 'long long'), ('unsigned int', 'int')] if tier == 'quick' else
                      [('long', 'long'), ('short', 'long long'), ('unsigned int', 'int'), ('int', 'unsigned long'), ('char', 'int'), ('long', 'long long'), ('unsigned long', 'long'), ('double', 'double'), ('bool', 'bool')]):
        insts.append(cellcopy_inst(td, ts_, tier))
    for (t, n) in ([('long', 4), ('int*', 2)] if tier == 'quick' else [('long', 4), ('int*', 2), ('char', 16), ('long long', 2)]):
        insts.append(cellcopy_array_inst(t, n, tier))
    for (t, n) in ([('long', 4), ('int', 4)] if tier == 'quick' else [('long', 4), ('int', 4), ('char', 16), ('unsigned long', 3), ('short', 8), ('long long', 2)]):
        insts.append(array_inst('store', t, n, tier))
        insts.append(array_inst('load', t, n, tier))
    for (t, n, m) in ([('int', 2, 3), ('long', 2, 3)] if tier == 'quick' else [('int', 2, 3), ('long', 2, 3), ('char', 4, 4), ('long long', 2, 2), ('short', 3, 5)]):
        insts.append(array2_inst('store', t, n, m, tier))
        insts.append(array2_inst('load', t, n, m, tier))
    # "copy_and_verify on a pointer, or copy_and_verify_range - decodes exactly those bytes": the content instances of C09
    # (sequential view; the verifier's precondition is the guest decoding of the source bytes, element-wise for ranges)
    from . import C09
    cinsts = []
    for it in C09.content_insts(tier):
        it.name = it.name.replace('c09_content_', 'c07_copy_and_verify_')
        it.prop = PROP
        cinsts.append(it)
    # "conversion to tainted ... struct-field type": the whole-struct load and store (macro-expanded bodies, contracts of C08:
    # every field of the destination equals the guest decoding / encoding of the source field, the store assigns only the guest image)
    from . import C08
    sinsts = []
    for it in (C08.load_inst('VOuter', tier), C08.store_inst('VOuter', tier), C08.unverified_inst('VOuter', tier)):
        it.name = it.name.replace('c08_', 'c07_struct_')
        it.prop = PROP
        sinsts.append(it)
    # arrays of pointers are encoded / decoded element by element also where the guest representation is as wide as a host
    # pointer (backend variant vsbx64: 64-bit offsets): contracts of C04
    from . import C04
    for it in (C04.ptr_array_inst(4, tier, 'vsbx64'), C04.ptr_array_store_inst(4, tier, 'vsbx64'), C04.ptr_array_store_inst(4, tier)):
        it.name = it.name.replace('c04_', 'c07_')
        it.prop = PROP
        insts.append(it)
    return [Unit('C07_guest_bytes', insts), Unit('C07_copy_and_verify', cinsts, extra_cpp=C09.EXTRA_CPP),
            Unit('C07_struct_fields', sinsts + [struct_pointer_cav_inst(tier)], includes=('rlbox.hpp', 'vsbx.hpp', 'vstructs.hpp'), extra_cpp=STRUCT_CPP)]


ASSUMPTIONS = [
    'the cell is stable for the duration of one call (adversarial rewriting between reads is C09)',
    'pointer-typed cells: value correctness is C04; here only footprint and frame',
    'struct fields: the load/store instances of C08 for the struct VOuter are shared; the rest of the family is decided under C08',
]
TRUSTED = ['guest ABI table of vsbx (props/common.py GUEST_SIZE) as the independent footprint specification',
           'object view: memcpy is CBMC\'s byte-copy model called with the length RLBox passes']
MANIFEST = {
    'level_text': 'For each listed type the store is proved to write exactly the guest value (or abort when it is not representable) and to assign nothing but the cell, whose size is asserted to be the guest size of the type; each load form (conversion to tainted, UNSAFE_unverified, copy_and_verify) is proved to decode exactly the guest value; the cell is a CBMC object of exactly the guest footprint, so a wider access fails a pointer check and a wider store fails the assigns frame. Arrays: element witness index, conversion loop by loop contract, same-representation arrays through the memcpy branch.',
    'level_note': 'Object view; the cell does not change during a call. "First and last byte of sandbox memory" needs no special case: the cell object has nothing after it. copy_and_verify on tainted<T*> (pointee read) and copy_and_verify_range are decided with the unique_ptr model under C09.',
}
