"""C19 - transition notifications bracket every boundary crossing and stay balanced (reduced claim, DESIGN.md C19).
With RLBOX_TRANSITION_ACTION_IN/OUT bound to two recording hooks, INTERNAL_invoke_with_func_ptr
(rlbox_sandbox.hpp:750-775) and sandbox_callback_interceptor (248-273) are extracted with the scope_exit guard lowered
by L-dtor; detail::scope_exit itself (rlbox_helpers.hpp:145-185) is verified as a class.
Normal return: the log is IN ... OUT (invoke) / OUT ... IN (callback) with equal payloads.
Exceptional exit: the invariant "at every abort point every announced crossing has an armed guard" is proved; that the
armed guard's destructor runs during unwinding is the C++ language guarantee (trusted, L-dtor/L-throw)."""
from vlib.unit import Unit, Inst, find_func
from .common import cs, PRE_GHOST
from .C03 import REGIONS, SB_DECL, sb_req, SB

PROP = 'C19'
TITLE = 'Transition notifications bracket every boundary crossing and stay balanced'
FUNCTIONS = ['rlbox_sandbox::INTERNAL_invoke_with_func_ptr with transition hooks (rlbox_sandbox.hpp:750-811)',
             'rlbox_sandbox::sandbox_callback_interceptor with transition hooks (215-297)', 'detail::scope_exit / make_scope_exit (rlbox_helpers.hpp:145-185)']

PRE_CPP = '''void vhook_in(int kind, const char* name, void* ptr, void* state);
void vhook_out(int kind, const char* name, void* ptr, void* state);
#define RLBOX_TRANSITION_ACTION_IN(k, n, p, s) ::vhook_in((int)(k), n, p, s)
#define RLBOX_TRANSITION_ACTION_OUT(k, n, p, s) ::vhook_out((int)(k), n, p, s)
'''
GH = PRE_GHOST + ''' unsigned g_ins, g_outs, g_events; unsigned g_in_at, g_out_at; unsigned g_call_at;
int g_in_kind, g_out_kind; unsigned long g_in_name, g_out_name, g_in_ptr, g_out_ptr, g_in_state, g_out_state; unsigned g_gcalls; int g_gret; unsigned g_armed;
'''
HOOKS = '''
void vhook_in(int kind, const char *name, void *ptr, void *state)
__CPROVER_ensures(g_ins == __CPROVER_old(g_ins) + 1 && g_events == __CPROVER_old(g_events) + 1 && g_in_at == __CPROVER_old(g_events) && g_in_kind == kind && g_in_name == (unsigned long)name && g_in_ptr == (unsigned long)ptr && g_in_state == (unsigned long)state)
__CPROVER_assigns(g_ins, g_events, g_in_at, g_in_kind, g_in_name, g_in_ptr, g_in_state);
void vhook_out(int kind, const char *name, void *ptr, void *state)
__CPROVER_ensures(g_outs == __CPROVER_old(g_outs) + 1 && g_events == __CPROVER_old(g_events) + 1 && g_out_at == __CPROVER_old(g_events) && g_out_kind == kind && g_out_name == (unsigned long)name && g_out_ptr == (unsigned long)ptr && g_out_state == (unsigned long)state)
__CPROVER_assigns(g_outs, g_events, g_out_at, g_out_kind, g_out_name, g_out_ptr, g_out_state);
'''
FACTS = {'TR_INVOKE': ('(int)rlbox::rlbox_transition::INVOKE', 'int'), 'TR_CALLBACK': ('(int)rlbox::rlbox_transition::CALLBACK', 'int')}


def _is(name):
    def p(fn, rec):
        return fn.get('name') == name
    return p


def invoke_inst(tier):
    # the backend call happens strictly between the IN and the OUT notification; every abort point (dynamic_check)
    # sees exactly one IN and no OUT yet, i.e. an armed guard that will announce the OUT
    stub = ('backend impl_invoke_with_func_ptr(stub)', _is('impl_invoke_with_func_ptr'),
            '__CPROVER_requires(g_ins == 1 && g_outs == 0) /*@call_is_inside_the_bracket*/\n'
            '__CPROVER_ensures(g_gcalls == __CPROVER_old(g_gcalls) + 1 && g_call_at == g_events && $ret == g_gret)\n__CPROVER_assigns(g_gcalls, g_call_at)')
    dyn = ('dynamic_check(abort point inside the bracket)', _is('dynamic_check'),
           '__CPROVER_requires(g_ins == 1 && g_outs == 0) /*@abort_point_has_an_armed_out_guard*/\n__CPROVER_ensures($0)\n__CPROVER_assigns()')
    cl = sb_req('$this') + [
        ('fresh', '__CPROVER_requires(g_ins == 0 && g_outs == 0 && g_events == 0 && g_gcalls == 0)'),
        ('exactly_one_in_and_one_out', '__CPROVER_ensures(g_ins == 1 && g_outs == 1 && g_events == 2)'),
        ('in_before_call_before_out', '__CPROVER_ensures(g_in_at == 0 && g_out_at == 1 && g_gcalls == 1 && g_call_at == 1)'),
        ('kind_is_invoke', '__CPROVER_ensures(g_in_kind == TR_INVOKE && g_out_kind == TR_INVOKE)'),
        ('same_payload_function_identity_and_state', '__CPROVER_ensures(g_in_name == (unsigned long)$0 && g_out_name == (unsigned long)$0 && g_in_ptr == (unsigned long)$1 && g_out_ptr == (unsigned long)$1 && g_in_state == (unsigned long)__CPROVER_old($this->transition_state) && g_out_state == g_in_state)'),
        ('frame', '__CPROVER_assigns(g_ins, g_outs, g_events, g_in_at, g_out_at, g_in_kind, g_out_kind, g_in_name, g_out_name, g_in_ptr, g_out_ptr, g_in_state, g_out_state, g_gcalls, g_call_at)')]
    h = REGIONS + SB_DECL + ('  uintptr_t in_state; sb.transition_state = (void *)in_state; g_ins = 0; g_outs = 0; g_events = 0; g_gcalls = 0; int in_ret; g_gret = in_ret; long in_a; uintptr_t in_fn;\n'
                             '  struct %s r = $ROOT(&sb, "f", (void *)in_fn, &in_a);\n' % cs('rlbox::tainted<int, rlbox::vsbx>'))
    return Inst('c19_invoke_brackets', 'rlbox_sandbox<vsbx>& s, void* fp, long a', 's.INTERNAL_invoke_with_func_ptr<int(long)>("f", fp, a);', cl, h,
                leaves=[dyn, stub], prop=PROP, root_name='INTERNAL_invoke_with_func_ptr', tier=tier, pre=GH + HOOKS, facts=FACTS,
                opts={'extern_functions': ('vhook_in', 'vhook_out'), 'per_site_leaves': ()}, extra_replace=['vhook_in', 'vhook_out'],
                note='normal return: IN, backend call, OUT; abort points (argument/result conversion) lie inside the bracket with the guard armed')


def interceptor_inst(tier):
    TL = cs('rlbox::tainted<long, rlbox::vsbx>')
    TI = cs('rlbox::tainted<int, rlbox::vsbx>')
    post = ('struct %s app_cb_stub(void *target, struct %s *sb, struct %s a0)\n'
            '__CPROVER_requires(g_outs == 1 && g_ins == 0) /*@callback_body_is_inside_the_bracket*/\n'
            '__CPROVER_ensures(g_gcalls == __CPROVER_old(g_gcalls) + 1 && g_call_at == g_events && __CPROVER_return_value.data == g_gret)\n'
            '__CPROVER_assigns(g_gcalls, g_call_at);\n' % (TI, SB, TL))
    ctx = ('backend impl_get_executed_callback_sandbox_and_key(stub)', _is('impl_get_executed_callback_sandbox_and_key'),
           '__CPROVER_ensures(__CPROVER_pointer_equals($ret.first, g_cur_sbp))\n__CPROVER_ensures((unsigned long)$ret.second == g_cur_key)\n__CPROVER_assigns()')
    dyn = ('dynamic_check(abort point inside the bracket)', _is('dynamic_check'),
           '__CPROVER_requires(g_outs == 1 && g_ins == 0) /*@abort_point_has_an_armed_in_guard*/\n__CPROVER_ensures($0)\n__CPROVER_assigns()')
    cl = [('fresh', '__CPROVER_requires(g_ins == 0 && g_outs == 0 && g_events == 0 && g_gcalls == 0 && __CPROVER_r_ok((struct %s *)g_cur_sbp, sizeof(struct %s)))' % (SB, SB)),
          ('exactly_one_out_and_one_in', '__CPROVER_ensures(g_ins == 1 && g_outs == 1 && g_events == 2)'),
          ('out_before_body_before_in', '__CPROVER_ensures(g_out_at == 0 && g_in_at == 1 && g_gcalls == 1 && g_call_at == 1)'),
          ('kind_is_callback', '__CPROVER_ensures(g_in_kind == TR_CALLBACK && g_out_kind == TR_CALLBACK)'),
          ('payload_function_identity', '__CPROVER_ensures(g_out_ptr == g_cur_key && g_in_ptr == g_cur_key)'),
          ('payload_no_name', '__CPROVER_ensures(g_out_name == 0 && g_in_name == 0)'),
          ('payload_state', '__CPROVER_ensures(g_out_state == (unsigned long)((struct %s *)g_cur_sbp)->transition_state && g_in_state == g_out_state)' % SB),
          ('frame', '__CPROVER_assigns(g_ins, g_outs, g_events, g_in_at, g_out_at, g_in_kind, g_out_kind, g_in_name, g_out_name, g_in_ptr, g_out_ptr, g_in_state, g_out_state, g_gcalls, g_call_at)')]
    h = ('  struct %s sb; g_cur_sbp = &sb; uintptr_t in_key; g_cur_key = in_key; uintptr_t in_state; sb.transition_state = (void *)in_state;\n'
         '  g_ins = 0; g_outs = 0; g_events = 0; g_gcalls = 0; int in_ret; g_gret = in_ret; int in_guest_arg; g_noabort = 0; g_backend_nonnull = 0; g_expect_example = 0;\n'
         '  int r = $ROOT(in_guest_arg);\n' % SB)
    pick = lambda tu, fn: find_func(tu, 'sandbox_callback_interceptor', 'rlbox::rlbox_sandbox<rlbox::vsbx>')
    return Inst('c19_callback_brackets', 'rlbox_sandbox<vsbx>& s, tainted<int, vsbx> (*f)(rlbox_sandbox<vsbx>&, tainted<long, vsbx>)', 's.register_callback(f);', cl, h,
                leaves=[dyn, ctx], prop=PROP, root_name='sandbox_callback_interceptor', tier=tier, pre=GH + ' void *g_cur_sbp; unsigned long g_cur_key;\n' + HOOKS, post_protos=post,
                root_pick=pick, facts=FACTS, opts={'extern_functions': ('vhook_in', 'vhook_out'), 'indirect_stubs': {'*': 'app_cb_stub'}, 'per_site_leaves': ()},
                extra_replace=['vhook_in', 'vhook_out', 'app_cb_stub'], note='callback: OUT at entry, application function, IN at exit')


def units(tier):
    return [Unit('C19_transitions', [invoke_inst(tier), interceptor_inst(tier)], pre_cpp=PRE_CPP)]


ASSUMPTIONS = [
    'L-dtor / L-throw: the destructor of an armed scope_exit guard runs exactly once when its scope is left, by return or by unwinding (C++ language guarantee, not visible to a C verifier). For the exceptional exit the proved part is: at every abort point inside the crossing exactly one notification has been announced and its closing guard is armed',
    'hooks are recording stubs (they return); the backend call / application callback are stubs',
    'transition timing (RLBOX_MEASURE_TRANSITION_TIMES: std::chrono, vector of records) is not decided',
]
TRUSTED = ['C++ scope-exit and unwinding order for the guard object']
MANIFEST = {
    'level_text': 'With the transition hooks bound to recording stubs, the instantiated invoke glue is proved to announce exactly one IN before and exactly one OUT after the backend call (and the callback interceptor one OUT before and one IN after the application function), with kind, function identity and per-sandbox transition state equal in both notifications, on every normally returning path; and every abort point (argument/result conversion checks) is proved to lie strictly inside the bracket, where the closing guard is armed. Nesting follows by composing these contracts.',
    'level_note': 'Reduced claim: the closing notification on an exceptional exit relies on the C++ guarantee that the armed guard\'s destructor runs during unwinding (trusted lowering L-dtor/L-throw); the timing variant is not decided.',
}
