"""C19 - transition notifications bracket every boundary crossing and stay balanced (reduced claim, DESIGN.md C19).
With RLBOX_TRANSITION_ACTION_IN/OUT bound to two recording hooks, INTERNAL_invoke_with_func_ptr
(rlbox_sandbox.hpp:750-775) and sandbox_callback_interceptor (248-273) are extracted with the scope_exit guard lowered
by L-dtor; detail::scope_exit itself (rlbox_helpers.hpp:145-185) is verified as a class.
Normal return: the log is IN ... OUT (invoke) / OUT ... IN (callback) with equal payloads.
Exceptional exit: the invariant "at every abort point every announced crossing has an armed guard" is proved; that the
armed guard's destructor runs during unwinding is the C++ language guarantee (trusted, L-dtor/L-throw)."""
from vlib.unit import Unit, Inst, find_func
from .common import cs, PRE_GHOST
from .C03 import REGIONS, SB_DECL, sb_req, SB

PROP = 'C19'
TITLE = 'Transition notifications bracket every boundary crossing and stay balanced'
FUNCTIONS = ['rlbox_sandbox::INTERNAL_invoke_with_func_ptr with transition hooks (rlbox_sandbox.hpp:750-811)',
             'rlbox_sandbox::sandbox_callback_interceptor with transition hooks (215-297)', 'detail::scope_exit / make_scope_exit (rlbox_helpers.hpp:145-185)']

PRE_CPP = '''void vhook_in(int kind, const char* name, void* ptr, void* state);
void vhook_out(int kind, const char* name, void* ptr, void* state);
#define RLBOX_TRANSITION_ACTION_IN(k, n, p, s) ::vhook_in((int)(k), n, p, s)
#define RLBOX_TRANSITION_ACTION_OUT(k, n, p, s) ::vhook_out((int)(k), n, p, s)
'''
GH = PRE_GHOST + ''' unsigned g_ins, g_outs, g_events; unsigned g_in_at, g_out_at; unsigned g_call_at;
int g_in_kind, g_out_kind; unsigned long g_in_name, g_out_name, g_in_ptr, g_out_ptr, g_in_state, g_out_state; unsigned g_gcalls; int g_gret; unsigned g_armed_guards;
'''
HOOKS = '''
void vhook_in(int kind, const char *name, void *ptr, void *state)
__CPROVER_ensures(g_ins == __CPROVER_old(g_ins) + 1 && g_events == __CPROVER_old(g_events) + 1 && g_in_at == __CPROVER_old(g_events) && g_in_kind == kind && g_in_name == (unsigned long)name && g_in_ptr == (unsigned long)ptr && g_in_state == (unsigned long)state)
__CPROVER_assigns(g_ins, g_events, g_in_at, g_in_kind, g_in_name, g_in_ptr, g_in_state);
void vhook_out(int kind, const char *name, void *ptr, void *state)
__CPROVER_ensures(g_outs == __CPROVER_old(g_outs) + 1 && g_events == __CPROVER_old(g_events) + 1 && g_out_at == __CPROVER_old(g_events) && g_out_kind == kind && g_out_name == (unsigned long)name && g_out_ptr == (unsigned long)ptr && g_out_state == (unsigned long)state)
__CPROVER_assigns(g_outs, g_events, g_out_at, g_out_kind, g_out_name, g_out_ptr, g_out_state);
'''
FACTS = {'TR_INVOKE': ('(int)rlbox::rlbox_transition::INVOKE', 'int'), 'TR_CALLBACK': ('(int)rlbox::rlbox_transition::CALLBACK', 'int')}


def _is(name):
    def p(fn, rec):
        return fn.get('name') == name
    return p


def invoke_inst(tier):
    # the backend call happens strictly between the IN and the OUT notification; every abort point (dynamic_check)
    # sees exactly one IN and no OUT yet, i.e. an armed guard that will announce the OUT
    stub = ('backend impl_invoke_with_func_ptr(stub)', _is('impl_invoke_with_func_ptr'),
            '__CPROVER_requires(g_ins == 1 && g_outs == 0) /*@call_is_inside_the_bracket*/\n'
            '__CPROVER_requires(g_armed_guards == 1) /*@a_guard_that_announces_the_exit_is_armed_while_sandboxed_code_runs*/\n'
            '__CPROVER_ensures(g_gcalls == __CPROVER_old(g_gcalls) + 1 && g_call_at == g_events && $ret == g_gret)\n'
            '__CPROVER_ensures((unsigned long)((struct %s *)g_sb)->transition_state == g_state_after_call) /* sandboxed code may call back into code that sets a new transition state */\n'
            '__CPROVER_assigns(g_gcalls, g_call_at, ((struct %s *)g_sb)->transition_state)' % (SB, SB))
    dyn = ('dynamic_check(abort point inside the bracket)', _is('dynamic_check'),
           '__CPROVER_requires(g_ins == 1 && g_outs == 0) /*@abort_point_lies_inside_the_bracket*/\n'
           '__CPROVER_requires(g_armed_guards == 1) /*@abort_point_has_an_armed_out_guard*/\n__CPROVER_ensures($0)\n__CPROVER_assigns()')
    cl = sb_req('$this') + [
        ('fresh', '__CPROVER_requires(g_ins == 0 && g_outs == 0 && g_events == 0 && g_gcalls == 0 && g_armed_guards == 0 && g_sb == (void *)$this)'),
        ('every_guard_has_run', '__CPROVER_ensures(g_armed_guards == 0)'),
        ('exactly_one_in_and_one_out', '__CPROVER_ensures(g_ins == 1 && g_outs == 1 && g_events == 2)'),
        ('in_before_call_before_out', '__CPROVER_ensures(g_in_at == 0 && g_out_at == 1 && g_gcalls == 1 && g_call_at == 1)'),
        ('kind_is_invoke', '__CPROVER_ensures(g_in_kind == TR_INVOKE && g_out_kind == TR_INVOKE)'),
        ('payload_function_identity_and_the_state_current_at_each_notification', '__CPROVER_ensures(g_in_name == (unsigned long)$0 && g_out_name == (unsigned long)$0 && g_in_ptr == (unsigned long)$1 && g_out_ptr == (unsigned long)$1 && g_in_state == (unsigned long)__CPROVER_old($this->transition_state) && g_out_state == g_state_after_call && (unsigned long)$this->transition_state == g_state_after_call)'),
        ('frame', '__CPROVER_assigns(g_ins, g_outs, g_events, g_in_at, g_out_at, g_in_kind, g_out_kind, g_in_name, g_out_name, g_in_ptr, g_out_ptr, g_in_state, g_out_state, g_gcalls, g_call_at, g_armed_guards, $this->transition_state)')]
    h = REGIONS + SB_DECL + ('  g_sb = &sb; unsigned long in_state2; g_state_after_call = in_state2; uintptr_t in_state; sb.transition_state = (void *)in_state; g_ins = 0; g_outs = 0; g_events = 0; g_gcalls = 0; g_armed_guards = 0; int in_ret; g_gret = in_ret; long in_a; uintptr_t in_fn;\n'
                             '  struct %s r = $ROOT(&sb, "f", (void *)in_fn, &in_a);\n' % cs('rlbox::tainted<int, rlbox::vsbx>'))
    return Inst('c19_invoke_brackets', 'rlbox_sandbox<vsbx>& s, void* fp, long a', 's.INTERNAL_invoke_with_func_ptr<int(long)>("f", fp, a);', cl, h,
                leaves=[dyn, stub], prop=PROP, root_name='INTERNAL_invoke_with_func_ptr', tier=tier, pre=GH + ' void *g_sb; unsigned long g_state_after_call;\n' + HOOKS, facts=FACTS,
                opts={'extern_functions': ('vhook_in', 'vhook_out'), 'per_site_leaves': (), 'dtor_ghost': True}, extra_replace=['vhook_in', 'vhook_out'],
                note='normal return: IN, backend call, OUT; abort points (argument/result conversion) lie inside the bracket with the guard armed')


def per_sandbox_state_inst(tier):
    """the transition state is per sandbox: set through the public setter on two sandbox objects, an invocation on the first
    announces the first one's state in both notifications (no reference to how the state is stored)"""
    stub = ('backend impl_invoke_with_func_ptr(stub)', _is('impl_invoke_with_func_ptr'),
            '__CPROVER_ensures(g_gcalls == __CPROVER_old(g_gcalls) + 1 && $ret == g_gret)\n__CPROVER_assigns(g_gcalls)')
    cl = sb_req('$this') + [
        ('fresh', '__CPROVER_requires(g_ins == 0 && g_outs == 0 && g_events == 0 && g_gcalls == 0)'),
        ('both_notifications_carry_this_sandboxes_state', '__CPROVER_ensures(g_ins == 1 && g_outs == 1 && g_in_state == g_state_a && g_out_state == g_state_a)'),
        ('frame', '__CPROVER_assigns(g_ins, g_outs, g_events, g_in_at, g_out_at, g_in_kind, g_out_kind, g_in_name, g_out_name, g_in_ptr, g_out_ptr, g_in_state, g_out_state, g_gcalls, g_call_at)')]
    h = REGIONS + SB_DECL + ('  g_noabort = 0; struct %s other; unsigned long in_sa, in_sb; g_state_a = in_sa;\n'
                             '  $FN(set)(&sb, (void *)in_sa); $FN(set)(&other, (void *)in_sb);   /* the other sandbox gets an arbitrary (other) state afterwards */\n'
                             '  g_ins = 0; g_outs = 0; g_events = 0; g_gcalls = 0; int in_ret; g_gret = in_ret; long in_a; uintptr_t in_fn;\n'
                             '  struct %s r = $ROOT(&sb, "f", (void *)in_fn, &in_a);\n' % (SB, cs('rlbox::tainted<int, rlbox::vsbx>')))
    return Inst('c19_invoke_state_is_per_sandbox', 'rlbox_sandbox<vsbx>& s, void* fp, long a', 's.set_transition_state(fp); s.INTERNAL_invoke_with_func_ptr<int(long)>("f", fp, a);', cl, h,
                leaves=['dynamic_check', stub], prop=PROP, root_name='INTERNAL_invoke_with_func_ptr', tier=tier, pre=GH + ' unsigned long g_state_a;\n' + HOOKS, facts=FACTS,
                root_pick=lambda tu, fn: find_func(tu, 'INTERNAL_invoke_with_func_ptr', 'rlbox::rlbox_sandbox<rlbox::vsbx>'),
                extra_fns={'set': lambda tu: find_func(tu, 'set_transition_state', 'rlbox::rlbox_sandbox<rlbox::vsbx>')},
                opts={'extern_functions': ('vhook_in', 'vhook_out')}, extra_replace=['vhook_in', 'vhook_out'],
                note='two sandbox objects with states set through set_transition_state; black-box with respect to the storage of the state')


def interceptor_inst(tier):
    TL = cs('rlbox::tainted<long, rlbox::vsbx>')
    TI = cs('rlbox::tainted<int, rlbox::vsbx>')
    post = ('struct %s app_cb_stub(void *target, struct %s *sb, struct %s a0)\n'
            '__CPROVER_requires(g_outs == 1 && g_ins == 0) /*@callback_body_is_inside_the_bracket*/\n'
            '__CPROVER_requires(g_armed_guards == 1) /*@a_guard_that_announces_the_return_is_armed_while_the_callback_body_runs*/\n'
            '__CPROVER_requires(__CPROVER_rw_ok(sb, sizeof(*sb)))\n'
            '__CPROVER_ensures(g_gcalls == __CPROVER_old(g_gcalls) + 1 && g_call_at == g_events && __CPROVER_return_value.data == g_gret)\n'
            '__CPROVER_ensures((unsigned long)sb->transition_state == g_state_after_body) /* the callback body may set a new transition state */\n'
            '__CPROVER_assigns(g_gcalls, g_call_at, sb->transition_state);\n' % (TI, SB, TL))
    ctx = ('backend impl_get_executed_callback_sandbox_and_key(stub)', _is('impl_get_executed_callback_sandbox_and_key'),
           '__CPROVER_ensures(__CPROVER_pointer_equals($ret.first, g_cur_sbp))\n__CPROVER_ensures((unsigned long)$ret.second == g_cur_key)\n__CPROVER_assigns()')
    dyn = ('dynamic_check(abort point inside the bracket)', _is('dynamic_check'),
           '__CPROVER_requires(g_outs == 1 && g_ins == 0) /*@abort_point_lies_inside_the_bracket*/\n'
           '__CPROVER_requires(g_armed_guards == 1) /*@abort_point_has_an_armed_in_guard*/\n__CPROVER_ensures($0)\n__CPROVER_assigns()')
    cl = [('fresh', '__CPROVER_requires(g_ins == 0 && g_outs == 0 && g_events == 0 && g_gcalls == 0 && g_armed_guards == 0 && __CPROVER_r_ok((struct %s *)g_cur_sbp, sizeof(struct %s)))' % (SB, SB)),
          ('every_guard_has_run', '__CPROVER_ensures(g_armed_guards == 0)'),
          ('exactly_one_out_and_one_in', '__CPROVER_ensures(g_ins == 1 && g_outs == 1 && g_events == 2)'),
          ('out_before_body_before_in', '__CPROVER_ensures(g_out_at == 0 && g_in_at == 1 && g_gcalls == 1 && g_call_at == 1)'),
          ('kind_is_callback', '__CPROVER_ensures(g_in_kind == TR_CALLBACK && g_out_kind == TR_CALLBACK)'),
          ('payload_function_identity', '__CPROVER_ensures(g_out_ptr == g_cur_key && g_in_ptr == g_cur_key)'),
          ('payload_no_name', '__CPROVER_ensures(g_out_name == 0 && g_in_name == 0)'),
          ('each_notification_carries_the_state_current_at_that_moment', '__CPROVER_ensures(g_out_state == (unsigned long)__CPROVER_old(((struct %s *)g_cur_sbp)->transition_state) && g_in_state == g_state_after_body && (unsigned long)((struct %s *)g_cur_sbp)->transition_state == g_state_after_body)' % (SB, SB)),
          ('frame', '__CPROVER_assigns(g_ins, g_outs, g_events, g_in_at, g_out_at, g_in_kind, g_out_kind, g_in_name, g_out_name, g_in_ptr, g_out_ptr, g_in_state, g_out_state, g_gcalls, g_call_at, g_armed_guards, ((struct %s *)g_cur_sbp)->transition_state)' % SB)]
    h = ('  struct %s sb; g_cur_sbp = &sb; uintptr_t in_key; g_cur_key = in_key; uintptr_t in_state; sb.transition_state = (void *)in_state; unsigned long in_state2; g_state_after_body = in_state2;\n'
         '  g_ins = 0; g_outs = 0; g_events = 0; g_gcalls = 0; g_armed_guards = 0; int in_ret; g_gret = in_ret; int in_guest_arg; g_noabort = 0; g_backend_nonnull = 0; g_expect_example = 0;\n'
         '  int r = $ROOT(in_guest_arg);\n' % SB)
    pick = lambda tu, fn: find_func(tu, 'sandbox_callback_interceptor', 'rlbox::rlbox_sandbox<rlbox::vsbx>')
    return Inst('c19_callback_brackets', 'rlbox_sandbox<vsbx>& s, tainted<int, vsbx> (*f)(rlbox_sandbox<vsbx>&, tainted<long, vsbx>)', 's.register_callback(f);', cl, h,
                leaves=[dyn, ctx], prop=PROP, root_name='sandbox_callback_interceptor', tier=tier, pre=GH + ' void *g_cur_sbp; unsigned long g_cur_key; unsigned long g_state_after_body;\n' + HOOKS, post_protos=post,
                root_pick=pick, facts=FACTS, opts={'extern_functions': ('vhook_in', 'vhook_out'), 'indirect_stubs': {'*': 'app_cb_stub'}, 'per_site_leaves': (), 'dtor_ghost': True},
                extra_replace=['vhook_in', 'vhook_out', 'app_cb_stub'], note='callback: OUT at entry, application function, IN at exit')


def single_hook_insts(only, tier):
    """an embedder may define only one of the two hooks: the one that is defined is still announced exactly once per crossing, on
    the right side of the sandboxed call / callback body (units compiled with only RLBOX_TRANSITION_ACTION_<only> defined)"""
    o = only.lower()
    hook = [h for h in HOOKS.strip().split('\nvoid ') if h.replace('void ', '').startswith('vhook_' + o)][0]
    hook = ('' if hook.startswith('void ') else 'void ') + hook + '\n'
    other = 'g_outs' if o == 'in' else 'g_ins'
    mine = 'g_ins' if o == 'in' else 'g_outs'
    fr = ('g_ins, g_events, g_in_at, g_in_kind, g_in_name, g_in_ptr, g_in_state' if o == 'in' else 'g_outs, g_events, g_out_at, g_out_kind, g_out_name, g_out_ptr, g_out_state')
    out = []
    # invoke: IN before the call, OUT after it
    stub = ('backend impl_invoke_with_func_ptr(stub)', _is('impl_invoke_with_func_ptr'),
            '__CPROVER_ensures(g_gcalls == __CPROVER_old(g_gcalls) + 1 && g_call_at == g_events && $ret == g_gret)\n__CPROVER_assigns(g_gcalls, g_call_at)')
    cl = sb_req('$this') + [
        ('fresh', '__CPROVER_requires(g_ins == 0 && g_outs == 0 && g_events == 0 && g_gcalls == 0)'),
        ('the_defined_hook_is_announced_once_on_its_side_of_the_call', '__CPROVER_ensures(%s == 1 && %s == 0 && g_events == 1 && g_gcalls == 1 && g_call_at == %d && g_%s_kind == TR_INVOKE && g_%s_ptr == (unsigned long)$1)' % (mine, other, 1 if o == 'in' else 0, o, o)),
        ('frame', '__CPROVER_assigns(%s, g_gcalls, g_call_at)' % fr)]
    h = REGIONS + SB_DECL + ('  g_ins = 0; g_outs = 0; g_events = 0; g_gcalls = 0; int in_ret; g_gret = in_ret; long in_a; uintptr_t in_fn; g_noabort = 0;\n'
                             '  struct %s r = $ROOT(&sb, "f", (void *)in_fn, &in_a);\n' % cs('rlbox::tainted<int, rlbox::vsbx>'))
    out.append(Inst('c19_invoke_only_%s_hook_defined' % o, 'rlbox_sandbox<vsbx>& s, void* fp, long a', 's.INTERNAL_invoke_with_func_ptr<int(long)>("f", fp, a);', cl, h,
                    leaves=['dynamic_check', stub], prop=PROP, root_name='INTERNAL_invoke_with_func_ptr', tier=tier, pre=GH + hook, facts=FACTS,
                    opts={'extern_functions': ('vhook_' + o,)}, extra_replace=['vhook_' + o]))
    # callback: OUT before the body, IN after it
    TL = cs('rlbox::tainted<long, rlbox::vsbx>')
    TI = cs('rlbox::tainted<int, rlbox::vsbx>')
    post = ('struct %s app_cb_stub(void *target, struct %s *sb, struct %s a0)\n'
            '__CPROVER_ensures(g_gcalls == __CPROVER_old(g_gcalls) + 1 && g_call_at == g_events && __CPROVER_return_value.data == g_gret)\n'
            '__CPROVER_assigns(g_gcalls, g_call_at);\n' % (TI, SB, TL))
    ctx = ('backend impl_get_executed_callback_sandbox_and_key(stub)', _is('impl_get_executed_callback_sandbox_and_key'),
           '__CPROVER_ensures(__CPROVER_pointer_equals($ret.first, g_cur_sbp))\n__CPROVER_ensures((unsigned long)$ret.second == g_cur_key)\n__CPROVER_assigns()')
    cl = [('fresh', '__CPROVER_requires(g_ins == 0 && g_outs == 0 && g_events == 0 && g_gcalls == 0 && __CPROVER_r_ok((struct %s *)g_cur_sbp, sizeof(struct %s)))' % (SB, SB)),
          ('the_defined_hook_is_announced_once_on_its_side_of_the_body', '__CPROVER_ensures(%s == 1 && %s == 0 && g_events == 1 && g_gcalls == 1 && g_call_at == %d && g_%s_kind == TR_CALLBACK && g_%s_ptr == g_cur_key)' % (mine, other, 0 if o == 'in' else 1, o, o)),
          ('frame', '__CPROVER_assigns(%s, g_gcalls, g_call_at)' % fr)]
    h = ('  struct %s sb; g_cur_sbp = &sb; uintptr_t in_key; g_cur_key = in_key;\n'
         '  g_ins = 0; g_outs = 0; g_events = 0; g_gcalls = 0; int in_ret; g_gret = in_ret; int in_guest_arg; g_noabort = 0; g_backend_nonnull = 0; g_expect_example = 0;\n'
         '  int r = $ROOT(in_guest_arg);\n' % SB)
    pick = lambda tu, fn: find_func(tu, 'sandbox_callback_interceptor', 'rlbox::rlbox_sandbox<rlbox::vsbx>')
    out.append(Inst('c19_callback_only_%s_hook_defined' % o, 'rlbox_sandbox<vsbx>& s, tainted<int, vsbx> (*f)(rlbox_sandbox<vsbx>&, tainted<long, vsbx>)', 's.register_callback(f);', cl, h,
                    leaves=['dynamic_check', ctx], prop=PROP, root_name='sandbox_callback_interceptor', tier=tier, pre=GH + ' void *g_cur_sbp; unsigned long g_cur_key;\n' + hook, post_protos=post,
                    root_pick=pick, facts=FACTS, opts={'extern_functions': ('vhook_' + o,), 'indirect_stubs': {'*': 'app_cb_stub'}},
                    extra_replace=['vhook_' + o, 'app_cb_stub']))
    pre_cpp = ('void vhook_%s(int kind, const char* name, void* ptr, void* state);\n#define RLBOX_TRANSITION_ACTION_%s(k, n, p, s) ::vhook_%s((int)(k), n, p, s)\n' % (o, only, o))
    return Unit('C19_only_%s_hook' % o, out, pre_cpp=pre_cpp)


def exceptional_inst(which, tier):
    """the same two functions under L-throw (DESIGN.md 3.2): every abort point and the sandboxed call / callback body may end in an
    exception; whatever the exit, the crossing that was announced is closed by exactly one notification of the other kind, with the
    same kind and function identity, and every guard has run"""
    base = invoke_inst(tier) if which == 'invoke' else interceptor_inst(tier)
    first, second = ('in', 'out') if which == 'invoke' else ('out', 'in')
    dyn = ('dynamic_check(throws when the check fails)', _is('dynamic_check'),
           '__CPROVER_ensures(g_exc == !$0)\n__CPROVER_assigns(g_exc)')
    keep = [c for c in base.contract if c[0] in ('wf', 'sandbox_obj', 'fresh', 'every_guard_has_run', 'frame') or c[1].startswith('__CPROVER_requires')]
    keep = [(k, t.replace('__CPROVER_assigns(', '__CPROVER_assigns(g_exc, ') if k == 'frame' else t) for k, t in keep]
    kind = 'TR_INVOKE' if which == 'invoke' else 'TR_CALLBACK'
    cl = keep[:-1] + [
        ('no_exception_in_flight_at_entry', '__CPROVER_requires(!g_exc)'),
        ('announced_once_and_closed_once_on_every_exit', '__CPROVER_ensures(g_ins == 1 && g_outs == 1 && g_events == 2 && g_%s_at == 0 && g_%s_at == 1)' % (first, second)),
        ('closing_notification_matches_the_opening_one', '__CPROVER_ensures(g_in_kind == %s && g_out_kind == %s && g_in_ptr == g_out_ptr && g_in_name == g_out_name)' % (kind, kind)),
        ('sandboxed_code_or_callback_body_runs_at_most_once_inside_the_bracket', '__CPROVER_ensures(g_gcalls <= 1 && (g_gcalls == 1 ==> g_call_at == 1))'),
        keep[-1]]
    base.contract = cl
    base.name = 'c19_%s_brackets_exceptional_exit' % ('invoke' if which == 'invoke' else 'callback')
    leaves = []
    for lf in base.leaves:
        if isinstance(lf, tuple) and lf[0].startswith('dynamic_check'):
            leaves.append(dyn)
        elif isinstance(lf, tuple) and 'impl_invoke_with_func_ptr' in lf[0]:
            # the sandboxed call may end in an exception (a callback body that aborted inside it)
            leaves.append((lf[0] + ' may throw', lf[1], lf[2].replace('__CPROVER_assigns(', '__CPROVER_assigns(g_exc, ')))
        else:
            leaves.append(lf)
    base.leaves = leaves
    base.opts = dict(base.opts, exc_model=True)
    base.pre = base.pre + ' _Bool g_exc;\n'
    if base.post_protos:
        base.post_protos = base.post_protos.replace('__CPROVER_assigns(g_gcalls, g_call_at, sb->transition_state)', '__CPROVER_assigns(g_exc, g_gcalls, g_call_at, sb->transition_state)')
    base.harness = base.harness.replace('g_ins = 0;', 'g_exc = 0; g_ins = 0;', 1)
    base.replay = None
    base.note = 'L-throw: exits by exception at every abort point and out of the %s; the guard destructors run as lowered from the real scope_exit' % ('sandboxed call' if which == 'invoke' else 'callback body')
    return base


# ---------------------------------------------------------------- transition timing (RLBOX_MEASURE_TRANSITION_TIMES)
TIMING_CPP = '#define RLBOX_MEASURE_TRANSITION_TIMES\n'
TG = PRE_GHOST + ''' unsigned g_armed_guards; unsigned g_records, g_gcalls, g_clock_reads; int g_rec_kind; unsigned long g_rec_name, g_rec_ptr; long g_rec_ns; unsigned g_rec_after_calls; int g_gret;
long vstd_clock_now(void)
__CPROVER_ensures(g_clock_reads == __CPROVER_old(g_clock_reads) + 1 && __CPROVER_return_value >= 0 && __CPROVER_return_value < (1L << 62))
__CPROVER_assigns(g_clock_reads);
void vstd_timing_push(void *vec, int kind, const char *name, void *ptr, long ns)
__CPROVER_ensures(g_records == __CPROVER_old(g_records) + 1 && g_rec_kind == kind && g_rec_name == (unsigned long)name && g_rec_ptr == (unsigned long)ptr && g_rec_ns == ns && g_rec_after_calls == g_gcalls)
__CPROVER_assigns(g_records, g_rec_kind, g_rec_name, g_rec_ptr, g_rec_ns, g_rec_after_calls);
'''


def timing_invoke_inst(tier):
    stub = ('backend impl_invoke_with_func_ptr(stub)', _is('impl_invoke_with_func_ptr'),
            '__CPROVER_requires(g_records == 0) /*@record_is_written_after_the_call*/\n'
            '__CPROVER_requires(g_armed_guards == 1) /*@the_guard_that_writes_the_record_is_armed_while_sandboxed_code_runs*/\n'
            '__CPROVER_ensures(g_gcalls == __CPROVER_old(g_gcalls) + 1 && $ret == g_gret)\n__CPROVER_assigns(g_gcalls)')
    cl = sb_req('$this') + [
        ('fresh', '__CPROVER_requires(g_records == 0 && g_gcalls == 0 && g_clock_reads == 0 && g_armed_guards == 0)'),
        ('exactly_one_timing_record_per_crossing', '__CPROVER_ensures(g_records == 1 && g_gcalls == 1 && g_rec_after_calls == 1)'),
        ('record_describes_this_crossing', '__CPROVER_ensures(g_rec_kind == TR_INVOKE && g_rec_name == (unsigned long)$0 && g_rec_ptr == (unsigned long)$1)'),
        ('clock_read_at_entry_and_exit', '__CPROVER_ensures(g_clock_reads == 2)'),
        ('frame', '__CPROVER_assigns(g_records, g_rec_kind, g_rec_name, g_rec_ptr, g_rec_ns, g_rec_after_calls, g_gcalls, g_clock_reads, g_armed_guards)')]
    h = REGIONS + SB_DECL + ('  g_noabort = 0; g_armed_guards = 0; g_records = 0; g_gcalls = 0; g_clock_reads = 0; int in_ret; g_gret = in_ret; long in_a; uintptr_t in_fn;\n'
                             '  struct %s r = $ROOT(&sb, "f", (void *)in_fn, &in_a);\n' % cs('rlbox::tainted<int, rlbox::vsbx>'))
    return Inst('c19_invoke_timing_record', 'rlbox_sandbox<vsbx>& s, void* fp, long a', 's.INTERNAL_invoke_with_func_ptr<int(long)>("f", fp, a);', cl, h,
                leaves=['dynamic_check', stub], prop=PROP, root_name='INTERNAL_invoke_with_func_ptr', tier=tier, pre=TG, facts=FACTS,
                opts={'chrono_model': True, 'dtor_ghost': True}, extra_replace=['vstd_clock_now', 'vstd_timing_push'],
                note='RLBOX_MEASURE_TRANSITION_TIMES: std::chrono as an opaque clock (M-chrono), transition_times.push_back as a recording stub')


def timing_callback_inst(tier):
    TL = cs('rlbox::tainted<long, rlbox::vsbx>')
    TI = cs('rlbox::tainted<int, rlbox::vsbx>')
    post = ('struct %s app_cb_stub(void *target, struct %s *sb, struct %s a0)\n'
            '__CPROVER_requires(g_records == 0) /*@record_is_written_after_the_callback_body*/\n'
            '__CPROVER_requires(g_armed_guards == 1) /*@the_guard_that_writes_the_record_is_armed_while_the_callback_body_runs*/\n'
            '__CPROVER_ensures(g_gcalls == __CPROVER_old(g_gcalls) + 1 && __CPROVER_return_value.data == g_gret)\n'
            '__CPROVER_assigns(g_gcalls);\n' % (TI, SB, TL))
    ctx = ('backend impl_get_executed_callback_sandbox_and_key(stub)', _is('impl_get_executed_callback_sandbox_and_key'),
           '__CPROVER_ensures(__CPROVER_pointer_equals($ret.first, g_cur_sbp))\n__CPROVER_ensures((unsigned long)$ret.second == g_cur_key)\n__CPROVER_assigns()')
    cl = [('fresh', '__CPROVER_requires(g_records == 0 && g_gcalls == 0 && g_clock_reads == 0 && g_armed_guards == 0 && __CPROVER_rw_ok((struct %s *)g_cur_sbp, sizeof(struct %s)))' % (SB, SB)),
          ('exactly_one_timing_record_per_crossing', '__CPROVER_ensures(g_records == 1 && g_gcalls == 1 && g_rec_after_calls == 1)'),
          ('record_describes_this_crossing', '__CPROVER_ensures(g_rec_kind == TR_CALLBACK && g_rec_name == 0 && g_rec_ptr == g_cur_key)'),
          ('clock_read_at_entry_and_exit', '__CPROVER_ensures(g_clock_reads == 2)'),
          ('frame', '__CPROVER_assigns(g_records, g_rec_kind, g_rec_name, g_rec_ptr, g_rec_ns, g_rec_after_calls, g_gcalls, g_clock_reads, g_armed_guards)')]
    h = ('  struct %s sb; g_cur_sbp = &sb; uintptr_t in_key; g_cur_key = in_key;\n'
         '  g_armed_guards = 0; g_records = 0; g_gcalls = 0; g_clock_reads = 0; int in_ret; g_gret = in_ret; int in_guest_arg; g_noabort = 0; g_backend_nonnull = 0; g_expect_example = 0;\n'
         '  int r = $ROOT(in_guest_arg);\n' % SB)
    pick = lambda tu, fn: find_func(tu, 'sandbox_callback_interceptor', 'rlbox::rlbox_sandbox<rlbox::vsbx>')
    return Inst('c19_callback_timing_record', 'rlbox_sandbox<vsbx>& s, tainted<int, vsbx> (*f)(rlbox_sandbox<vsbx>&, tainted<long, vsbx>)', 's.register_callback(f);', cl, h,
                leaves=['dynamic_check', ctx], prop=PROP, root_name='sandbox_callback_interceptor', tier=tier, pre=TG + ' void *g_cur_sbp; unsigned long g_cur_key;\n', post_protos=post,
                root_pick=pick, facts=FACTS, opts={'indirect_stubs': {'*': 'app_cb_stub'}, 'dtor_ghost': True}, extra_replace=['vstd_clock_now', 'vstd_timing_push', 'app_cb_stub'],
                note='RLBOX_MEASURE_TRANSITION_TIMES on the callback path')


def timing_exceptional_inst(which, tier):
    """the timing instances under L-throw: exactly one timing record per crossing on every exit (an exception out of the sandboxed call /
    callback body, or an abort at an argument / result conversion inside the crossing)"""
    base = timing_invoke_inst(tier) if which == 'invoke' else timing_callback_inst(tier)
    dyn = ('dynamic_check(throws when the check fails)', _is('dynamic_check'), '__CPROVER_ensures(g_exc == !$0)\n__CPROVER_assigns(g_exc)')
    keep = [c for c in base.contract if c[1].startswith('__CPROVER_requires')]
    frame = [c for c in base.contract if c[0] == 'frame'][0]
    cl = keep + [('no_exception_in_flight_at_entry', '__CPROVER_requires(!g_exc)'),
                 ('exactly_one_timing_record_on_every_exit', '__CPROVER_ensures(g_records == 1 && g_gcalls <= 1 && g_clock_reads == 2)'),
                 ('record_describes_this_crossing', [c for c in base.contract if c[0] == 'record_describes_this_crossing'][0][1]),
                 ('every_guard_has_run', '__CPROVER_ensures(g_armed_guards == 0)'),
                 ('frame', frame[1].replace('__CPROVER_assigns(', '__CPROVER_assigns(g_exc, '))]
    base.contract = cl
    base.name = base.name + '_exceptional_exit'
    leaves = []
    for lf in base.leaves:
        if lf == 'dynamic_check':
            leaves.append(dyn)
        elif isinstance(lf, tuple) and 'impl_invoke_with_func_ptr' in lf[0]:
            leaves.append((lf[0] + ' may throw', lf[1], lf[2].replace('__CPROVER_assigns(g_gcalls)', '__CPROVER_assigns(g_exc, g_gcalls)')))
        else:
            leaves.append(lf)
    base.leaves = leaves
    base.opts = dict(base.opts, exc_model=True)
    base.pre = base.pre + ' _Bool g_exc;\n'
    if base.post_protos:
        base.post_protos = base.post_protos.replace('__CPROVER_assigns(g_gcalls);', '__CPROVER_assigns(g_exc, g_gcalls);')
    base.harness = base.harness.replace('g_armed_guards = 0;', 'g_exc = 0; g_armed_guards = 0;', 1)
    base.replay = None
    base.note = 'L-throw on the timing configuration: the record is written by the guard on every exit'
    return base


def timing_units(tier):
    return [Unit('C19_timing', [timing_invoke_inst(tier), timing_callback_inst(tier), timing_exceptional_inst('invoke', tier), timing_exceptional_inst('callback', tier)], pre_cpp=TIMING_CPP)]


def units(tier):
    from .common import base_at_offset_zero_inst
    return [Unit('C19_transitions', [invoke_inst(tier), interceptor_inst(tier), per_sandbox_state_inst(tier), exceptional_inst('invoke', tier), exceptional_inst('callback', tier),
                                     base_at_offset_zero_inst('c19_executing_sandbox_pointer_designates_the_sandbox_object', PROP, ['rlbox::vsbx'], tier)], pre_cpp=PRE_CPP), single_hook_insts('IN', tier), single_hook_insts('OUT', tier)] + timing_units(tier)


ASSUMPTIONS = [
    'L-dtor / L-throw: the destructor of a scope_exit guard runs exactly once when its scope is left, by return or by unwinding (C++ language guarantee, not visible to a C verifier). Exceptional exits are modelled (instances *_exceptional_exit): a throwing callee returns with the ghost flag g_exc set, the function then leaves at once through the lowered destructors of the guards constructed so far; dynamic_check throws exactly when its check is false, the sandboxed call / callback body may always throw; std::uncaught_exceptions() is that flag',
    'hooks are recording stubs (they return); the backend call / application callback are stubs',
    'transition timing (RLBOX_MEASURE_TRANSITION_TIMES): std::chrono as an opaque clock returning arbitrary tick counts (M-chrono), transition_times.push_back as a recording stub; the recorded duration itself is not specified',
]
TRUSTED = ['C++ scope-exit and unwinding order for the guard object']
MANIFEST = {
    'level_text': 'With the transition hooks bound to recording stubs, the instantiated invoke glue is proved to announce exactly one IN before and exactly one OUT after the backend call (and the callback interceptor one OUT before and one IN after the application function), with kind and function identity equal in both notifications and each carrying the per-sandbox transition state that is current at that moment (the crossing itself may change it), on every normally returning path; and every abort point (argument/result conversion checks) is proved to lie strictly inside the bracket, where a closing guard is armed - a ghost counts the scope-exit guards that are alive (incremented where the guard object is created, decremented where its destructor runs), and every abort point, the backend call and the callback body require it to be 1. Nesting follows by composing these contracts.',
    'level_note': 'Exits by exception are proved on the L-throw model (instances *_exceptional_exit: announced once and closed once with the same kind and identity on every exit, the real scope_exit destructor and lambda body run where unwinding would run them); what stays trusted is that C++ runs those destructors during unwinding in that order. Configurations with only one of the two hooks defined are separate units. With RLBOX_MEASURE_TRANSITION_TIMES the same two functions are proved to read the clock at entry and exit and to append exactly one timing record per crossing, after the backend call / callback body, carrying the kind, name and function identity of that crossing.',
}
