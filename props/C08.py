"""C08 - struct marshalling follows the sandbox ABI layout and round-trips every field (reduced claim, DESIGN.md C08).
A family of structs (/verif/backend/vstructs.hpp: every integer width class, char, pointer, integer array, nested
struct; declared order, reversed order) is described to RLBox through the real rlbox_load_structs_from_library macros.
Functions under contract (macro-expanded bodies, rlbox_struct_support.hpp:38-62, 84-333):
tainted_volatile<S>::operator=(const tainted<S>&), tainted<S>(const tainted_volatile<S>&),
tainted<S>::get_raw_sandbox_value (UNSAFE_sandboxed), convert_type_class<...>::run (nested), Sbx_<lib>_<S> layout."""
from vlib.unit import Unit, Inst, find_func
from .common import cs, PRE_GHOST, mi
from .C03 import REGIONS, OBJVIEW, SB_DECL, sb_req, SB

PROP = 'C08'
TITLE = 'Struct marshalling follows the sandbox ABI layout and round-trips every field'
FUNCTIONS = ['tainted_volatile<S>::operator=(const tainted<S>&) (rlbox_struct_support.hpp:271-288)', 'tainted_volatile<S>::get_raw_value (UNSAFE_unverified of a struct in sandbox memory)', 'tainted<S>::tainted(const tainted_volatile<S>&) (230-243)',
             'tainted<S>::get_raw_sandbox_value (196-209)', 'detail::convert_type_class<...>::run (294-333)', 'Sbx_vlib_<S><vsbx> (38-62)']

I32 = (-(2 ** 31), 2 ** 31 - 1)
# independent description of the family: field name -> kind
FIELDS = {
    'VInner': [('a', 'int'), ('b', 'long')],
    'VOuter': [('c', 'char'), ('l', 'long'), ('ul', 'ulong'), ('i', 'int'), ('ll', 'llong'), ('arr', 'long3'), ('p', 'ptr'), ('in', 'VInner'), ('s', 'short')],
    'VMisc': [('col', 'enum'), ('b', 'bool'), ('uc', 'uchar'), ('d', 'double'), ('fl', 'float'), ('pa', 'ptr2'), ('us', 'ushort')],
    'VFn': [('cb', 'fnptr'), ('tag', 'int'), ('tab', 'fnptr2')],
    'VRev': [('s', 'short'), ('in', 'VInner'), ('p', 'ptr'), ('arr', 'long3'), ('ll', 'llong'), ('i', 'int'), ('ul', 'ulong'), ('l', 'long'), ('c', 'char')],
}
GUEST_C = {'enum': 'uint32_t', 'bool': '_Bool', 'uchar': 'uint8_t', 'ushort': 'uint16_t', 'double': 'double', 'float': 'float', 'char': 'int8_t', 'short': 'int16_t', 'int': 'int32_t', 'long': 'int32_t', 'ulong': 'uint32_t', 'llong': 'int64_t', 'ptr': 'uint32_t', 'fnptr': 'uint32_t'}


# function-pointer fields: the backend's function-pointer representation (A_backend, function-pointer form: an arbitrary value
# g_fn_repr / host entry g_fn_host), never the data-pointer swizzle; null stays null
FN_TO_GUEST = '__CPROVER_ensures(((uintptr_t)%s == 0 ==> %s == 0) && ((uintptr_t)%s != 0 ==> %s == g_fn_repr))'
FN_TO_APP = '__CPROVER_ensures((%s == 0 ==> (uintptr_t)%s == 0) && (%s != 0 ==> (uintptr_t)%s == g_fn_host))'
FN_GHOST = ' unsigned int g_fn_repr; unsigned long g_fn_host;\n'
FN_H = '  unsigned int in_fn_repr; g_fn_repr = in_fn_repr; unsigned long in_fn_host; g_fn_host = in_fn_host;\n'
_fnp = lambda name: (lambda fn, rec: fn.get('name') == name and 'IPF' in fn.get('mangledName', ''))
FN_LEAVES = [
    ('vsbx.impl_get_sandboxed_pointer_no_ctx<function pointer>(A_backend)', _fnp('impl_get_sandboxed_pointer_no_ctx'),
     '__CPROVER_requires($0 != 0)\n__CPROVER_ensures($ret == g_fn_repr)\n__CPROVER_assigns()'),
    ('vsbx.impl_get_unsandboxed_pointer_no_ctx<function pointer>(A_backend)', _fnp('impl_get_unsandboxed_pointer_no_ctx'),
     '__CPROVER_requires($0 != 0)\n__CPROVER_ensures((unsigned long)$ret == g_fn_host)\n__CPROVER_assigns()'),
    ('vsbx.impl_get_sandboxed_pointer<function pointer>(A_backend)', _fnp('impl_get_sandboxed_pointer'),
     '__CPROVER_requires($0 != 0)\n__CPROVER_ensures($ret == g_fn_repr)\n__CPROVER_assigns()'),
    ('vsbx.impl_get_unsandboxed_pointer<function pointer>(A_backend)', _fnp('impl_get_unsandboxed_pointer'),
     '__CPROVER_requires($0 != 0)\n__CPROVER_ensures((unsigned long)$ret == g_fn_host)\n__CPROVER_assigns()'),
]


def guest_struct_decl(S):
    out = 'struct GUEST_%s { ' % S
    for f, k in FIELDS[S]:
        if k == 'long3':
            out += 'int32_t %s[3]; ' % f
        elif k in ('ptr2', 'fnptr2'):
            out += 'uint32_t %s[2]; ' % f
        elif k in FIELDS:
            out += 'struct GUEST_%s %s; ' % (k, f)
        else:
            out += '%s %s; ' % (GUEST_C[k], f)
    return out + '};\n'


def spec_decls(S):
    s = ''
    for k in dict.fromkeys([k for f, k in FIELDS[S] if k in FIELDS]):
        s += spec_decls(k)
    return s + guest_struct_decl(S)


def leaves_of(path, S, fn):
    """iterate scalar leaves: fn(path list, kind) for every scalar field (arrays unrolled, nested structs descended)"""
    out = []
    for f, k in FIELDS[S]:
        if k == 'long3':
            for j in range(3):
                out.append(fn(path + [f], 'long', j))
        elif k in ('ptr2', 'fnptr2'):
            for j in range(2):
                out.append(fn(path + [f], k[:-1], j))
        elif k in FIELDS:
            out += leaves_of(path + [f], k, fn)
        else:
            out.append(fn(path + [f], k, None))
    return out


def app_expr(base, path, idx):
    """value of the field in a tainted<S> object (wrapper per field: .data; arrays: std::array)"""
    e = base + ''.join('%s%s' % ('->' if i == 0 else '.', p) for i, p in enumerate(path)) + '.data'
    return e + ('._M_elems[%d]' % idx if idx is not None else '')


def guest_expr(base, path, idx):
    """value of the field in the guest image viewed as tainted_volatile<S> (wrapper per field)"""
    return app_expr(base, path, idx)


def sbx_expr(base, path, idx):
    """value of the field in a plain Sbx_vlib_S<vsbx> struct"""
    e = base + ''.join('.%s' % p for p in path)
    return e + ('[%d]' % idx if idx is not None else '')


def eqv(a, b, k):
    if k in ('double', 'float'):
        return '((%s) == (%s) || ((%s) != (%s) && (%s) != (%s)))' % (a, b, a, a, b, b)
    return 'MI(%s) == MI(%s)' % (a, b)


def fits(kind, e):
    if kind == 'long':
        return '(MI(%s) >= %s && MI(%s) <= %s)' % (e, mi(I32[0]), e, mi(I32[1]))
    if kind == 'ulong':
        return '(MI(%s) <= %s)' % (e, mi(2 ** 32 - 1))
    return '1'


def layout_asserts(S):
    """size/alignment/offsets of the guest image (as the instantiation lays it out) against the independent fixed-width struct"""
    SBX = cs('rlbox::Sbx_vlib_%s<rlbox::vsbx>' % S)
    TV = cs('rlbox::tainted_volatile<rlbox::%s, rlbox::vsbx>' % S)
    s = '  __CPROVER_assert(sizeof(struct %s) == sizeof(struct GUEST_%s), "C08 layout: size of the guest image of %s");\n' % (SBX, S, S)
    s += '  __CPROVER_assert(_Alignof(struct %s) == _Alignof(struct GUEST_%s), "C08 layout: alignment of the guest image of %s");\n' % (SBX, S, S)
    s += '  __CPROVER_assert(sizeof(struct %s) == sizeof(struct GUEST_%s), "C08 layout: the tainted_volatile view has the guest size");\n' % (TV, S)
    for f, k in FIELDS[S]:
        s += '  __CPROVER_assert(__builtin_offsetof(struct %s, %s) == __builtin_offsetof(struct GUEST_%s, %s), "C08 layout: offset of %s.%s");\n' % (SBX, f, S, f, S, f)
        s += '  __CPROVER_assert(__builtin_offsetof(struct %s, %s) == __builtin_offsetof(struct GUEST_%s, %s), "C08 layout: offset of %s.%s in the tainted_volatile view");\n' % (TV, f, S, f, S, f)
    return s


def store_inst(S, tier):
    TV = cs('rlbox::tainted_volatile<rlbox::%s, rlbox::vsbx>' % S)
    TT = cs('rlbox::tainted<rlbox::%s, rlbox::vsbx>' % S)
    W = 'V_WHICH((uintptr_t)$this)'
    cl = [('wf', '__CPROVER_requires(V_BACKEND_WF)'),
          ('cell_is_guest_image', '__CPROVER_requires(__CPROVER_rw_ok($this, sizeof(struct GUEST_%s)) && V_WHICH((uintptr_t)$this) != -1 && g_expect_example == (uintptr_t)$this)' % S),
          ('src_obj', '__CPROVER_requires(__CPROVER_r_ok($0, sizeof(struct %s)))' % TT)]
    na = leaves_of([], S, lambda p, k, j: fits(k, app_expr('$0', p, j)))
    cl.append(('noabort_pre', '__CPROVER_requires(g_noabort ==> (%s))' % (' && '.join(x for x in na if x != '1') or '1')))

    def post(p, k, j):
        src, dst = app_expr('$0', p, j), guest_expr('$this', p, j)
        tag = 'field_%s%s' % ('_'.join(p), '' if j is None else '_%d' % j)
        if k == 'ptr':
            return (tag, '__CPROVER_ensures(((uintptr_t)%s == 0 ==> %s == 0) && (((uintptr_t)%s != 0 && V_IN(%s, (uintptr_t)%s)) ==> MI(%s) == MI((uintptr_t)%s) - MI(V_BASE[%s])))' % (src, dst, src, W, src, dst, src, W))
        if k == 'fnptr':
            return (tag, FN_TO_GUEST % (src, dst, src, dst))
        return (tag, '__CPROVER_ensures(%s)' % eqv(dst, src, k))
    cl += leaves_of([], S, post)
    cl.append(('returns_self', '__CPROVER_ensures((void *)$ret == (void *)$this)'))
    cl.append(('frame_exactly_the_guest_image', '__CPROVER_assigns(__CPROVER_object_whole($this))'))
    h = REGIONS + FN_H + ('  struct %s cell; __CPROVER_assume(V_WHICH((uintptr_t)&cell) != -1); g_expect_example = (uintptr_t)&cell;\n'
                   '  struct %s v;\n' % (TV, TT)) + layout_asserts(S) + '  $ROOT(&cell, &v);\n'
    return Inst('c08_store_%s' % S, 'tainted_volatile<%s, vsbx>& c, tainted<%s, vsbx>& v' % (S, S), 'c = v;', cl, h,
                leaves=['dynamic_check'] + FN_LEAVES + ['vsbx.impl_get_sandboxed_pointer_no_ctx', 'find_sandbox_from_example'], prop=PROP, root_name='operator=', tier=tier,
                pre=PRE_GHOST + FN_GHOST + spec_decls(S), pre_defines=OBJVIEW, timeout=300, object_bits=12,
                note='copy of a tainted %s into its guest image: every field (arrays unrolled, nested struct descended) + layout assertions' % S)


def load_inst(S, tier):
    TV = cs('rlbox::tainted_volatile<rlbox::%s, rlbox::vsbx>' % S)
    TT = cs('rlbox::tainted<rlbox::%s, rlbox::vsbx>' % S)
    W = 'V_WHICH((uintptr_t)$0)'
    cl = [('wf', '__CPROVER_requires(V_BACKEND_WF)'),
          ('cell_is_guest_image', '__CPROVER_requires(__CPROVER_r_ok($0, sizeof(struct GUEST_%s)) && V_WHICH((uintptr_t)$0) != -1 && g_expect_example == (uintptr_t)$0)' % S)]

    def post(p, k, j):
        src = guest_expr('$0', p, j)
        dst = 'ret_'.join([]) or ('$ret' + ''.join('.%s' % x for x in p) + '.data' + ('._M_elems[%d]' % j if j is not None else ''))
        tag = 'field_%s%s' % ('_'.join(p), '' if j is None else '_%d' % j)
        if k == 'ptr':
            return (tag, '__CPROVER_ensures((%s == 0 ==> (uintptr_t)%s == 0) && ((%s != 0 && (uintptr_t)%s < V_SIZE[%s]) ==> (uintptr_t)%s == V_BASE[%s] + (uintptr_t)%s))' % (src, dst, src, src, W, dst, W, src))
        if k == 'fnptr':
            return (tag, FN_TO_APP % (src, dst, src, dst))
        return (tag, '__CPROVER_ensures(%s)' % eqv(dst, src, k))
    cl += leaves_of([], S, post)
    cl.append(('frame', '__CPROVER_assigns()'))
    h = REGIONS + FN_H + ('  struct %s cell; __CPROVER_assume(V_WHICH((uintptr_t)&cell) != -1); g_expect_example = (uintptr_t)&cell; g_noabort = 0;\n'
                   '  struct %s r = $ROOT(&cell);\n' % (TV, TT))
    pick = lambda tu, fn: find_func(tu, 'tainted', 'rlbox::tainted<rlbox::%s, rlbox::vsbx>' % S, lambda f, rn: 'tainted_volatile' in f['type']['qualType'])
    return Inst('c08_load_%s' % S, 'tainted_volatile<%s, vsbx>& c' % S, 'tainted<%s, vsbx> t = c;' % S, cl, h,
                leaves=['dynamic_check'] + FN_LEAVES + ['vsbx.impl_get_unsandboxed_pointer_no_ctx', 'find_sandbox_from_example'], prop=PROP, root_name='tainted', tier=tier,
                pre=PRE_GHOST + FN_GHOST + spec_decls(S), pre_defines=OBJVIEW, root_pick=pick, timeout=300, object_bits=12)


def unverified_inst(S, tier):
    """c.UNSAFE_unverified() on a struct in sandbox memory: tainted_volatile<S>::get_raw_value, a fourth macro-generated field loop
    (plain application struct out of the guest image)"""
    TV = cs('rlbox::tainted_volatile<rlbox::%s, rlbox::vsbx>' % S)
    PS = cs('rlbox::%s' % S)
    W = 'V_WHICH((uintptr_t)$this)'
    cl = [('wf', '__CPROVER_requires(V_BACKEND_WF)'),
          ('cell_is_guest_image', '__CPROVER_requires(__CPROVER_r_ok($this, sizeof(struct GUEST_%s)) && V_WHICH((uintptr_t)$this) != -1 && g_expect_example == (uintptr_t)$this)' % S)]

    def post(p, k, j):
        src = guest_expr('$this', p, j)
        dst = '$ret' + ''.join('.%s' % x for x in p) + ('[%d]' % j if j is not None else '')
        tag = 'field_%s%s' % ('_'.join(p), '' if j is None else '_%d' % j)
        if k == 'ptr':
            return (tag, '__CPROVER_ensures((%s == 0 ==> (uintptr_t)%s == 0) && ((%s != 0 && (uintptr_t)%s < V_SIZE[%s]) ==> (uintptr_t)%s == V_BASE[%s] + (uintptr_t)%s))' % (src, dst, src, src, W, dst, W, src))
        if k == 'fnptr':
            return (tag, FN_TO_APP % (src, dst, src, dst))
        return (tag, '__CPROVER_ensures(%s)' % eqv(dst, src, k))
    cl += leaves_of([], S, post)
    cl.append(('frame', '__CPROVER_assigns()'))
    h = REGIONS + FN_H + ('  struct %s cell; __CPROVER_assume(V_WHICH((uintptr_t)&cell) != -1); g_expect_example = (uintptr_t)&cell; g_noabort = 0;\n'
                   '  struct %s r = $ROOT(&cell);\n' % (TV, PS))
    pick = lambda tu, fn: find_func(tu, 'get_raw_value', 'rlbox::tainted_volatile<rlbox::%s, rlbox::vsbx>' % S)
    return Inst('c08_unverified_%s' % S, 'tainted_volatile<%s, vsbx>& c' % S, 'c.UNSAFE_unverified();', cl, h,
                leaves=['dynamic_check'] + FN_LEAVES + ['vsbx.impl_get_unsandboxed_pointer_no_ctx', 'find_sandbox_from_example'], prop=PROP, root_name='get_raw_value', tier=tier,
                pre=PRE_GHOST + FN_GHOST + spec_decls(S), pre_defines=OBJVIEW, root_pick=pick, timeout=300, object_bits=12)


def byvalue_inst(S, tier):
    """t.UNSAFE_sandboxed(sandbox): the by-value guest image handed to a sandbox function"""
    TT = cs('rlbox::tainted<rlbox::%s, rlbox::vsbx>' % S)
    SBX = cs('rlbox::Sbx_vlib_%s<rlbox::vsbx>' % S)
    SL = '$0->base0.slot'
    cl = sb_req('$0') + [('src_obj', '__CPROVER_requires(__CPROVER_r_ok($this, sizeof(struct %s)))' % TT)]
    na = leaves_of([], S, lambda p, k, j: fits(k, app_expr('$this', p, j)))
    cl.append(('noabort_pre', '__CPROVER_requires(g_noabort ==> (%s))' % (' && '.join(x for x in na if x != '1') or '1')))

    def post(p, k, j):
        src, dst = app_expr('$this', p, j), sbx_expr('$ret', p, j)
        tag = 'field_%s%s' % ('_'.join(p), '' if j is None else '_%d' % j)
        if k == 'ptr':
            return (tag, '__CPROVER_ensures(((uintptr_t)%s == 0 ==> %s == 0) && (((uintptr_t)%s != 0 && V_IN(%s, (uintptr_t)%s)) ==> MI(%s) == MI((uintptr_t)%s) - MI(V_BASE[%s])))' % (src, dst, src, SL, src, dst, src, SL))
        if k == 'fnptr':
            return (tag, FN_TO_GUEST % (src, dst, src, dst))
        return (tag, '__CPROVER_ensures(%s)' % eqv(dst, src, k))
    cl += leaves_of([], S, post)
    cl.append(('frame', '__CPROVER_assigns()'))
    h = REGIONS + FN_H + SB_DECL + '  struct %s v;\n  struct %s r = $ROOT(&v, &sb);\n' % (TT, SBX)
    return Inst('c08_byvalue_to_sandbox_%s' % S, 'tainted<%s, vsbx>& v, rlbox_sandbox<vsbx>& s' % S, 'v.UNSAFE_sandboxed(s);', cl, h,
                leaves=['dynamic_check'] + FN_LEAVES + ['vsbx.impl_get_sandboxed_pointer'], prop=PROP, root_name='UNSAFE_sandboxed', tier=tier, pre=PRE_GHOST + FN_GHOST + spec_decls(S), timeout=300, object_bits=12,
                solvers=('cadical', 'z3') if S == 'VFn' else ('minisat',))   # VFn: minisat does not finish on the function-pointer fields (measured); cadical and z3 do


def result_inst(S, tier):
    """a struct RETURNED by value from a sandbox function: INTERNAL_invoke_with_func_ptr<S()> converts the guest image handed back by
    the backend field by field relative to the sandbox that was called (context form; never relative to where the temporary lives)"""
    TT = cs('rlbox::tainted<rlbox::%s, rlbox::vsbx>' % S)
    SBX = cs('rlbox::Sbx_vlib_%s<rlbox::vsbx>' % S)
    SL = '$this->base0.slot'
    same = leaves_of([], S, lambda p, k, j: '%s == %s' % (sbx_expr('__CPROVER_return_value', p, j), sbx_expr('g_guest', p, j)) if k not in ('double', 'float') else '1')
    stub = ('backend impl_invoke_with_func_ptr(stub returning the guest image)', lambda fn, rec: fn.get('name') == 'impl_invoke_with_func_ptr',
            '__CPROVER_ensures(g_gcalls == __CPROVER_old(g_gcalls) + 1 && %s)\n__CPROVER_assigns(g_gcalls)' % ' && '.join(x.replace('__CPROVER_return_value', '$ret') for x in same if x != '1'))
    cl = sb_req('$this') + [('fresh', '__CPROVER_requires(g_gcalls == 0)')]

    def post(p, k, j):
        src, dst = sbx_expr('g_guest', p, j), '$ret' + ''.join('.%s' % x for x in p) + '.data' + ('._M_elems[%d]' % j if j is not None else '')
        tag = 'field_%s%s' % ('_'.join(p), '' if j is None else '_%d' % j)
        if k == 'ptr':
            return (tag, '__CPROVER_ensures((%s == 0 ==> (uintptr_t)%s == 0) && ((%s != 0 && (uintptr_t)%s < V_SIZE[%s]) ==> (uintptr_t)%s == V_BASE[%s] + (uintptr_t)%s))' % (src, dst, src, src, SL, dst, SL, src))
        if k == 'fnptr':
            return (tag, FN_TO_APP % (src, dst, src, dst))
        if k in ('double', 'float'):
            return (tag, '__CPROVER_ensures(1)')
        return (tag, '__CPROVER_ensures(%s)' % eqv(dst, src, k))
    cl += leaves_of([], S, post)
    cl.append(('called_once', '__CPROVER_ensures(g_gcalls == 1)'))
    cl.append(('frame', '__CPROVER_assigns(g_gcalls)'))
    h = REGIONS + FN_H + SB_DECL + '  g_noabort = 0; g_gcalls = 0; uintptr_t in_fn;\n  struct %s r = $ROOT(&sb, "f", (void *)in_fn);\n' % TT
    return Inst('c08_struct_result_of_a_sandbox_call_%s' % S, 'rlbox_sandbox<vsbx>& s, void* fp', 's.INTERNAL_invoke_with_func_ptr<%s()>("f", fp);' % S, cl, h,
                leaves=['dynamic_check', stub] + FN_LEAVES + ['vsbx.impl_get_unsandboxed_pointer', 'vsbx.impl_get_unsandboxed_pointer_no_ctx', 'find_sandbox_from_example'],
                prop=PROP, root_name='INTERNAL_invoke_with_func_ptr', tier=tier, pre=PRE_GHOST + FN_GHOST + spec_decls(S) + ' unsigned g_gcalls; struct %s g_guest;\n' % SBX,
                timeout=300, object_bits=12, solvers=('cadical', 'z3') if S == 'VFn' else ('minisat',),
                note='by-value struct result: the backend hands back the guest image; converted with the called sandbox as context')


def units(tier):
    fam = ['VOuter', 'VInner', 'VMisc', 'VFn'] if tier == 'quick' else ['VOuter', 'VInner', 'VMisc', 'VFn', 'VRev']
    insts = []
    for S in fam:
        insts += [store_inst(S, tier), load_inst(S, tier), byvalue_inst(S, tier)]
        if S != 'VInner' or tier != 'quick':
            insts.append(unverified_inst(S, tier))
    insts += [result_inst('VOuter', tier), result_inst('VFn', tier)]
    return [Unit('C08_structs', insts, includes=('rlbox.hpp', 'vsbx.hpp', 'vstructs.hpp'))]


ASSUMPTIONS = [
    'the struct family of /verif/backend/vstructs.hpp stands for "every struct": field kinds {enum, bool, char, unsigned char, short, unsigned short, int, long, unsigned long, long long, float, double, object pointer, long[3], int*[2], function pointer, function pointer[2], nested struct}, one struct also in reversed order',
    'pointer fields translate through the no-context backend contracts with the guest image as example (C04)',
    'the guest image is stable during one call; by-value passing through invoke uses the same conversion (C11)',
]
TRUSTED = ['independent fixed-width description of the guest layout (struct GUEST_<S> in the specification) and the field list FIELDS in props/C08.py']
MANIFEST = {
    'level_text': 'For each struct of the family the macro-generated store, load and by-value conversion are proved field by field: every scalar field, every element of the array field and every field of the nested struct in the destination equals the converted source field (integers exactly or abort, pointers translated relative to the owning sandbox, null preserved), the store assigns only the guest image, and the guest image has the size, alignment and field offsets of an independently declared fixed-width struct. A skipped, duplicated or neighbour-taken field fails the clause named after that field.',
    'level_note': 'Reduced claim: finite struct family (programs quantifier); field values are full domain. Layout equality is asserted on the C structs generated from the instantiated FieldDecls, whose sizes are themselves asserted against g++.',
}
