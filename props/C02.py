"""C02 (run-time clause) - the two checked entry points for raw pointers abort unless the address lies inside that
sandbox's memory.  Functions under contract: tainted<T*>::assign_raw_pointer (rlbox.hpp:1043-1071),
tainted_volatile<T*>::assign_raw_pointer (1301-1330), rlbox_sandbox::UNSAFE_accept_pointer
(rlbox_sandbox.hpp:816-824).  The compile-time clause (which programs are rejected) is out of reach of a
run-time contract - see DESIGN.md C02."""
from vlib.unit import Unit, Inst
from .common import cs, PRE_GHOST, dyn_keeps

PROP = 'C02'
TITLE = 'Application pointers and foreign-sandbox data cannot enter a sandbox unchecked (run-time clause)'
FUNCTIONS = ['tainted<T*>::assign_raw_pointer (rlbox.hpp:1043-1071)', 'tainted_volatile<T*>::assign_raw_pointer (rlbox.hpp:1301-1330)',
             'rlbox_sandbox::UNSAFE_accept_pointer (rlbox_sandbox.hpp:816-824)']
SB = cs('rlbox::rlbox_sandbox<rlbox::vsbx>')

SB_HARNESS = ('  struct %s sb; int in_slot; sb.base0.slot = in_slot;\n'
              '  unsigned long in_base0, in_size0, in_base1, in_size1;\n'
              '  V_BASE[0] = in_base0; V_SIZE[0] = in_size0; V_BASE[1] = in_base1; V_SIZE[1] = in_size1;\n'
              '  __CPROVER_assume(V_BACKEND_WF && (in_slot == 0 || in_slot == 1) && V_LIVE(in_slot));\n'
              '  _Bool in_noabort; g_noabort = in_noabort; g_backend_nonnull = 1;\n' % SB)


def sb_req(arg):
    return [('wf', '__CPROVER_requires(V_BACKEND_WF)'),
            ('sandbox_obj', '__CPROVER_requires(__CPROVER_r_ok(%s, sizeof(struct %s)) && (%s->base0.slot == 0 || %s->base0.slot == 1) && V_LIVE(%s->base0.slot))' % (arg, SB, arg, arg, arg))]


SNAP = ' void *g_obj; unsigned long g_snap;'
PTYPES = {'int*': ('int *', 'int*'), 'fnptr': ('int (*)(int)', 'int (*)(int)')}


def decl_of(ptype, name):
    return 'int *%s' % name if ptype == 'int*' else 'int (*%s)(int)' % name


def tainted_assign(ptype, tier):
    cxx = PTYPES[ptype][1]
    TT = cs('rlbox::tainted<%s, rlbox::vsbx>' % cxx)
    V = '((uintptr_t)$1)'
    SL = '$0->base0.slot'
    cl = sb_req('$0') + [
        ('obj', '__CPROVER_requires(__CPROVER_rw_ok($this, sizeof(struct %s)))' % TT),
        ('noabort_pre', '__CPROVER_requires(g_noabort ==> V_IN(%s, %s))' % (SL, V)),
        ('inside_or_abort', '__CPROVER_ensures(V_IN(%s, %s))' % (SL, V)),
        ('stored', '__CPROVER_ensures((uintptr_t)$this->data == %s)' % V),
        ('frame', '__CPROVER_assigns($this->data)'),
    ]
    h = SB_HARNESS + '  struct %s t; uintptr_t in_val; %s = (void *)in_val; g_obj = &t; g_snap = (uintptr_t)t.data;\n  $ROOT(&t, &sb, raw);\n' % (TT, decl_of(ptype, 'raw'))
    keep = dyn_keeps('(uintptr_t)((struct %s *)g_obj)->data == g_snap' % TT, 'a_refused_pointer_is_not_stored')
    return Inst('c02_tainted_assign_raw_%s' % ('objptr' if ptype == 'int*' else 'fnptr'),
                'tainted<%s, vsbx>& t, rlbox_sandbox<vsbx>& s, %s' % (cxx, decl_of(ptype, 'raw')), 't.assign_raw_pointer(s, raw);', cl, h,
                leaves=[keep, 'vsbx.impl_is_pointer_in_sandbox_memory'], prop=PROP, root_name='assign_raw_pointer', tier=tier,
                pre=PRE_GHOST + SNAP, replay={'kind': 'assign_raw', 'wrap': 'tainted', 'ptype': cxx})


def volatile_assign(ptype, tier):
    cxx = PTYPES[ptype][1]
    TV = cs('rlbox::tainted_volatile<%s, rlbox::vsbx>' % cxx)
    V = '((uintptr_t)$1)'
    SL = '$0->base0.slot'
    cl = sb_req('$0') + [
        ('obj', '__CPROVER_requires(__CPROVER_rw_ok($this, sizeof(struct %s)))' % TV),
        ('noabort_pre', '__CPROVER_requires(g_noabort ==> V_IN(%s, %s))' % (SL, V)),
        ('inside_or_abort', '__CPROVER_ensures(V_IN(%s, %s))' % (SL, V)),
        ('stored_guest_repr', '__CPROVER_ensures(MI($this->data) == MI(%s) - MI(V_BASE[%s]))' % (V, SL)),
        ('guest_cell_is_4_bytes', '__CPROVER_ensures(sizeof($this->data) == 4)'),
        ('frame', '__CPROVER_assigns($this->data)'),
    ]
    h = SB_HARNESS + '  struct %s t; uintptr_t in_val; %s = (void *)in_val; g_obj = &t; g_snap = (uintptr_t)t.data;\n  $ROOT(&t, &sb, raw);\n' % (TV, decl_of(ptype, 'raw'))
    keep = dyn_keeps('(uintptr_t)((struct %s *)g_obj)->data == g_snap' % TV, 'a_refused_pointer_is_not_stored')
    return Inst('c02_volatile_assign_raw_%s' % ('objptr' if ptype == 'int*' else 'fnptr'),
                'tainted_volatile<%s, vsbx>& t, rlbox_sandbox<vsbx>& s, %s' % (cxx, decl_of(ptype, 'raw')), 't.assign_raw_pointer(s, raw);', cl, h,
                leaves=[keep, 'vsbx.impl_is_pointer_in_sandbox_memory', 'vsbx.impl_get_sandboxed_pointer'], prop=PROP,
                root_name='assign_raw_pointer', tier=tier, pre=PRE_GHOST + SNAP, replay={'kind': 'assign_raw', 'wrap': 'tainted_volatile', 'ptype': cxx})


def accept_pointer(tier):
    TT = cs('rlbox::tainted<int *, rlbox::vsbx>')
    V = '((uintptr_t)$0)'
    SL = '$this->base0.slot'
    cl = sb_req('$this') + [
        ('noabort_pre', '__CPROVER_requires(g_noabort ==> V_IN(%s, %s))' % (SL, V)),
        ('inside_or_abort', '__CPROVER_ensures(V_IN(%s, %s))' % (SL, V)),
        ('returned_value', '__CPROVER_ensures((uintptr_t)$ret.data == %s)' % V),
        ('frame', '__CPROVER_assigns()'),
    ]

    def is_assign(fn, rec):
        return fn.get('name') == 'assign_raw_pointer'
    leaf_cl = sb_req('$0') + [
        ('obj', '__CPROVER_requires(__CPROVER_rw_ok($this, sizeof(struct %s)))' % TT),
        ('noabort_pre', '__CPROVER_requires(g_noabort ==> V_IN($0->base0.slot, (uintptr_t)$1))'),
        ('inside_or_abort', '__CPROVER_ensures(V_IN($0->base0.slot, (uintptr_t)$1))'),
        ('stored', '__CPROVER_ensures((uintptr_t)$this->data == (uintptr_t)$1)'),
        ('frame', '__CPROVER_assigns($this->data)'),
    ]
    h = SB_HARNESS + '  uintptr_t in_val; int *raw = (int *)in_val;\n  struct %s r = $ROOT(&sb, raw);\n' % TT
    return Inst('c02_unsafe_accept_pointer', 'rlbox_sandbox<vsbx>& s, int* raw', 's.UNSAFE_accept_pointer(raw);', cl, h,
                leaves=['dynamic_check', ('assign_raw_pointer(contract)', is_assign, leaf_cl), 'find_sandbox_from_example', 'vsbx.impl_is_pointer_in_sandbox_memory'], prop=PROP, root_name='UNSAFE_accept_pointer', tier=tier,
                pre=PRE_GHOST, replay={'kind': 'accept_pointer'})


def rejected_shape_inst(name, params, expr, harness, tag, tier, root_name='operator=', member=True, prop=None):
    """compile-time clause, one program shape: the snippet must be rejected by the compiler (may_not_compile: then it is no
    instance).  If a change makes it compile, the function it binds to is extracted and meets `ensures(0)`: a violation whose
    obligation names the shape.  (Only the shapes listed here are watched; the clause as a whole stays undecided.)"""
    if member:
        cl = [('objs', '__CPROVER_requires(__CPROVER_rw_ok($this, sizeof(*$this)))'), (tag, '__CPROVER_ensures(0)'), ('frame', '__CPROVER_assigns(__CPROVER_object_whole($this))')]
    else:
        cl = [(tag, '__CPROVER_ensures(0)'), ('frame', '__CPROVER_assigns()')]
    return Inst(name, params, expr, cl, harness, leaves=['dynamic_check'], prop=prop or PROP, root_name=root_name, tier=tier, pre=PRE_GHOST, may_not_compile=True,
                note='program shape that must not compile; present as an instance only on a tree where it does')


def rejected_shapes(tier):
    out = []
    # an array of raw application pointers stored into sandbox memory in one assignment, on a backend whose pointer representation
    # is as wide as a host pointer (there the element types have the same width, so only the static check stands in the way)
    TVA = cs('rlbox::tainted_volatile<int *[2], rlbox::vsbx64>')
    AR = cs('std::array<int *, 2>', 'A_')
    out.append(rejected_shape_inst('c02_shape_store_of_a_raw_pointer_array', 'tainted_volatile<int*[2], vsbx64>& tv, std::array<int*, 2>& a', 'tv = a;',
                                   '  struct %s cell; struct %s a;\n  $ROOT(&cell, &a);\n' % (TVA, AR), 'an_array_of_raw_pointers_cannot_be_stored_into_sandbox_memory', tier))
    TV = cs('rlbox::tainted_volatile<int *, rlbox::vsbx>')
    out.append(rejected_shape_inst('c02_shape_store_of_a_raw_pointer', 'tainted_volatile<int*, vsbx>& tv, int* p', 'tv = p;',
                                   '  struct %s cell; uintptr_t in_p;\n  $ROOT(&cell, (int *)in_p);\n' % TV, 'a_raw_pointer_cannot_be_stored_into_sandbox_memory', tier))
    # a registered callback stored into a function-pointer field of another type
    TVF = cs('rlbox::tainted_volatile<void (*)(char *, unsigned long), rlbox::vsbx>')
    CBI = cs('rlbox::sandbox_callback<int (*)(int), rlbox::vsbx>')
    out.append(rejected_shape_inst('c02_shape_store_of_a_callback_into_a_field_of_another_function_type',
                                   'tainted_volatile<void (*)(char*, unsigned long), vsbx>& tv, sandbox_callback<int (*)(int), vsbx>& cb', 'tv = cb;',
                                   '  struct %s cell; struct %s cb;\n  $ROOT(&cell, &cb);\n' % (TVF, CBI), 'a_callback_is_stored_only_where_the_function_pointer_type_matches', tier))
    out.append(cast_shape_inst(tier))
    return out


def cast_shape_inst(tier, prop=None, prefix='c02'):
    """sandbox_reinterpret_cast from an integer to a pointer would wrap any bit pattern as a tainted pointer"""
    TU = cs('rlbox::tainted<unsigned long long, rlbox::vsbx>')
    TP = cs('rlbox::tainted<long *, rlbox::vsbx>')
    return rejected_shape_inst('%s_shape_reinterpret_cast_of_an_integer_to_a_pointer' % prefix, 'tainted<unsigned long long, vsbx>& v', 'sandbox_reinterpret_cast<long*>(v);',
                               '  struct %s v;\n  struct %s r = $ROOT(&v);\n' % (TU, TP), 'an_integer_cannot_be_cast_to_a_tainted_pointer', tier,
                               root_name='sandbox_reinterpret_cast', member=False, prop=prop)


def units(tier):
    insts = [tainted_assign('int*', tier), tainted_assign('fnptr', tier), volatile_assign('int*', tier), volatile_assign('fnptr', tier), accept_pointer(tier)] + rejected_shapes(tier)
    return [Unit('C02_raw_pointer_entry', insts)]


ASSUMPTIONS = [
    'A_backend for vsbx: impl_is_pointer_in_sandbox_memory(k,p) == in_k(p); impl_get_sandboxed_pointer(k,p) == p - base_k for in_k(p) (bodies verified against these contracts under C03)',
    'a second live sandbox instance is present in the symbolic address space (two-region table), so "other live sandbox" addresses are in the domain',
]
TRUSTED = ['the compile-time clause of C02 (which assignment/call/registration shapes are rejected by the type checker) is NOT decided as a whole: a run-time contract cannot state that a program has no viable overload. Two program shapes are watched (instances c02_shape_*: store of a raw pointer / of an array of raw pointers into sandbox memory): each is a snippet the compiler must reject; on a tree where it compiles, the function it binds to is extracted and meets ensures(0)']
MANIFEST = {
    'level_text': 'Run-time clause only. The instantiated bodies of tainted::assign_raw_pointer, tainted_volatile::assign_raw_pointer (object and function pointer arguments) and UNSAFE_accept_pointer are proved, for every 64-bit address (null, first/last byte, the other live sandbox, application memory) and every well-formed two-region address space, to abort unless the address lies inside the memory of the sandbox passed, to store exactly the address (tainted) or its guest representation address-base (tainted_volatile, 4-byte cell), to change nothing else, and not to abort for an inside address. Loop-free: complete.',
    'level_note': 'The compile-time clause (raw pointers, foreign wrappers and ill-typed callbacks do not compile) is outside what a function contract can express and is not decided (DESIGN.md C02); two shapes are watched by snippets that must not compile (a tree on which one compiles fails the obligation named after the shape). A refused pointer is also proved not to be stored (state at the abort point). Assumes A_backend for vsbx and the dynamic_check leaf contract.',
}
