"""C16 - operators on tainted numbers compute exactly what the plain operators compute.
Functions under contract (rlbox.hpp): BinaryOpValAndPtr value branch (+ -), BinaryOp (* / % ^ & | << >>),
BooleanBinaryOp (&& ||), UnaryOp (- ~), CompareOp (== != < <= > >=), CompoundAssignmentOp, Pre/PostIncDecOps
(101-360), BinaryOpWrappedRhs (757-853), unwrap_value (rlbox_unwrap.hpp).
The specification of the function *named* operator<op> is `result == a <op> b` written with the plain C operator
on the same operand types (C and C++ agree on integer promotion / usual arithmetic conversion); the result type is
compared with the type of the plain expression by a _Static_assert in the harness."""
import vlib.replay_c09  # registers native replay kinds (numeric_op)
from vlib.unit import Unit, Inst
from .common import cs, PRE_GHOST, mi

PROP = 'C16'
TITLE = 'Operators on tainted numbers compute exactly what the plain operators compute'
FUNCTIONS = ['tainted_base_impl::operator+ - (value branch) * / % ^ & | << >> && || (rlbox.hpp:101-284)', 'unary - ~ (286-302)',
             'comparison operators (314-360)', 'compound assignment, ++/-- (179-228)', 'BinaryOpWrappedRhs (757-853)']

# C++ type -> (C type, bits, signed)
TY = {'signed char': ('signed char', 8, True), 'unsigned char': ('unsigned char', 8, False), 'short': ('short', 16, True),
      'unsigned short': ('unsigned short', 16, False), 'int': ('int', 32, True), 'unsigned int': ('unsigned int', 32, False),
      'long': ('long', 64, True), 'unsigned long': ('unsigned long', 64, False), 'bool': ('_Bool', 1, False),
      'float': ('float', 32, True), 'double': ('double', 64, True)}
INTS = ['signed char', 'unsigned char', 'short', 'int', 'unsigned int', 'long', 'unsigned long']
GUEST = {'long': 'int', 'unsigned long': 'unsigned int'}   # vsbx guest type when it differs


def promote(t):
    if t in ('float', 'double'):
        return t
    c, bits, sg = TY[t]
    return 'int' if bits < 32 else t


def uac(a, b):
    if 'double' in (a, b):
        return 'double'
    if 'float' in (a, b):
        return 'float'
    a, b = promote(a), promote(b)
    if a == b:
        return a
    (_, ba, sa), (_, bb, sb_) = TY[a], TY[b]
    if sa == sb_:
        return a if ba >= bb else b
    u, s = (a, b) if not sa else (b, a)
    if TY[u][1] >= TY[s][1]:
        return u
    return s     # signed type can represent all values of the narrower unsigned type (LP64)


ARITH = ['+', '-', '*', '/', '%', '^', '&', '|']
SHIFT = ['<<', '>>']
CMP = ['==', '!=', '<', '<=', '>', '>=']
OPN = {'+': 'add', '-': 'sub', '*': 'mul', '/': 'div', '%': 'mod', '^': 'xor', '&': 'and', '|': 'or', '<<': 'shl', '>>': 'shr',
       '==': 'eq', '!=': 'ne', '<': 'lt', '<=': 'le', '>': 'gt', '>=': 'ge', '&&': 'land', '||': 'lor'}


def result_type(op, ta, tb):
    if op in CMP or op in ('&&', '||'):
        return 'bool'
    if op in SHIFT:
        return promote(ta)
    return uac(ta, tb)


def lim(t):
    c, bits, sg = TY[t]
    return (-(2 ** (bits - 1)), 2 ** (bits - 1) - 1) if sg else (0, 2 ** bits - 1)


def defined(op, ta, tb, A, B):
    """C condition under which the plain expression A op B has defined behaviour"""
    rt = result_type(op, ta, tb)
    fl = rt in ('float', 'double') or ta in ('float', 'double') or tb in ('float', 'double')
    if fl:
        if op in ('/',):
            return '1'
        return '1'
    crt = TY[rt][0] if rt != 'bool' else 'int'
    sg = TY[rt][2] if rt != 'bool' else True
    if op in ('+', '-', '*') and sg:
        f = {'+': 'plus', '-': 'minus', '*': 'mult'}[op]
        return '!__CPROVER_overflow_%s((%s)%s, (%s)%s)' % (f, crt, A, crt, B)
    if op in ('/', '%'):
        c = '(%s)%s != 0' % (crt, B)
        if sg:
            lo, hi = lim(rt)
            c += ' && !(MI((%s)%s) == %s && MI((%s)%s) == -MI(1))' % (crt, A, mi(lo), crt, B)
        return c
    if op in SHIFT:
        pa = promote(ta)
        w = TY[pa][1]
        c = 'MI(%s) >= 0 && MI(%s) < %d' % (B, B, w)
        if TY[pa][2] and op == '<<':
            # left shift of a negative value / into the sign bit is undefined; a right shift of a negative value is
            # implementation-defined (arithmetic on every supported compiler and in cbmc), so it stays in the domain
            lo, hi = lim(pa)
            c += ' && MI(%s) >= 0 && (MI(%s) << MI(%s)) <= %s' % (A, A, B, mi(hi))
        return c
    return '1'


def wrap_struct(kind, t):
    w = 'tainted' if kind == 'tainted' else 'tainted_volatile'
    return cs('rlbox::%s<%s, rlbox::vsbx>' % (w, t))


def operand(kind, t, arg, deref=True):
    """C expression for the application-typed value of an operand passed by pointer `arg`"""
    c = TY[t][0]
    if kind == 'plain':
        return '(*%s)' % arg
    return '((%s)((const struct %s *)%s)->data)' % (c, wrap_struct(kind, t), arg)


def operand_decl(kind, t, var):
    c = TY[t][0]
    if kind == 'plain':
        return '  %s %s; %s in_%s = %s;\n' % (c, var, c, var, var), '%s %s' % (t, var)
    st = wrap_struct(kind, t)
    gt = TY[GUEST.get(t, t)][0] if kind == 'tainted_volatile' else c
    return '  struct %s %s; %s in_%s = %s.data;\n' % (st, var, gt, var, var), '%s<%s, vsbx>& %s' % ('tainted' if kind == 'tainted' else 'tainted_volatile', t, var)


def same(a, b, t):
    if t in ('float', 'double'):
        it = 'unsigned long' if t == 'double' else 'unsigned int'
        return '(((union { %s f; %s u; }){ .f = %s }).u == ((union { %s f; %s u; }){ .f = %s }).u || ((%s) != (%s) && (%s) != (%s)))' % (t, it, a, t, it, b, a, a, b, b)
    return '(%s) == (%s)' % (a, b)


def binop_inst(op, lk, ta, rk, tb, tier):
    """a op b with a: lk<ta> (tainted|tainted_volatile), b: rk<tb> (plain|tainted|tainted_volatile)"""
    rt = result_type(op, ta, tb)
    A = operand(lk, ta, '$this')
    B = operand(rk, tb, '$0')
    # tainted_volatile's binary & is re-declared next to its unary & (rlbox_detail_forward_binop_to_base) and takes its right
    # operand by value
    byval = (op == '&' and lk == 'tainted_volatile' and rk == 'plain')
    if byval:
        B = '$0'
    crt = TY[rt][0]
    hint = (op in CMP) and ('tainted_volatile' in (lk, rk))
    res = '$ret.val' if hint else '$ret.data'
    expect = '((%s)(%s %s %s))' % (crt, A, op, B)
    cl = [('objs', '__CPROVER_requires(__CPROVER_r_ok((const struct %s *)$this, sizeof(struct %s))%s)' % (wrap_struct(lk, ta), wrap_struct(lk, ta), '' if byval else ' && __CPROVER_r_ok($0, sizeof(*$0))')),
          ('plain_expression_defined', '__CPROVER_requires(%s)' % defined(op, ta, tb, A, B)),
          ('value', '__CPROVER_ensures(%s)' % same(res, expect, rt)),
          ('frame', '__CPROVER_assigns()')]
    d1, p1 = operand_decl(lk, ta, 'a')
    d2, p2 = operand_decl(rk, tb, 'b')
    RS = 'tainted_boolean_hint' if hint else 'rlbox::tainted<%s, rlbox::vsbx>' % rt
    h = d1 + d2 + '  __auto_type r = $ROOT((void *)&a, %sb);\n' % ('' if byval else '&')
    if not hint:
        h += '  __CPROVER_assert(__builtin_types_compatible_p(__typeof__(r.data), %s), "C16 result type equals the type of the plain expression");\n' % crt
    name = 'c16_%s_%s_%s__%s_%s' % (OPN[op], lk[8:] or 't', ta.replace(' ', ''), rk if rk == 'plain' else (rk[8:] or 't'), tb.replace(' ', ''))
    solvers = ('minisat',)
    if op == '*':
        solvers = ('cadical', 'z3') if max(TY[ta][1], TY[tb][1]) >= 32 else ('z3', 'cadical')
    if op in ('/', '%'):
        solvers = ('z3', 'cvc5', 'minisat')
    if 'float' in (ta, tb) or 'double' in (ta, tb):
        solvers = ('cadical', 'cvc5', 'minisat')     # minisat needs minutes on int <-> float conversions (measured); cadical / cvc5 seconds
    return Inst(name, '%s, %s' % (p1, p2), 'a %s b;' % op, cl, h, leaves=['dynamic_check'], prop=PROP, root_name='operator' + op, tier=tier, pre=PRE_GHOST,
                solvers=solvers, timeout=300, replay={'kind': 'numeric_op', 'op': op, 'lk': lk, 'ta': ta, 'rk': rk, 'tb': tb}, note='%s<%s> %s %s<%s>' % (lk, ta, op, rk, tb))


def lhs_plain_inst(op, ta, tb, tier, rk='tainted'):
    """plain a op tainted<tb> b (BinaryOpWrappedRhs): free function operator op(const T_Lhs&, const tainted_base_impl&)"""
    rt = result_type(op, ta, tb)
    A = '(*$0)'
    B = operand(rk, tb, '$1')
    crt = TY[rt][0]
    hint = (op in CMP) and rk == 'tainted_volatile'     # comparisons with an operand in sandbox memory yield a tainted_boolean_hint
    res = '$ret.val' if hint else '$ret.data'
    cl = [('objs', '__CPROVER_requires(__CPROVER_r_ok($0, sizeof(*$0)) && __CPROVER_r_ok((const struct %s *)$1, sizeof(struct %s)))' % (wrap_struct(rk, tb), wrap_struct(rk, tb))),
          ('plain_expression_defined', '__CPROVER_requires(%s)' % defined(op, ta, tb, A, B)),
          ('value', '__CPROVER_ensures(%s)' % same(res, '((%s)(%s %s %s))' % (crt, A, op, B), rt)),
          ('frame', '__CPROVER_assigns()')]
    d1, p1 = operand_decl('plain', ta, 'a')
    d2, p2 = operand_decl(rk, tb, 'b')
    h = d1 + d2 + '  __auto_type r = $ROOT(&a, (void *)&b);\n'
    if not hint:
        h += '  __CPROVER_assert(__builtin_types_compatible_p(__typeof__(r.data), %s), "C16 result type equals the type of the plain expression");\n' % crt
    solvers = ('minisat',)
    if op == '*':
        solvers = ('cadical', 'z3') if max(TY[ta][1], TY[tb][1]) >= 32 else ('z3', 'cadical')
    if op in ('/', '%'):
        solvers = ('z3', 'cvc5', 'minisat')
    return Inst('c16_%s_plain_%s__%s_%s' % (OPN[op], ta.replace(' ', ''), 't' if rk == 'tainted' else 'volatile', tb.replace(' ', '')), '%s, %s' % (p1, p2), 'a %s b;' % op, cl, h,
                leaves=['dynamic_check'], prop=PROP, root_name='operator' + op, tier=tier, pre=PRE_GHOST, solvers=solvers, timeout=200,
                note='%s %s %s<%s>' % (ta, op, rk, tb))


def unary_inst(op, ta, tier):
    rt = promote(ta)
    A = operand('tainted', ta, '$this')
    crt = TY[rt][0]
    d = '1'
    if op == '-' and TY[rt][2] and rt not in ('float', 'double'):
        d = 'MI((%s)%s) != %s' % (crt, A, mi(lim(rt)[0]))
    cl = [('obj', '__CPROVER_requires(__CPROVER_r_ok((const struct %s *)$this, sizeof(struct %s)))' % (wrap_struct('tainted', ta), wrap_struct('tainted', ta))),
          ('plain_expression_defined', '__CPROVER_requires(%s)' % d),
          ('value', '__CPROVER_ensures(%s)' % same('$ret.data', '((%s)(%s%s))' % (crt, op, A), rt)),
          ('frame', '__CPROVER_assigns()')]
    d1, p1 = operand_decl('tainted', ta, 'a')
    h = d1 + '  __auto_type r = $ROOT((void *)&a);\n'
    h += '  __CPROVER_assert(__builtin_types_compatible_p(__typeof__(r.data), %s), "C16 result type equals the type of the plain expression");\n' % crt
    return Inst('c16_%s_t_%s' % ('neg' if op == '-' else 'compl', ta.replace(' ', '')), p1, '%sa;' % op, cl, h, leaves=[], prop=PROP, root_name='operator' + op,
                tier=tier, pre=PRE_GHOST, note='%stainted<%s>' % (op, ta))


def compound_inst(op, lk, ta, tb, tier):
    """a op= b on lk<ta> with plain b (same-type results only)"""
    A = operand(lk, ta, '$this')
    B = '(*$0)'
    c = TY[ta][0]
    ST = wrap_struct(lk, ta)
    if lk == 'tainted':
        post = ('updated', '__CPROVER_ensures(((struct %s *)$this)->data == (%s)(__CPROVER_old(((struct %s *)$this)->data) %s %s))' % (ST, c, ST, op, B))
    else:
        # stored in sandbox memory: the plain result must be stored exactly (or the call aborted)
        post = ('updated_or_aborted', '__CPROVER_ensures(MI(((struct %s *)$this)->data) == MI((%s)((%s)__CPROVER_old(((struct %s *)$this)->data) %s %s)))' % (ST, TY[result_type(op, ta, tb)][0], c, ST, op, B))
    cl = [('objs', '__CPROVER_requires(__CPROVER_rw_ok((struct %s *)$this, sizeof(struct %s)) && __CPROVER_r_ok($0, sizeof(*$0)))' % (ST, ST)),
          ('plain_expression_defined', '__CPROVER_requires(%s)' % defined(op, ta, tb, A, B)),
          post,
          ('returns_self', '__CPROVER_ensures((void *)$ret == (void *)$this)'),
          ('frame', '__CPROVER_assigns(((struct %s *)$this)->data)' % ST)]
    d1, p1 = operand_decl(lk, ta, 'a')
    d2, p2 = operand_decl('plain', tb, 'b')
    always_fits = lk == 'tainted' and TY[ta][1] >= 32 and result_type(op, ta, tb) == ta
    h = d1 + d2 + '  g_noabort = %d; g_backend_nonnull = 0; g_expect_example = 0;\n  void *r = (void *)$ROOT((void *)&a, &b);\n' % (1 if always_fits else 0)
    solvers = ('minisat',) if op not in ('/', '%') else ('z3', 'cvc5', 'minisat')
    if op == '*':
        solvers = ('cadical', 'z3') if TY[ta][1] >= 32 else ('z3', 'cadical')
    return Inst('c16_%sassign_%s_%s__%s' % (OPN[op], lk[8:] or 't', ta.replace(' ', ''), tb.replace(' ', '')), '%s, %s' % (p1, p2), 'a %s= b;' % op, cl, h,
                leaves=['dynamic_check'], prop=PROP, root_name='operator%s=' % op, tier=tier, pre=PRE_GHOST, solvers=solvers, timeout=300,
                note='%s<%s> %s= %s' % (lk, ta, op, tb))


def incdec_inst(form, lk, ta, tier):
    sign = '+' if 'inc' in form else '-'
    ST = wrap_struct(lk, ta)
    c = TY[ta][0]
    OLD = '__CPROVER_old(((struct %s *)$this)->data)' % ST
    A = operand(lk, ta, '$this')
    pa = promote(ta)
    d = '1'
    if TY[pa][2]:
        lo, hi = lim(pa)
        d = 'MI((%s)%s) %s' % (TY[pa][0], A, ('< ' + mi(hi)) if sign == '+' else ('> ' + mi(lo)))
    if lk == 'tainted':
        upd = ('updated', '__CPROVER_ensures(((struct %s *)$this)->data == (%s)((%s)%s %s 1))' % (ST, c, c, OLD, sign))
    else:
        upd = ('updated_or_aborted', '__CPROVER_ensures(MI(((struct %s *)$this)->data) == MI((%s)((%s)%s %s 1)))' % (ST, TY[pa][0], c, OLD, sign))
    cl = [('obj', '__CPROVER_requires(__CPROVER_rw_ok((struct %s *)$this, sizeof(struct %s)))' % (ST, ST)),
          ('plain_expression_defined', '__CPROVER_requires(%s)' % d), upd]
    if form.startswith('pre'):
        cl.append(('returns_self', '__CPROVER_ensures((void *)$ret == (void *)$this)'))
        expr, call = '%s%sa;' % (sign, sign), '  void *r = (void *)$ROOT((void *)&a);\n'
    else:
        cl.append(('returns_old_value', '__CPROVER_ensures($ret.data == (%s)%s)' % (c, OLD)))
        expr, call = 'a%s%s;' % (sign, sign), '  struct %s r = $ROOT((void *)&a, 0);\n' % wrap_struct('tainted', ta)
    cl.append(('frame', '__CPROVER_assigns(((struct %s *)$this)->data)' % ST))
    d1, p1 = operand_decl(lk, ta, 'a')
    # no-abort direction: where the plain result always fits the operand's own representation (>= 32-bit operands kept in application
    # memory; sandbox cells whose guest type has the application's width) the operator must RETURN for every defined input - a
    # hardening check that aborts at the end of an unsigned range is not what the plain operator does
    always_fits = TY[ta][1] >= 32 and (lk == 'tainted' or ta not in GUEST)
    h = d1 + '  g_noabort = %d; g_backend_nonnull = 0; g_expect_example = 0;\n' % (1 if always_fits else 0) + call
    return Inst('c16_%s_%s_%s' % (form, lk[8:] or 't', ta.replace(' ', '')), p1, expr, cl, h, leaves=['dynamic_check'], prop=PROP,
                root_name='operator%s%s' % (sign, sign), tier=tier, pre=PRE_GHOST, note='%s on %s<%s>' % (form, lk, ta),
                may_not_compile=True)


def units(tier):
    insts = []
    T_, V_, P_ = 'tainted', 'tainted_volatile', 'plain'
    if tier == 'quick':
        for op in ARITH + SHIFT:
            insts.append(binop_inst(op, T_, 'int', T_, 'int', tier))
        for (a, b) in [('signed char', 'unsigned char'), ('short', 'long'), ('unsigned int', 'int'), ('long', 'unsigned long'), ('unsigned char', 'short')]:
            insts.append(binop_inst('+', T_, a, T_, b, tier))
            insts.append(binop_inst('>>', T_, a, T_, b, tier))
            insts.append(binop_inst('<', T_, a, T_, b, tier))
        insts.append(binop_inst('/', T_, 'long', T_, 'int', tier))
        insts.append(binop_inst('%', T_, 'unsigned int', P_, 'unsigned char', tier))
        insts.append(binop_inst('*', T_, 'short', T_, 'short', tier))
        for op in CMP:
            insts.append(binop_inst(op, T_, 'int', T_, 'long', tier))
        insts.append(binop_inst('==', T_, 'int', V_, 'short', tier))
        insts.append(binop_inst('!=', V_, 'long', P_, 'int', tier))
        insts.append(binop_inst('+', T_, 'int', P_, 'long', tier))
        insts.append(binop_inst('-', V_, 'long', T_, 'int', tier))
        insts.append(binop_inst('&', T_, 'unsigned long', V_, 'unsigned int', tier))
        insts.append(binop_inst('&&', T_, 'bool', T_, 'bool', tier))
        insts.append(binop_inst('||', T_, 'bool', T_, 'bool', tier))
        insts.append(lhs_plain_inst('-', 'int', 'unsigned int', tier))
        insts.append(lhs_plain_inst('<', 'long', 'int', tier))
        insts.append(lhs_plain_inst('*', 'short', 'short', tier))
        insts.append(lhs_plain_inst('>>', 'int', 'unsigned int', tier))
        insts.append(lhs_plain_inst('<<', 'unsigned int', 'long', tier))
        insts.append(lhs_plain_inst('>>', 'unsigned char', 'unsigned long', tier))
        # every free "plain OP wrapped" operator (18 templates), and both wrapper kinds on the right
        for op in ARITH + SHIFT + CMP:
            insts.append(lhs_plain_inst(op, 'int', 'int', tier))
        for op in ['>=', '<=', '-', '>>', '==']:
            insts.append(lhs_plain_inst(op, 'long', 'int', tier, V_))
        for t in ['int', 'unsigned char', 'long']:
            insts.append(unary_inst('-', t, tier))
            insts.append(unary_inst('~', t, tier))
        for op in ARITH + SHIFT:
            insts.append(compound_inst(op, T_, 'int', 'int', tier))
        insts.append(compound_inst('+', V_, 'long', 'int', tier))
        insts.append(compound_inst('-', V_, 'short', 'short', tier))
        # every operator on a cell in sandbox memory (one macro body today; a per-operator shortcut on tainted_volatile would not share it)
        for op in ARITH + SHIFT:
            if op not in ('+', '-'):
                ta_, tb_ = ('short', 'short') if op in ('*', '/', '%') else (('unsigned long', 'unsigned long') if op in ('|', '>>') else ('long', 'long'))
                insts.append(compound_inst(op, V_, ta_, tb_, tier))
        for form in ['preinc', 'predec', 'postinc', 'postdec']:
            insts.append(incdec_inst(form, T_, 'int', tier))
        insts.append(incdec_inst('postdec', T_, 'unsigned char', tier))
        insts.append(incdec_inst('preinc', T_, 'unsigned int', tier))
        insts.append(incdec_inst('predec', T_, 'unsigned long', tier))
        insts.append(incdec_inst('postinc', V_, 'unsigned int', tier))
        insts.append(incdec_inst('preinc', V_, 'long', tier))
        insts.append(incdec_inst('postdec', V_, 'short', tier))
    else:
        for op in ARITH + SHIFT + CMP:
            for a in INTS:
                for b in INTS:
                    if op == '*' and max(TY[a][1], TY[b][1]) >= 64 and not (a == 'long' and b == 'long'):
                        continue    # 64-bit multiplication is slow on every back end; one representative pair kept
                    insts.append(binop_inst(op, T_, a, T_, b, tier))
        for op in ['+', '-', '&', '<<', '==', '<']:
            for (a, b) in [('int', 'int'), ('long', 'int'), ('unsigned char', 'short'), ('unsigned int', 'long')]:
                insts.append(binop_inst(op, T_, a, V_, b, tier))
                insts.append(binop_inst(op, V_, a, P_, b, tier))
                insts.append(binop_inst(op, T_, a, P_, b, tier))
                insts.append(lhs_plain_inst(op, a, b, tier))
        for op in ['&&', '||']:
            insts.append(binop_inst(op, T_, 'bool', T_, 'bool', tier))
            insts.append(binop_inst(op, T_, 'bool', P_, 'bool', tier))
        for (a, b) in [('double', 'double'), ('float', 'float'), ('float', 'int'), ('double', 'float')]:
            for op in ['+', '-', '<']:
                insts.append(binop_inst(op, T_, a, T_, b, tier))
        for t in INTS:
            insts.append(unary_inst('-', t, tier))
            insts.append(unary_inst('~', t, tier))
            for form in ['preinc', 'predec', 'postinc', 'postdec']:
                insts.append(incdec_inst(form, T_, t, tier))
                insts.append(incdec_inst(form, V_, t, tier))
            for op in ARITH + SHIFT:
                if TY[t][1] >= 32:
                    insts.append(compound_inst(op, T_, t, t, tier))
            insts.append(compound_inst('+', V_, t, t, tier))
            for op in ARITH + SHIFT:
                if op not in ('+', '-') and not (op in ('*', '/', '%') and TY[t][1] >= 64):
                    insts.append(compound_inst(op, V_, t, t, tier))
            insts.append(compound_inst('-', V_, t, 'int' if TY[t][1] >= 32 else t, tier)) if TY[t][1] >= 32 else None
    out = []
    for i in range(0, len(insts), 120):
        out.append(Unit('C16_operators_%d' % (i // 120), insts[i:i + 120]))
    return out


ASSUMPTIONS = [
    'operands held in sandbox memory (tainted_volatile) are stable for the duration of one call and are read through the C06/C07 conversions',
    'the domain is restricted to operand values for which the plain expression has defined behaviour (no signed overflow, divisor != 0, shift count in range, non-negative left operand of signed shifts)',
    'an update of a cell in sandbox memory may abort instead (value not representable in the guest type): only "aborted or exact" is stated for those',
]
TRUSTED = ['the plain C operator in the specification has the C++ meaning on the same operand types (integer promotions and usual arithmetic conversions coincide)']
MANIFEST = {
    'level_text': 'For each instantiated operator the body is proved, over all operand values for which the plain expression is defined, to return a wrapper holding exactly the value of the plain expression on the unwrapped operands, with the result type of the plain expression (static assertion on the emitted result struct); compound assignments and ++/-- are proved to update the operand object exactly as the plain operator would (or to abort when a value stored in sandbox memory does not fit the guest type) and to return the right object/value. Loop-free, full-width symbolic operands: complete per instance.',
    'level_note': 'Instance family: quick = all operators on int plus mixed-width/signedness pairs and all wrapper combinations; thorough = 7 integer types squared x 16 operators plus float/double samples. 64-bit multiplication is kept to one pair (slow on every back end). Defect fixed in /repo: post-decrement called operator++ (ade0d36). For operands of at least 32 bits kept in application memory (and sandbox cells whose guest type has the application width) the increment, decrement and compound operators are also proved to RETURN for every input on which the plain operator is defined (no-abort direction). All 18 free "plain OP wrapped" operators are instantiated, with both wrapper kinds on the right.',
}
