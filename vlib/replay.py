"""Native replay of CBMC counterexamples against the real C++ headers of /repo (DESIGN.md 3.4).
A failed obligation's in_* values are fed to a small C++ program compiled against /repo/code/include with the
verification backend; the program evaluates the same post-condition natively (128-bit arithmetic) and reports
whether the violation is real."""
import os
import json
import re
import subprocess

VERIF = os.path.dirname(os.path.dirname(os.path.abspath(__file__)))
REPO_INC = '/repo/code/include'

PRE = '''#define RLBOX_SINGLE_THREADED_INVOCATIONS
#define RLBOX_USE_EXCEPTIONS
#include "rlbox.hpp"
#include "vsbx.hpp"
#include <cstdio>
#include <stdexcept>
using namespace rlbox;
typedef __int128 mathint;
static void pr(const char* k, mathint v){ if (v<0){ std::printf("%s=-%llu\\n", k, (unsigned long long)(-v)); } else std::printf("%s=%llu\\n", k, (unsigned long long)v); }
'''


def _int(vals, name, default=0):
    v = vals.get(name)
    if not v:
        return default
    s = v['value']
    if s in ('TRUE', 'FALSE'):
        return 1 if s == 'TRUE' else 0
    try:
        return int(s)
    except ValueError:
        m = re.match(r'^(-?\d+)', s)
        return int(m.group(1)) if m else default


def _lit(v, ctype):
    if v < 0:
        if v == -(1 << 63):
            return '((%s)(-9223372036854775807LL-1))' % ctype
        return '((%s)(%dLL))' % (ctype, v)
    return '((%s)%dULL)' % (ctype, v)


def _run_cpp(src_text, workdir, name):
    os.makedirs(workdir, exist_ok=True)
    src = os.path.join(workdir, name + '.cpp')
    exe = os.path.join(workdir, name + '.bin')
    open(src, 'w').write(src_text)
    p = subprocess.run(['g++', '-std=c++17', '-O0', '-w', '-fno-access-control', '-I' + REPO_INC, '-I' + os.path.join(VERIF, 'backend'),
                        src, '-o', exe, '-lpthread'], stdout=subprocess.PIPE, stderr=subprocess.STDOUT, text=True)
    if p.returncode != 0:
        return None, 'replay program did not compile:\n' + p.stdout[-2000:]
    try:
        o = subprocess.run([exe], stdout=subprocess.PIPE, stderr=subprocess.STDOUT, text=True, timeout=30)
        out = o.stdout
    except subprocess.TimeoutExpired:
        out = 'TIMEOUT'
    finally:
        if os.path.exists(exe):
            os.remove(exe)
    return out, None


def kv(out):
    d = {}
    for line in (out or '').splitlines():
        if '=' in line:
            k, v = line.split('=', 1)
            d[k.strip()] = v.strip()
    return d


# ------------------------------------------------------------------------------------------------ kinds
def replay_convert(spec, vals, obligation, desc):
    to, frm = spec['to'], spec['from']
    v = _int(vals, 'in_from')
    src = PRE + '''
int main(){
  %s to{}; const volatile %s from = %s;
  int aborted = 0;
  try { detail::convert_type_fundamental(to, from); } catch (const std::runtime_error&) { aborted = 1; }
  std::printf("aborted=%%d\\n", aborted);
  pr("from", (mathint)from); pr("to", (mathint)to);
  std::printf("value_equal=%%d\\n", (int)((mathint)to == (mathint)from));
  std::printf("representable=%%d\\n", (int)((mathint)from >= (mathint)std::numeric_limits<%s>::min() && (mathint)from <= (mathint)std::numeric_limits<%s>::max()));
  return 0; }
''' % (to, frm, _lit(v, frm), to, to)

    def judge(d):
        if 'precondition' in obligation:   # no-abort direction
            return d.get('aborted') == '1' and d.get('representable') == '1'
        return d.get('aborted') == '0' and d.get('value_equal') == '0'
    return src, judge


KINDS = {'convert': replay_convert}


def register(kind, fn):
    KINDS[kind] = fn


def replay(prop, inst, info, obligation, desc, vals, res, replay_dir):
    fname = re.sub(r'[^A-Za-z0-9_.-]', '_', '%s__%s' % (inst.name, obligation))[:180] + '.json'
    path = os.path.join(replay_dir, fname)
    rec = {
        'property': prop, 'instance': inst.name, 'function': info.get('root_cxx'), 'mangled': info.get('mangled'),
        'failed_obligation': obligation, 'obligation_text': desc, 'counterexample_inputs': vals,
        'solver': res.solver, 'confirmed': False, 'native_output': None,
        'extracted_c_file': info.get('cfile'),
    }
    # the verifier's own output for this obligation (trace section), always carried
    m = re.search(r'Trace for %s:\n(.*?)(?=\nTrace for |\n\*\* \d+ of \d+ failed|\Z)' % re.escape(obligation), res.trace or '', re.S)
    rec['verifier_output'] = (m.group(1)[-6000:] if m else (res.trace or '')[-6000:])
    spec = inst.replay
    if spec and spec.get('kind') in KINDS and vals:
        try:
            src, judge = KINDS[spec['kind']](spec, vals, obligation, desc)
            out, err = _run_cpp(src, os.path.join(replay_dir, 'native'), re.sub(r'[^A-Za-z0-9_]', '_', inst.name))
            rec['native_program'] = src
            rec['native_output'] = out if err is None else err
            if err is None:
                rec['confirmed'] = bool(judge(kv(out)))
        except Exception as e:  # replay machinery problems never hide the violation
            rec['native_output'] = 'replay failed: %r' % e
    json.dump(rec, open(path, 'w'), indent=1)
    rec['path'] = path
    return rec
