"""Native replay of CBMC counterexamples against the real C++ headers of /repo (DESIGN.md 3.4).
A failed obligation's in_* values are fed to a small C++ program compiled against /repo/code/include with the
verification backend; the program evaluates the same post-condition natively (128-bit arithmetic) and reports
whether the violation is real."""
import os
import json
import re
import subprocess

VERIF = os.path.dirname(os.path.dirname(os.path.abspath(__file__)))
REPO_INC = os.path.join(os.environ.get('VERIF_REPO') or '/repo', 'code/include')   # VERIF_REPO: development runs against a scratch worktree

PRE = '''#define RLBOX_SINGLE_THREADED_INVOCATIONS
#define RLBOX_USE_EXCEPTIONS
#include "rlbox.hpp"
#include "vsbx.hpp"
#include <cstdio>
#include <cstring>
#include <memory>
#include <utility>
#include <type_traits>
#include <stdexcept>
using namespace rlbox;
typedef __int128 mathint;
static void pr(const char* k, mathint v){ char b[64]; int i = 63; b[i] = 0; bool neg = v < 0; unsigned __int128 u = neg ? (unsigned __int128)(-(v + 1)) + 1 : (unsigned __int128)v; if (u == 0) b[--i] = '0'; while (u) { b[--i] = (char)('0' + (int)(u % 10)); u /= 10; } std::printf("%s=%s%s\\n", k, neg ? "-" : "", b + i); }
'''


def _int(vals, name, default=0):
    v = vals.get(name)
    if not v:
        return default
    s = v['value']
    if s in ('TRUE', 'FALSE'):
        return 1 if s == 'TRUE' else 0
    try:
        return int(s)
    except ValueError:
        m = re.match(r'^(-?\d+)', s)
        return int(m.group(1)) if m else default


def _lit(v, ctype):
    if v < 0:
        if v == -(1 << 63):
            return '((%s)(-9223372036854775807LL-1))' % ctype
        return '((%s)(%dLL))' % (ctype, v)
    return '((%s)%dULL)' % (ctype, v)


def _run_cpp(src_text, workdir, name):
    os.makedirs(workdir, exist_ok=True)
    src = os.path.join(workdir, name + '.cpp')
    exe = os.path.join(workdir, name + '.bin')
    open(src, 'w').write(src_text)
    p = subprocess.run(['g++', '-std=c++17', '-O0', '-w', '-fno-access-control', '-I' + REPO_INC, '-I' + os.path.join(VERIF, 'backend'),
                        src, '-o', exe, '-lpthread'], stdout=subprocess.PIPE, stderr=subprocess.STDOUT, text=True)
    if p.returncode != 0:
        return None, 'replay program did not compile:\n' + p.stdout[-2000:]
    try:
        o = subprocess.run([exe], stdout=subprocess.PIPE, stderr=subprocess.STDOUT, text=True, timeout=30)
        out = o.stdout
    except subprocess.TimeoutExpired:
        out = 'TIMEOUT'
    finally:
        if os.path.exists(exe):
            os.remove(exe)
    return out, None


def kv(out):
    d = {}
    for line in (out or '').splitlines():
        if '=' in line:
            k, v = line.split('=', 1)
            d[k.strip()] = v.strip()
    return d


# ------------------------------------------------------------------------------------------------ kinds
def replay_convert(spec, vals, obligation, desc):
    to, frm = spec['to'], spec['from']
    v = _int(vals, 'in_from')
    src = PRE + '''
int main(){
  %s to{}; const volatile %s from = %s;
  int aborted = 0;
  try { detail::convert_type_fundamental(to, from); } catch (const std::runtime_error&) { aborted = 1; }
  std::printf("aborted=%%d\\n", aborted);
  pr("from", (mathint)from); pr("to", (mathint)to);
  std::printf("value_equal=%%d\\n", (int)((mathint)to == (mathint)from));
  std::printf("representable=%%d\\n", (int)((mathint)from >= (mathint)std::numeric_limits<%s>::min() && (mathint)from <= (mathint)std::numeric_limits<%s>::max()));
  return 0; }
''' % (to, frm, _lit(v, frm), to, to)

    def judge(d):
        if 'precondition' in obligation:   # no-abort direction
            return d.get('aborted') == '1' and d.get('representable') == '1'
        return d.get('aborted') == '0' and d.get('value_equal') == '0'
    return src, judge


def _clause(desc):
    m = re.search(r'\[clause:([A-Za-z0-9_.-]+)\]', desc)
    return m.group(1) if m else None


def backend_setup(vals):
    return ('  vsbx::region_base[0] = %dULL; vsbx::region_size[0] = %dULL; vsbx::region_base[1] = %dULL; vsbx::region_size[1] = %dULL;\n'
            % (_int(vals, 'in_base0'), _int(vals, 'in_size0'), _int(vals, 'in_base1'), _int(vals, 'in_size1')) +
            '  auto in_reg = [](int k, mathint m){ return vsbx::region_size[k] != 0 && m >= (mathint)vsbx::region_base[k] && m < (mathint)vsbx::region_base[k] + (mathint)vsbx::region_size[k]; };\n'
            '  auto which = [&](mathint m){ return in_reg(0, m) ? 0 : (in_reg(1, m) ? 1 : -1); };\n')


def replay_ptr_arith(spec, vals, obligation, desc):
    op, pointee, kind, idx, stride = spec['op'], spec['pointee'], spec['rhs_kind'], spec['idx'], spec['stride']
    pv = _int(vals, 'in_p')
    nv = _int(vals, 'in_n')
    sign = '-' if op in ('sub', 'subassign', 'predec', 'postdec') else '+'
    body = PRE + 'int main(){\n' + backend_setup(vals)
    body += '  tainted<%s*, vsbx> p; *reinterpret_cast<uintptr_t*>(&p) = %dULL;\n' % (pointee, pv)
    if op in ('preinc', 'predec', 'postinc', 'postdec'):
        body += '  mathint N = 1;\n'
    elif kind == 'plain':
        body += '  %s n = %s; mathint N = (mathint)n;\n' % (idx, _lit(nv, idx))
    elif kind == 'tainted':
        body += '  tainted<%s, vsbx> n = %s; mathint N = (mathint)%s;\n' % (idx, _lit(nv, idx), _lit(nv, idx))
    else:
        body += ('  alignas(8) static unsigned char cell[8]; auto guest = %s; std::memcpy(cell, &guest, sizeof(guest));\n'
                 '  auto& n = *reinterpret_cast<tainted_volatile<%s, vsbx>*>(cell); mathint N = (mathint)guest;\n' % (_lit(nv, 'int'), idx))
    body += '  mathint P = (mathint)%dULL; mathint exact = P %s N * %d; int aborted = 0; uintptr_t result = 0;\n' % (pv, sign, stride)
    call = {
        'add': 'auto r = p + n; result = (uintptr_t)r.UNSAFE_unverified();',
        'sub': 'auto r = p - n; result = (uintptr_t)r.UNSAFE_unverified();',
        'index': 'auto& r = p[n]; result = reinterpret_cast<uintptr_t>(std::addressof(r));',
        'addassign': 'p += n; result = (uintptr_t)p.UNSAFE_unverified();',
        'subassign': 'p -= n; result = (uintptr_t)p.UNSAFE_unverified();',
        'preinc': '++p; result = (uintptr_t)p.UNSAFE_unverified();',
        'predec': '--p; result = (uintptr_t)p.UNSAFE_unverified();',
        'postinc': 'auto r = p++; result = (uintptr_t)p.UNSAFE_unverified(); pr("returned", (mathint)(uintptr_t)r.UNSAFE_unverified());',
        'postdec': 'auto r = p--; result = (uintptr_t)p.UNSAFE_unverified(); pr("returned", (mathint)(uintptr_t)r.UNSAFE_unverified());',
    }[op]
    body += '  try { %s } catch (const std::runtime_error&) { aborted = 1; }\n' % call
    body += ('  std::printf("aborted=%d\\n", aborted); pr("p", P); pr("n", N); pr("exact", exact); pr("result", (mathint)result);\n'
             '  std::printf("exact_inside=%d\\n", (int)(which(P) != -1 && in_reg(which(P), exact)));\n'
             '  std::printf("result_equals_exact=%d\\n", (int)((mathint)result == exact));\n'
             '  std::printf("result_null_or_in_a_sandbox=%d\\n", (int)(result == 0 || which((mathint)result) != -1));\n  return 0; }\n')

    def judge(d):
        cl = _clause(desc)
        returned = d.get('aborted') == '0'
        if 'precondition' in obligation and cl is None:      # no-abort direction at a dynamic_check site
            return d.get('aborted') == '1' and pv != 0 and d.get('exact_inside') == '1'
        if cl in ('exact_nowrap', 'exact_wrap'):
            return returned and d.get('result_equals_exact') == '0'
        if cl in ('inside_nowrap', 'inside_wrap'):
            return returned and d.get('exact_inside') == '0'
        if cl == 'null_aborts':
            return returned and pv == 0
        if cl == 'returns_old':
            return returned and d.get('returned') != str(pv)
        if cl == 'result_null_or_inside':
            return returned and d.get('result_null_or_in_a_sandbox') == '0'
        return False
    return body, judge


def _idx_setup(kind, idx, nv, var='i'):
    if kind == 'plain':
        return '  %s %s = %s; mathint I = (mathint)%s;\n' % (idx, var, _lit(nv, idx), var)
    if kind == 'tainted':
        return '  tainted<%s, vsbx> %s = %s; mathint I = (mathint)%s;\n' % (idx, var, _lit(nv, idx), _lit(nv, idx))
    return ('  alignas(8) static unsigned char cell_%s[8]; auto guest_%s = %s; std::memcpy(cell_%s, &guest_%s, sizeof(guest_%s));\n'
            '  auto& %s = *reinterpret_cast<tainted_volatile<%s, vsbx>*>(cell_%s); mathint I = (mathint)guest_%s;\n'
            % (var, var, _lit(nv, 'long long'), var, var, var, var, idx, var, var)).replace('auto guest_%s = ' % var, 'decltype(std::declval<tainted_volatile<%s, vsbx>&>().data) guest_%s = ' % (idx, var)).replace('decltype(', 'std::remove_cv_t<decltype(').replace('.data) guest_', '.data)> guest_')


def replay_arr_index(spec, vals, obligation, desc):
    nv = _int(vals, 'in_i')
    body = PRE + 'int main(){\n  static %s<%s, vsbx> a;\n' % (spec['wrap'], spec['arr'])
    body += _idx_setup(spec['rhs_kind'], spec['idx'], nv)
    body += ('  int aborted = 0; uintptr_t result = 0;\n'
             '  try { auto& r = a[i]; result = reinterpret_cast<uintptr_t>(std::addressof(r)); } catch (const std::runtime_error&) { aborted = 1; }\n'
             '  mathint base = (mathint)reinterpret_cast<uintptr_t>(std::addressof(a));\n'
             '  std::printf("aborted=%%d\\n", aborted); pr("index", I); pr("offset", (mathint)result - base);\n'
             '  std::printf("in_range=%%d\\n", (int)(I >= 0 && I < %d));\n'
             '  std::printf("element_ok=%%d\\n", (int)((mathint)result == base + I * %d));\n  return 0; }\n' % (spec['n0'], spec['esz']))

    def judge(d):
        cl = _clause(desc)
        returned = d.get('aborted') == '0'
        if 'precondition' in obligation and cl is None:
            return d.get('aborted') == '1' and d.get('in_range') == '1'
        if cl == 'in_range':
            return returned and d.get('in_range') == '0'
        if cl == 'element':
            return returned and d.get('element_ok') == '0'
        return False
    return body, judge


WHOLLY = ('  auto wholly_in = [&](mathint a, mathint n){ int w = which(a); return a != 0 && w != -1 && in_reg(w, a + n - 1); };\n')


def replay_check_range(spec, vals, obligation, desc):
    pv, nv = _int(vals, 'in_p'), _int(vals, 'in_n')
    body = PRE + 'int main(){\n' + backend_setup(vals) + WHOLLY
    body += ('  int aborted = 0; mathint P = (mathint)%dULL, N = (mathint)%dULL;\n'
             '  try { detail::check_range_doesnt_cross_app_sbx_boundary<vsbx>((const void*)%dULL, (size_t)%dULL); } catch (const std::runtime_error&) { aborted = 1; }\n'
             '  std::printf("aborted=%%d\\n", aborted); pr("start", P); pr("size", N); pr("exact_end", P + N - 1);\n'
             '  std::printf("end_wraps=%%d\\n", (int)(N >= 1 && P + N - 1 >= ((mathint)1 << 64)));\n'
             '  std::printf("same_side=%%d\\n", (int)(which(P) == which((mathint)(uintptr_t)(%dULL + %dULL - 1))));\n  return 0; }\n'
             % (pv, nv, pv, nv, pv, nv))

    def judge(d):
        cl = _clause(desc)
        returned = d.get('aborted') == '0'
        if cl == 'end_does_not_wrap':
            return returned and d.get('end_wraps') == '1'
        if cl == 'nonnull':
            return returned and pv == 0
        if cl == 'ends_same_side':
            return returned and d.get('same_side') == '0'
        if 'precondition' in obligation:
            return d.get('aborted') == '1' and pv != 0 and nv >= 1 and d.get('end_wraps') == '0' and d.get('same_side') == '1'
        return False
    return body, judge


def replay_unverified_ptr(spec, vals, obligation, desc):
    pv, cv = _int(vals, 'in_p'), _int(vals, 'in_count')
    body = PRE + 'int main(){\n' + backend_setup(vals) + WHOLLY
    body += ('  tainted<%s*, vsbx> p; *reinterpret_cast<uintptr_t*>(&p) = %dULL; size_t count = (size_t)%dULL;\n'
             '  int aborted = 0; uintptr_t ret = 0; mathint P = (mathint)%dULL; mathint bytes = (mathint)count * %d;\n'
             '  try { ret = (uintptr_t)p.unverified_safe_pointer_because(count, "r"); } catch (const std::runtime_error&) { aborted = 1; }\n'
             '  std::printf("aborted=%%d\\n", aborted); pr("p", P); pr("count", (mathint)count); pr("bytes", bytes); pr("returned", (mathint)ret);\n'
             '  std::printf("elements_wholly_inside=%%d\\n", (int)(count >= 1 && wholly_in(P, bytes)));\n  return 0; }\n'
             % (spec['pointee'], pv, cv, pv, spec['esz']))

    def judge(d):
        cl = _clause(desc)
        returned = d.get('aborted') == '0'
        if cl in ('elements_inside_small', 'elements_inside_huge'):
            return returned and d.get('returned') != '0' and d.get('elements_wholly_inside') == '0'
        if cl == 'returns_ptr':
            return returned and d.get('returned') != str(pv)
        if 'precondition' in obligation:     # no-abort direction
            return d.get('aborted') == '1' and (pv == 0 or d.get('elements_wholly_inside') == '1')
        return False
    return body, judge


def replay_buffer_address(spec, vals, obligation, desc):
    pv, cv = _int(vals, 'in_p'), _int(vals, 'in_count')
    body = PRE + 'int main(){\n' + backend_setup(vals) + WHOLLY
    body += ('  tainted<%s*, vsbx> p; *reinterpret_cast<uintptr_t*>(&p) = %dULL; size_t count = (size_t)%dULL;\n'
             '  int aborted = 0; uintptr_t ret = 0; int calls = 0; mathint P = (mathint)%dULL; mathint bytes = (mathint)count * %d;\n'
             '  try { ret = p.copy_and_verify_buffer_address([&](uintptr_t v) { calls++; return v; }, count); } catch (const std::runtime_error&) { aborted = 1; }\n'
             '  std::printf("aborted=%%d\\nverifier_calls=%%d\\n", aborted, calls); pr("p", P); pr("count", (mathint)count); pr("bytes", bytes); pr("address_given_to_verifier", (mathint)ret);\n'
             '  std::printf("elements_wholly_inside=%%d\\n", (int)(count >= 1 && wholly_in(P, bytes)));\n  return 0; }\n'
             % (spec['pointee'], pv, cv, pv, spec['esz']))

    def judge(d):
        returned = d.get('aborted') == '0'
        if 'verifier_stub' in obligation and 'precondition' in obligation:
            return returned and d.get('verifier_calls') == '1' and d.get('address_given_to_verifier') != '0' and d.get('elements_wholly_inside') == '0'
        if 'precondition' in obligation:     # no-abort direction
            return d.get('aborted') == '1' and cv >= 1 and (pv == 0 or d.get('elements_wholly_inside') == '1')
        return False
    return body, judge


def sandbox_setup(vals, var='sb'):
    return ('  static rlbox_sandbox<vsbx> %s; %s.slot = %d;\n' % (var, var, _int(vals, 'in_slot')))


def replay_assign_raw(spec, vals, obligation, desc):
    v = _int(vals, 'in_val')
    pt = spec['ptype']
    body = PRE + 'int main(){\n' + backend_setup(vals) + sandbox_setup(vals)
    if spec['wrap'] == 'tainted':
        body += '  tainted<%s, vsbx> t; std::memset(&t, 0, sizeof(t));\n' % pt
    else:
        body += '  alignas(8) static unsigned char cell[8]; auto& t = *reinterpret_cast<tainted_volatile<%s, vsbx>*>(cell);\n' % pt
    body += ('  int aborted = 0; mathint V = (mathint)%dULL;\n'
             '  try { t.assign_raw_pointer(sb, reinterpret_cast<%s>(%dULL)); } catch (const std::runtime_error&) { aborted = 1; }\n'
             '  std::printf("aborted=%%d\\n", aborted); pr("value", V);\n'
             '  std::printf("inside_this_sandbox=%%d\\n", (int)in_reg(sb.slot, V));\n' % (v, pt, v))
    if spec['wrap'] == 'tainted':
        body += '  pr("stored", (mathint)*reinterpret_cast<uintptr_t*>(&t)); std::printf("stored_ok=%d\\n", (int)((mathint)*reinterpret_cast<uintptr_t*>(&t) == V));\n'
    else:
        body += '  pr("stored", (mathint)*reinterpret_cast<uint32_t*>(cell)); std::printf("stored_ok=%d\\n", (int)((mathint)*reinterpret_cast<uint32_t*>(cell) == V - (mathint)vsbx::region_base[sb.slot]));\n'
    body += '  return 0; }\n'

    def judge(d):
        cl = _clause(desc)
        returned = d.get('aborted') == '0'
        if cl == 'inside_or_abort':
            return returned and d.get('inside_this_sandbox') == '0'
        if cl in ('stored', 'stored_guest_repr'):
            return returned and d.get('stored_ok') == '0'
        if 'precondition' in obligation:
            return d.get('aborted') == '1' and d.get('inside_this_sandbox') == '1'
        return False
    return body, judge


def replay_accept_pointer(spec, vals, obligation, desc):
    v = _int(vals, 'in_val')
    body = PRE + 'int main(){\n' + backend_setup(vals) + sandbox_setup(vals)
    body += ('  int aborted = 0; mathint V = (mathint)%dULL; uintptr_t got = 0;\n'
             '  try { auto r = sb.UNSAFE_accept_pointer(reinterpret_cast<int*>(%dULL)); got = (uintptr_t)r.UNSAFE_unverified(); } catch (const std::runtime_error&) { aborted = 1; }\n'
             '  std::printf("aborted=%%d\\n", aborted); pr("value", V); pr("returned", (mathint)got);\n'
             '  std::printf("inside_this_sandbox=%%d\\n", (int)in_reg(sb.slot, V)); std::printf("stored_ok=%%d\\n", (int)((mathint)got == V));\n  return 0; }\n' % (v, v))

    def judge(d):
        cl = _clause(desc)
        returned = d.get('aborted') == '0'
        if cl == 'inside_or_abort':
            return returned and d.get('inside_this_sandbox') == '0'
        if cl == 'returned_value':
            return returned and d.get('stored_ok') == '0'
        if 'precondition' in obligation:
            return d.get('aborted') == '1' and d.get('inside_this_sandbox') == '1'
        return False
    return body, judge


def replay_app_ptr_move_assign(spec, vals, obligation, desc):
    body = PRE + '''int main(){
  vsbx::region_base[0] = 0x100000000ull; vsbx::region_size[0] = 0x10000;
  static rlbox_sandbox<vsbx> sb; sb.create_sandbox(0, (uintptr_t)0x100000000ull, (uintptr_t)0x10000);
  static int x, y;
  auto a = sb.get_app_pointer(&x); auto b = sb.get_app_pointer(&y);
  auto tok_a = a.UNSAFE_sandboxed(sb); auto addr_a = a.to_tainted();
  a = std::move(b);                       // overwrite a live owner
  int still_registered = 1;
  try { (void)sb.lookup_app_ptr(addr_a); } catch (const std::runtime_error&) { still_registered = 0; }
  std::printf("old_token=%u\\n", (unsigned)tok_a);
  std::printf("old_token_still_registered_after_overwrite=%d\\n", still_registered);
  return 0; }
'''

    def judge(d):
        return d.get('old_token_still_registered_after_overwrite') == '1'
    return body, judge


NOOP_PRE = '''#define RLBOX_SINGLE_THREADED_INVOCATIONS
#define RLBOX_USE_EXCEPTIONS
#define RLBOX_USE_STATIC_CALLS() rlbox_noop_sandbox_lookup_symbol
#include "rlbox_noop_sandbox.hpp"
#include "rlbox.hpp"
#include <cstdio>
#include <stdexcept>
#include <vector>
using namespace rlbox;
using SB = rlbox_sandbox<rlbox_noop_sandbox>;
template<int N> tainted<int, rlbox_noop_sandbox> cbfn(SB&, tainted<long, rlbox_noop_sandbox> a) { return tainted<int, rlbox_noop_sandbox>(N); }
'''


def replay_callback_move_assign(spec, vals, obligation, desc):
    body = NOOP_PRE + '''int main(){
  SB sb; sb.create_sandbox();
  auto c1 = sb.register_callback(cbfn<1>); auto c2 = sb.register_callback(cbfn<2>);
  c1 = std::move(c2);                       // overwrite a live owner
  int f1_can_be_registered_again = 1;
  try { auto c3 = sb.register_callback(cbfn<1>); } catch (const std::runtime_error&) { f1_can_be_registered_again = 0; }
  std::printf("overwritten_registration_released=%d\\n", f1_can_be_registered_again);
  return 0; }
'''

    def judge(d):
        return d.get('overwritten_registration_released') == '0'
    return body, judge


def replay_register_full_table(spec, vals, obligation, desc):
    regs = ''.join('  owners.push_back(sb.register_callback(cbfn<%d>));\n' % i for i in range(64))
    body = NOOP_PRE + 'int main(){\n  SB sb; sb.create_sandbox();\n  std::vector<sandbox_callback<int (*)(long), rlbox_noop_sandbox>> owners;\n' + regs + '''
  int refused = 0; int claims_registered = 0; unsigned long entry = 1;
  try { auto extra = sb.register_callback(cbfn<64>); claims_registered = !extra.is_unregistered(); entry = (unsigned long)extra.UNSAFE_sandboxed(sb); }
  catch (const std::runtime_error&) { refused = 1; }
  std::printf("registration_65_refused=%d\\nclaims_registered=%d\\nentry_point=%lu\\n", refused, claims_registered, entry);
  return 0; }
'''

    def judge(d):
        return d.get('registration_65_refused') == '0' and d.get('claims_registered') == '1' and d.get('entry_point') == '0'
    return body, judge


def replay_register_refused(spec, vals, obligation, desc):
    """fill the backend's table (64), register one more function (refused), release one owner, register that function again"""
    regs = ''.join('  owners.push_back(sb.register_callback(cbfn<%d>));\n' % i for i in range(64))
    body = NOOP_PRE + 'int main(){\n  SB sb; sb.create_sandbox();\n  std::vector<sandbox_callback<int (*)(long), rlbox_noop_sandbox>> owners;\n' + regs + '''
  int refused = 0, second_refused = 0;
  try { auto extra = sb.register_callback(cbfn<64>); } catch (const std::runtime_error&) { refused = 1; }
  owners.pop_back();
  try { auto again = sb.register_callback(cbfn<64>); } catch (const std::runtime_error& e) { second_refused = 1; std::printf("second_attempt_message=%s\\n", e.what()); }
  std::printf("registration_65_refused=%d\\nretry_with_a_free_entry_point_refused=%d\\n", refused, second_refused);
  return 0; }
'''

    def judge(d):
        return d.get('registration_65_refused') == '1' and d.get('retry_with_a_free_entry_point_refused') == '1'
    return body, judge


KINDS = {'register_refused': replay_register_refused, 'callback_move_assign': replay_callback_move_assign, 'register_full_table': replay_register_full_table,
         'app_ptr_move_assign': replay_app_ptr_move_assign, 'convert': replay_convert, 'ptr_arith': replay_ptr_arith, 'arr_index': replay_arr_index,
         'check_range': replay_check_range, 'unverified_ptr': replay_unverified_ptr, 'buffer_address': replay_buffer_address,
         'assign_raw': replay_assign_raw, 'accept_pointer': replay_accept_pointer}


def register(kind, fn):
    KINDS[kind] = fn


def replay(prop, inst, info, obligation, desc, vals, res, replay_dir):
    fname = re.sub(r'[^A-Za-z0-9_.-]', '_', '%s__%s' % (inst.name, obligation))[:180] + '.json'
    path = os.path.join(replay_dir, fname)
    rec = {
        'property': prop, 'instance': inst.name, 'function': info.get('root_cxx'), 'mangled': info.get('mangled'),
        'failed_obligation': obligation, 'obligation_text': desc, 'counterexample_inputs': vals,
        'solver': res.solver, 'confirmed': False, 'native_output': None,
        'extracted_c_file': info.get('cfile'),
    }
    # the verifier's own output for this obligation (trace section), always carried
    m = re.search(r'Trace for %s:\n(.*?)(?=\nTrace for |\n\*\* \d+ of \d+ failed|\Z)' % re.escape(obligation), res.trace or '', re.S)
    rec['verifier_output'] = (m.group(1)[-6000:] if m else (res.trace or '')[-6000:])
    spec = inst.replay
    if spec and spec.get('kind') in KINDS and (vals or spec.get('no_inputs')):
        try:
            src, judge = KINDS[spec['kind']](spec, vals, obligation, desc)
            out, err = _run_cpp(src, os.path.join(replay_dir, 'native'), re.sub(r'[^A-Za-z0-9_]', '_', inst.name))
            rec['native_program'] = src
            rec['native_output'] = out if err is None else err
            if err is None:
                rec['confirmed'] = bool(judge(kv(out)))
        except Exception as e:  # replay machinery problems never hide the violation
            rec['native_output'] = 'replay failed: %r' % e
    json.dump(rec, open(path, 'w'), indent=1)
    rec['path'] = path
    return rec
