"""Load clang's JSON AST dump (sequence of JSON objects) and index it."""
import json
import re
import subprocess
import os

from . import cxxtypes as T

FUNC_KINDS = ('FunctionDecl', 'CXXMethodDecl', 'CXXConstructorDecl', 'CXXConversionDecl', 'CXXDestructorDecl')
REC_KINDS = ('CXXRecordDecl', 'ClassTemplateSpecializationDecl', 'ClassTemplatePartialSpecializationDecl')

NS_STRIP = re.compile(r'\b(?:rlbox|detail|std|__cxx11|__gnu_cxx|[a-z_]+_detail|tainted_detail|callback_detail|compile_time_for_detail|'
                      r'convert_fn_ptr_to_sandbox_equivalent_detail|vinst|polyfill)::')


class ExtractError(Exception):
    """extraction failed closed -> exit 2 (undecided), never a violation"""


def norm_name(s):
    """normalise a C++ type/record spelling for matching: drop known namespaces, elaborated keywords, spaces"""
    s = NS_STRIP.sub('', s)
    s = re.sub(r'\b(struct|class|enum|typename)\s+', '', s)
    s = re.sub(r'\s+', '', s)
    return s


def inner(n):
    if n.get('kind') == 'InitListExpr' and not n.get('inner') and n.get('array_filler'):
        # clang prints a brace list that is shorter than its array as array_filler = [filler, explicit initialisers...]
        # (no 'inner'); the explicit initialisers come first in the array and the rest is value-initialised, which is what a
        # C brace list with the same explicit values means
        return [c for c in n['array_filler'][1:] if isinstance(c, dict) and c]
    return [c for c in (n.get('inner') or []) if isinstance(c, dict) and c]


def qt(n):
    t = n.get('type', {})
    return t.get('desugaredQualType') or t.get('qualType')


def has_body(fn):
    return any(c.get('kind') == 'CompoundStmt' for c in inner(fn))


def body_of(fn):
    for c in inner(fn):
        if c.get('kind') == 'CompoundStmt':
            return c
    return None


class TU:
    def __init__(self, json_path):
        """json_path: full (unfiltered) clang -ast-dump=json of the driver TU.  The dump is one
        TranslationUnitDecl; its top-level children are split textually (clang pretty-prints them at a fixed
        indentation).  Children that are `namespace rlbox` are parsed eagerly; all others (libstdc++) stay as
        text and are parsed lazily when a referenced declaration id has to be looked up (find_decl_anywhere)."""
        txt = open(json_path).read()
        self.text = txt
        self.chunks = []          # (start, end) offsets of top-level children
        self._chunk_cache = {}
        self.objs = []
        starts = [m.start() + 1 for m in re.finditer(r'\n    \{\n', txt)]
        ends = [m.end() - 1 for m in re.finditer(r'\n    \},?\n', txt)]
        if len(starts) != len(ends):
            raise ExtractError('AST dump top-level split mismatch (%d starts, %d ends)' % (len(starts), len(ends)))
        for a_, b_ in zip(starts, ends):
            if b_ <= a_:
                raise ExtractError('AST dump top-level split out of order')
            self.chunks.append((a_, txt.rfind('}', a_, b_) + 1))
        if not self.chunks:
            raise ExtractError('AST dump has no top-level declarations: ' + json_path)
        for ci, (a, b) in enumerate(self.chunks):
            head = txt[a:a + 8000]
            mk = re.search(r'"kind": "(\w+)"', head)
            mn = re.search(r'\n      "name": "(\w+)"', head)
            if mk and mk.group(1) == 'NamespaceDecl' and mn and mn.group(1) == 'rlbox':
                o = json.loads(txt[a:b])
                self._chunk_cache[ci] = o
                self.objs.append(o)
        self.funcs = {}        # id -> node (definitions with bodies, instantiated or non-template)
        self.fdecls = {}       # id -> node (any function decl)
        self.parent_rec = {}   # function id -> record node
        self.rec_by_id = {}
        self.records = {}      # normalised name -> [record nodes]
        self.rec_name = {}     # record id -> display name
        self.decls = {}        # id -> Var/Parm/Field/EnumConstant decl
        self.enum_consts = {}  # id -> (value, enum node)
        self.enums = {}        # norm name -> node
        self.aliases = {}      # norm qualified alias name -> underlying type string
        self.var_parent = {}   # var decl id -> record node (static data members)
        self.prev = {}         # decl id -> previousDecl id
        self.qual = {}         # decl id -> qualified scope string
        self.templated = set() # ids of decls that are template patterns (dependent)
        for o in self.objs:
            self._walk(o, None, '', False)
        # canonical decl resolution: a decl id may refer to a non-defining redeclaration
        self.def_of = {}
        for fid, fn in self.funcs.items():
            self.def_of[fid] = fid
        for fid, fn in self.fdecls.items():
            p = fn.get('previousDecl')
            if p:
                self.prev[fid] = p
        # link redeclaration chains to the defining decl
        chains = {}
        for fid in self.fdecls:
            root = fid
            seen = set()
            while root in self.prev and root not in seen:
                seen.add(root)
                root = self.prev[root]
            chains.setdefault(root, []).append(fid)
        for root, ids in chains.items():
            defs = [i for i in ids if i in self.funcs]
            if defs:
                for i in ids:
                    self.def_of[i] = defs[0]

    # ------------------------------------------------------------------
    def _rec_display(self, n, scope):
        args = [c for c in inner(n) if c.get('kind') == 'TemplateArgument']
        name = n.get('name') or ('_anon_' + n.get('id', ''))
        if n.get('kind') in ('ClassTemplateSpecializationDecl',) and args:
            def a(c):
                if 'type' in c:
                    return c['type'].get('desugaredQualType') or c['type']['qualType']
                if 'value' in c:
                    return str(c['value'])
                ii = inner(c)
                if ii and 'value' in ii[0]:
                    return str(ii[0]['value'])
                tt = self._template_template_arg(n)
                return tt or '?'
            name = name + '<' + ', '.join(a(c) for c in args) + '>'
        return scope + name

    def _template_template_arg(self, n):
        """clang's JSON does not print template-template arguments; recover the name of the (first)
        one from the mangled name of any member function: <len><recname>INS_<len><argname>E..."""
        nm = n.get('name', '')
        pat = re.compile(r'%d%sINS_(\d+)' % (len(nm), re.escape(nm)))
        def scan(x):
            mn = x.get('mangledName')
            if mn:
                m = pat.search(mn)
                if m:
                    k = int(m.group(1))
                    return mn[m.end():m.end() + k]
            for c in inner(x):
                if c.get('kind') in FUNC_KINDS or c.get('kind') == 'FunctionTemplateDecl':
                    r = scan(c)
                    if r:
                        return r
            return None
        r = scan(n)
        return ('rlbox::' + r) if r else None

    def _walk(self, n, rec, scope, templated):
        k = n.get('kind')
        if k in ('ClassTemplateDecl', 'FunctionTemplateDecl', 'VarTemplateDecl', 'TypeAliasTemplateDecl',
                 'ClassTemplatePartialSpecializationDecl'):
            # children: template params, the pattern (templated), then instantiated specializations
            first_pattern = True
            for c in inner(n):
                ck = c.get('kind')
                if ck in REC_KINDS or ck in FUNC_KINDS or ck in ('VarDecl', 'TypeAliasDecl'):
                    if first_pattern and ck not in ('ClassTemplateSpecializationDecl',) and ck != 'VarTemplateSpecializationDecl':
                        first_pattern = False
                        self._walk(c, rec, scope, True)      # the dependent pattern
                        continue
                self._walk(c, rec, scope, templated)
            return
        if k == 'NamespaceDecl':
            sc = scope + (n.get('name', '') + '::' if n.get('name') else '')
            for c in inner(n):
                self._walk(c, rec, sc, templated)
            return
        if k in REC_KINDS:
            disp = self._rec_display(n, scope)
            if n.get('completeDefinition') and not templated and k != 'ClassTemplatePartialSpecializationDecl':
                self.rec_by_id[n['id']] = n
                self.rec_name[n['id']] = disp
                self.records.setdefault(norm_name(disp), []).append(n)
            sub_t = templated or k == 'ClassTemplatePartialSpecializationDecl'
            if n.get('completeDefinition'):
                for c in inner(n):
                    self._walk(c, n, disp + '::', sub_t)
            return
        if k in FUNC_KINDS:
            self.fdecls[n['id']] = n
            self.qual[n['id']] = scope
            if rec is not None:
                self.parent_rec[n['id']] = rec
            if templated:
                self.templated.add(n['id'])
            elif has_body(n) and 'mangledName' in n:
                self.funcs[n['id']] = n
            # local classes / lambdas inside bodies
            for c in inner(n):
                self._walk_body(c, templated)
            return
        if k in ('VarDecl', 'FieldDecl', 'ParmVarDecl', 'VarTemplateSpecializationDecl'):
            self.decls[n['id']] = n
            self.qual[n['id']] = scope
            if rec is not None and k in ('VarDecl', 'VarTemplateSpecializationDecl'):
                self.var_parent[n['id']] = rec
            for c in inner(n):
                self._walk_body(c, templated)
            return
        if k == 'EnumDecl':
            disp = scope + (n.get('name') or '_anon')
            self.enums[norm_name(disp)] = n
            val = -1
            for c in inner(n):
                if c.get('kind') == 'EnumConstantDecl':
                    v = None
                    for e in inner(c):
                        v = _const_value(e)
                    val = v if v is not None else val + 1
                    self.enum_consts[c['id']] = (val, n)
            return
        if k in ('TypeAliasDecl', 'TypedefDecl'):
            if not templated:
                t = n.get('type', {})
                self.aliases[norm_name(scope + n.get('name', ''))] = t.get('desugaredQualType') or t.get('qualType')
            return
        for c in inner(n):
            self._walk(c, rec, scope, templated)

    def _walk_body(self, n, templated):
        k = n.get('kind')
        if k in REC_KINDS:
            # local class or lambda closure
            if n.get('completeDefinition') and not templated:
                self.rec_by_id[n['id']] = n
                self.rec_name[n['id']] = n.get('name') or ('lambda_' + n['id'])
            for c in inner(n):
                ck = c.get('kind')
                if ck in FUNC_KINDS:
                    self.fdecls[c['id']] = c
                    self.parent_rec[c['id']] = n
                    if templated:
                        self.templated.add(c['id'])
                    elif has_body(c):
                        self.funcs[c['id']] = c
                    for cc in inner(c):
                        self._walk_body(cc, templated)
                elif ck == 'FunctionTemplateDecl':
                    first = True
                    for cc in inner(c):
                        if cc.get('kind') in FUNC_KINDS:
                            self.fdecls[cc['id']] = cc
                            self.parent_rec[cc['id']] = n
                            if first:
                                first = False
                                self.templated.add(cc['id'])
                                for ccc in inner(cc):
                                    self._walk_body(ccc, True)
                            else:
                                if has_body(cc) and not templated:
                                    self.funcs[cc['id']] = cc
                                for ccc in inner(cc):
                                    self._walk_body(ccc, templated)
                elif ck in ('FieldDecl', 'VarDecl'):
                    self.decls[c['id']] = c
                else:
                    self._walk_body(c, templated)
            return
        if k in ('VarDecl', 'ParmVarDecl', 'FieldDecl'):
            self.decls[n['id']] = n
        for c in inner(n):
            self._walk_body(c, templated)

    # ------------------------------------------------------------------
    def func(self, fid):
        d = self.def_of.get(fid, fid)
        return self.funcs.get(d)

    def find_record(self, type_name):
        """record node for a (desugared) C++ record type spelling, or None"""
        key = norm_name(type_name)
        c = self.records.get(key)
        if c:
            return c[0]
        # template-template argument is not printed in the decl: wildcard on the first arg
        m = re.match(r'^([A-Za-z_0-9:]+)<([^,<>]+),(.*)>$', key)
        if m:
            wk = '%s<?,%s>' % (m.group(1), m.group(3))
            c = self.records.get(wk)
            if c:
                return c[0]
        return None

    def find_decl_anywhere(self, did):
        """declaration node with this id anywhere in the TU (lazy parse of non-rlbox chunks); returns
        (node, scope string) or (None, None)"""
        needle = '"id": "%s"' % did
        pos = self.text.find(needle)
        import bisect
        starts = [c[0] for c in self.chunks]
        tried = set()
        while pos != -1:
            ci = bisect.bisect_right(starts, pos) - 1
            if ci >= 0 and ci not in tried and self.chunks[ci][0] <= pos < self.chunks[ci][1]:
                tried.add(ci)
                o = self._chunk_cache.get(ci)
                if o is None:
                    a, b = self.chunks[ci]
                    o = json.loads(self.text[a:b])
                    self._chunk_cache[ci] = o
                r = self._find_by_id(o, did, '')
                if r[0] is not None:
                    return r
            pos = self.text.find(needle, pos + 1)
        return None, None

    def _find_by_id(self, n, did, scope):
        if n.get('id') == did and 'kind' in n and n['kind'].endswith('Decl'):
            return n, scope
        sc = scope
        if n.get('kind') == 'NamespaceDecl' and n.get('name'):
            sc = scope + n['name'] + '::'
        elif n.get('kind') in REC_KINDS and n.get('name'):
            sc = scope + n['name'] + '::'
        for c in inner(n):
            r = self._find_by_id(c, did, sc)
            if r[0] is not None:
                return r
        return None, None

    def inst_functions(self, ns='vinst'):
        """functions defined in namespace rlbox::<ns> (the usage snippets), by name"""
        out = {}
        for fid, fn in self.funcs.items():
            if self.qual.get(fid, '').endswith(ns + '::') and fid not in self.parent_rec:
                out[fn['name']] = fn
        return out


def _const_value(e):
    if 'value' in e and e.get('kind') in ('ConstantExpr', 'IntegerLiteral'):
        try:
            return int(e['value'])
        except ValueError:
            return None
    for c in inner(e):
        v = _const_value(c)
        if v is not None:
            return v
    return None


def dump_ast(driver_cpp, out_json, includes, defines=(), timeout=300):
    cmd = ['clang++', '-std=c++17', '-fsyntax-only', '-Wno-unused-value', '-Wno-everything', '-ferror-limit=0']
    for d in defines:
        cmd.append('-D' + d)
    for i in includes:
        cmd.append('-I' + i)
    cmd += ['-Xclang', '-ast-dump=json', driver_cpp]
    with open(out_json, 'w') as f:
        p = subprocess.run(cmd, stdout=f, stderr=subprocess.PIPE, text=True, timeout=timeout)
    if p.returncode != 0:
        raise ExtractError('clang failed on driver %s:\n%s' % (driver_cpp, p.stderr[-60000:]))
    return out_json
