"""goto-cc / goto-instrument --dfcc / cbmc runner with a solver portfolio, result and trace parsing."""
import os
import re
import subprocess
import time
import resource

MEM_LIMIT_KB = 12 * 1024 * 1024


def _limits():
    resource.setrlimit(resource.RLIMIT_AS, (MEM_LIMIT_KB * 1024, MEM_LIMIT_KB * 1024))


def run(cmd, timeout, cwd=None):
    t0 = time.time()
    try:
        wrapped = ['bash', '-c', 'ulimit -v %d; exec "$@"' % MEM_LIMIT_KB, 'sh'] + list(cmd)
        p = subprocess.run(wrapped, stdout=subprocess.PIPE, stderr=subprocess.STDOUT, text=True, timeout=timeout, cwd=cwd)
        return p.returncode, p.stdout, time.time() - t0
    except subprocess.TimeoutExpired as e:
        out = e.stdout if isinstance(e.stdout, str) else (e.stdout.decode('utf-8', 'replace') if e.stdout else '')
        return 'timeout', out, time.time() - t0


SOLVERS = {
    'minisat': [],
    'cadical': ['--sat-solver', 'cadical'],
    'z3': ['--z3'],
    'cvc5': ['--cvc5'],
}

RES_RE = re.compile(r'^\[(?P<name>[^\]]+)\]\s+(?:line (?P<line>\d+)\s+)?(?P<desc>.*?):\s+(?P<st>SUCCESS|FAILURE|UNKNOWN|ERROR)\s*$')


class CbmcResult:
    def __init__(self):
        self.status = 'undecided'     # 'ok' | 'failed' | 'undecided'
        self.obligations = {}         # name -> (status, desc, line)
        self.solver = None
        self.time = 0.0
        self.log = ''
        self.reason = ''
        self.cmds = []
        self.trace = ''


def parse_results(out):
    res = {}
    in_results = False
    for line in out.splitlines():
        if line.startswith('** Results:'):
            in_results = True
            continue
        if not in_results:
            continue
        m = RES_RE.match(line.strip())
        if m:
            res[m.group('name')] = (m.group('st'), m.group('desc'), m.group('line'))
    return res


def verify(c_file, workdir, entry, enforce, replace=(), loop_contracts=False, nondet_volatile=False,
           includes=(), defines=(), solvers=('minisat',), timeout=120, unwind=None, extra_cbmc=(), trace=True,
           object_bits=None, stop_on_fail=False):
    """returns CbmcResult.  Timeouts/tool errors -> undecided (never failed)."""
    r = CbmcResult()
    base = os.path.splitext(os.path.basename(c_file))[0]
    a_gb = os.path.join(workdir, base + '.a.gb')
    b_gb = os.path.join(workdir, base + '.b.gb')
    cmd = ['goto-cc', '--function', entry, '-o', a_gb, c_file]
    for i in includes:
        cmd += ['-I', i]
    for d in defines:
        cmd += ['-D' + d]
    r.cmds.append(' '.join(cmd))
    rc, out, dt = run(cmd, 120)
    r.log += out
    if rc != 0:
        r.reason = 'goto-cc failed: ' + out[-1500:]
        return r
    cur = a_gb
    if nondet_volatile:
        nv = os.path.join(workdir, base + '.nv.gb')
        cmd = ['goto-instrument', '--nondet-volatile', cur, nv]
        r.cmds.append(' '.join(cmd))
        rc, out, dt = run(cmd, 120)
        r.log += out
        if rc != 0:
            r.reason = 'goto-instrument --nondet-volatile failed: ' + out[-1500:]
            return r
        cur = nv
    cmd = ['goto-instrument', '--dfcc', entry]
    for e in enforce:
        cmd += ['--enforce-contract', e]
    for x in replace:
        cmd += ['--replace-call-with-contract', x]
    if loop_contracts:
        cmd += ['--apply-loop-contracts']
    cmd += [cur, b_gb]
    r.cmds.append(' '.join(cmd))
    rc, out, dt = run(cmd, 300)
    r.log += out
    if rc != 0:
        r.reason = 'goto-instrument --dfcc failed: ' + out[-2500:]
        return r
    if 'ignoring' in out:
        r.reason = 'goto-instrument reported an ignored construct: ' + '\n'.join(l for l in out.splitlines() if 'ignoring' in l)[:500]
        return r
    for s in solvers:
        cmd = ['cbmc', b_gb, '--bounds-check', '--pointer-check', '--signed-overflow-check', '--conversion-check',
               '--div-by-zero-check', '--undefined-shift-check', '--no-standard-checks'] if False else \
              ['cbmc', b_gb, '--bounds-check', '--pointer-check']
        if unwind is not None:
            cmd += ['--unwind', str(unwind), '--unwinding-assertions']
        if object_bits:
            cmd += ['--object-bits', str(object_bits)]
        cmd += list(extra_cbmc) + SOLVERS[s]
        if trace:
            cmd += ['--trace']
        r.cmds.append(' '.join(cmd))
        rc, out, dt = run(cmd, timeout)
        r.time += dt
        if rc != 'timeout' and 'too many addressed objects' in out and not object_bits:
            # cbmc's default of 8 object bits (256 objects) is a tool limit, not a verdict: widen and repeat
            cmd = cmd[:2] + ['--object-bits', '12'] + cmd[2:]
            r.cmds[-1] = ' '.join(cmd)
            rc, out, dt = run(cmd, timeout)
            r.time += dt
        if rc == 'timeout':
            r.log += '\n[%s] TIMEOUT after %ds\n' % (s, timeout)
            continue
        r.log += out
        if 'ignoring' in out and 'forall' in out:
            r.reason = 'solver back end ignored a quantifier'
            continue
        obl = parse_results(out)
        if 'VERIFICATION SUCCESSFUL' in out and obl:
            r.status = 'ok'
            r.obligations = obl
            r.solver = s
            return r
        if stop_on_fail and 'VERIFICATION FAILED' in out:
            r.status = 'failed'
            r.solver = s
            return r
        if 'VERIFICATION FAILED' in out and obl:
            r.status = 'failed'
            r.obligations = obl
            r.solver = s
            r.trace = out
            return r
        r.reason = 'cbmc(%s) gave no verdict: %s' % (s, out[-1200:])
    if not r.reason:
        r.reason = 'all solvers timed out'
    return r


def trace_values(trace_text, obligation, names_prefix='in_'):
    """values of harness input variables (in_*) in the counterexample trace for one failed obligation"""
    # split the trace output per "Trace for <obligation>:" section
    sec = None
    m = re.search(r'Trace for %s:\n(.*?)(?=\nTrace for |\n\*\* \d+ of \d+ failed|\Z)' % re.escape(obligation), trace_text, re.S)
    if m:
        sec = m.group(1)
    else:
        sec = trace_text
    vals = {}
    for mm in re.finditer(r'^\s*(%s[A-Za-z0-9_]*)=(-?[0-9]+|TRUE|FALSE|[^ \n]+)(?: \(([01 ]+)\))?' % re.escape(names_prefix), sec, re.M):
        name, v, bits = mm.group(1), mm.group(2), mm.group(3)
        vals[name] = {'value': v, 'bits': bits.replace(' ', '') if bits else None}
    return vals
