"""C09/C10 native replays: adversarial schedules run on the real code through the interleave hook
(RLBOX_VERIF_INTERLEAVE(n) in /repo's rlbox.hpp, guard ALLENABY_RLBOX_VERIF).  A replay program defines
allenaby_rlbox_verif_interleave(point) to rewrite sandbox memory exactly between two of RLBox's reads."""
from . import replay as R

HOOK_PRE = '#define ALLENABY_RLBOX_VERIF\n' + R.PRE + r'''
#include <csignal>
#include <cstdlib>
#include <string>
alignas(4096) static unsigned char mem[65536];
static int g_point = -1; static void (*g_action)() = nullptr;
extern "C" void allenaby_rlbox_verif_interleave(int point) { if (point == g_point && g_action) { auto a = g_action; g_action = nullptr; a(); } }
static const char* g_scn = "";
static void on_segv(int) { std::printf("%s_crashed=1\n", g_scn); std::fflush(stdout); std::_Exit(0); }
'''

SCENARIOS = ('plain', 'unterminate_after_strlen', 'shorten_after_strlen', 'null_after_strlen', 'null_after_first_read')


def replay_cav_string(spec, vals, obligation, desc):
    std = spec['verifier'] == 'std'
    vol = spec['recv'] == 'tainted_volatile'
    recv = ('  *(volatile uint32_t*)(mem + 64) = 256; auto& p = *reinterpret_cast<tainted_volatile<char*, vsbx>*>(mem + 64);\n' if vol else
            '  tainted<char*, vsbx> p; p.assign_raw_pointer(sb, (char*)(mem + 256));\n')
    if std:
        call = ('  std::string seen; int calls = 0; p.copy_and_verify_string([&](std::string s) { calls++; seen = s; return 0; });\n'
                '  std::printf("%s_len=%zu\\n%s_calls=%d\\n", g_scn, seen.size(), g_scn, calls);\n')
    else:
        call = ('  int calls = 0; long term_at = -2; int isnull = 0;\n'
                '  p.copy_and_verify_string([&](std::unique_ptr<char[]> s) { calls++; isnull = !s; if (s) { term_at = -1; for (long i = 0; i < 6; i++) if (s[i] == 0) { term_at = i; break; } } return 0; });\n'
                '  std::printf("%s_term_at=%ld\\n%s_null=%d\\n%s_calls=%d\\n", g_scn, term_at, g_scn, isnull, g_scn, calls);\n')
    body = HOOK_PRE + 'static rlbox_sandbox<vsbx> sb;\n'
    body += 'static void setup() { std::memset(mem, 0x41, sizeof(mem)); std::strcpy((char*)mem + 256, "hello"); }\n'
    body += ('static void unterminate() { mem[256 + 5] = \'X\'; }\nstatic void null_ptr() { *(volatile uint32_t*)(mem + 64) = 0; }\n'
             'static void shorten() { mem[256 + 2] = 0; }\n')
    body += 'static void scenario(const char* name, int point, void (*act)()) {\n  g_scn = name; setup(); g_point = point; g_action = act;\n' + recv + call + '}\n'
    body += ('int main(){\n  std::signal(SIGSEGV, on_segv); sb.create_sandbox(0, (uintptr_t)mem, (uintptr_t)sizeof(mem));\n'
             '  scenario("plain", -1, nullptr);\n  scenario("unterminate_after_strlen", 4, unterminate);\n  scenario("shorten_after_strlen", 4, shorten);\n'
             + ('  scenario("null_after_strlen", 4, null_ptr);\n  scenario("null_after_first_read", 3, null_ptr);\n' if vol else '') + '  return 0; }\n')

    def judge(d):
        bad = [k for k, v in d.items() if k.endswith('_crashed') and v == '1']
        for scn in SCENARIOS:
            if scn + '_calls' in d and d[scn + '_calls'] != '1':
                bad.append(scn + ': verifier not called exactly once')
            if std and scn + '_len' in d and int(d[scn + '_len']) > 5:
                bad.append(scn + ': string longer than the range-checked length')
            if not std and d.get(scn + '_null') == '0' and d.get(scn + '_term_at') == '-1':
                bad.append(scn + ': no terminator inside the 6-byte buffer')
        return bool(bad)
    return body, judge


def replay_cav_content(spec, vals, obligation, desc):
    ct, gt = spec['ctype'], spec['gtype']
    body = HOOK_PRE + ('static rlbox_sandbox<vsbx> sb;\nint main(){\n  sb.create_sandbox(0, (uintptr_t)mem, (uintptr_t)sizeof(mem));\n'
                       '  std::memset(mem, 0x5a, sizeof(mem));\n')
    body += '  for (int i = 0; i < 4; i++) { %s g = (%s)(-(i + 3)); std::memcpy(mem + 256 + i * sizeof(%s), &g, sizeof(g)); }\n' % (gt, gt, gt)
    body += '  tainted<%s*, vsbx> p; p.assign_raw_pointer(sb, (%s*)(mem + 256));\n' % (ct, ct)
    if spec.get('range'):
        body += ('  int ok = p.copy_and_verify_range([](std::unique_ptr<%s[]> v) { int ok = 1; for (int i = 0; i < 4; i++) ok &= (v[i] == (%s)(%s)(-(i + 3))); return ok; }, 4);\n'
                 % (ct, ct, gt))
    else:
        body += '  int ok = p.copy_and_verify([](std::unique_ptr<%s> v) { return (int)(*v == (%s)(%s)(-3)); });\n' % (ct, ct, gt)
    body += '  std::printf("decoded_with_guest_abi=%d\\n", ok);\n  return 0; }\n'

    def judge(d):
        return d.get('decoded_with_guest_abi') == '0'
    return body, judge


def replay_deny_access(spec, vals, obligation, desc):
    el = spec['el']
    body = HOOK_PRE + (
        'static rlbox_sandbox<vsbx> sb;\nint main(){\n  std::signal(SIGSEGV, on_segv); g_scn = "null_source"; sb.create_sandbox(0, (uintptr_t)mem, (uintptr_t)sizeof(mem));\n'
        '  tainted<%s*, vsbx> src = nullptr; bool copied = true;\n  auto r = copy_memory_or_deny_access(sb, src, 16, false, copied);\n'
        '  std::printf("null_source_crashed=0\\nnull_source_returned_null=%%d\\n", (int)(r == nullptr));\n'
        '  g_scn = "tail"; /* a request whose last elements lie beyond the end of sandbox memory */\n'
        '  tainted<%s*, vsbx> t; t.assign_raw_pointer(sb, (%s*)(mem + sizeof(mem) - 4 * sizeof(%s)));\n  int aborted = 0; void* q = nullptr;\n'
        '  try { q = copy_memory_or_deny_access(sb, t, 6, false, copied); } catch (const std::runtime_error&) { aborted = 1; }\n'
        '  std::printf("tail_overrun_refused=%%d\\n", (int)(aborted || q == nullptr));\n  return 0; }\n' % (el, el, el, el))

    def judge(d):
        return d.get('null_source_crashed') == '1' or d.get('null_source_returned_null') == '0' or d.get('tail_overrun_refused') == '0'
    return body, judge


def replay_cav_ptr_refetch(spec, vals, obligation, desc):
    """copy_and_verify (pointer form) on a tainted_volatile<int*> receiver while the pointer cell is rewritten after RLBox's first read"""
    body = HOOK_PRE + 'static rlbox_sandbox<vsbx> sb;\n'
    body += 'static void setup() { std::memset(mem, 0, sizeof(mem)); *(int32_t*)(mem + 256) = 42; *(int32_t*)(mem + 512) = 7; *(volatile uint32_t*)(mem + 64) = 256; }\n'
    body += 'static void null_ptr() { *(volatile uint32_t*)(mem + 64) = 0; }\nstatic void redirect() { *(volatile uint32_t*)(mem + 64) = 512; }\n'
    body += ('static void scenario(const char* name, int point, void (*act)()) {\n  g_scn = name; setup(); g_point = point; g_action = act;\n'
             '  auto& p = *reinterpret_cast<tainted_volatile<int*, vsbx>*>(mem + 64); int calls = 0; long seen = -1;\n'
             '  p.copy_and_verify([&](std::unique_ptr<int> v) { calls++; seen = v ? *v : -2; return 0; });\n'
             '  std::printf("%s_seen=%ld\\n%s_calls=%d\\n", g_scn, seen, g_scn, calls);\n}\n')
    body += ('int main(){\n  std::signal(SIGSEGV, on_segv); sb.create_sandbox(0, (uintptr_t)mem, (uintptr_t)sizeof(mem));\n'
             '  scenario("plain", -1, nullptr);\n  scenario("redirect_after_first_read", 1, redirect);\n  scenario("null_after_first_read", 1, null_ptr);\n  return 0; }\n')

    def judge(d):
        if any(k.endswith('_crashed') and v == '1' for k, v in d.items()):
            return True
        return any(d.get(s + '_seen') not in (None, '42') or d.get(s + '_calls') not in (None, '1') for s in ('plain', 'redirect_after_first_read', 'null_after_first_read'))
    return body, judge


R.register('cav_ptr_refetch', replay_cav_ptr_refetch)

R.register('cav_string', replay_cav_string)
R.register('cav_content', replay_cav_content)
R.register('deny_access', replay_deny_access)


# ---- C16: numeric operators replayed natively with the counterexample's operand values
GUEST_T = {'long': 'int32_t', 'unsigned long': 'uint32_t'}


def _operand(kind, t, var, val):
    if kind == 'plain':
        return '  %s %s = %s;\n' % (t, var, R._lit(val, t))
    if kind == 'tainted':
        return '  tainted<%s, vsbx> %s; { %s v = %s; std::memcpy(&%s, &v, sizeof(v)); }\n' % (t, var, t, R._lit(val, t), var)
    g = GUEST_T.get(t, t)
    return ('  alignas(8) static unsigned char cell_%s[8]; { %s v = %s; std::memcpy(cell_%s, &v, sizeof(v)); }\n'
            '  auto& %s = *reinterpret_cast<tainted_volatile<%s, vsbx>*>(cell_%s);\n' % (var, g, R._lit(val, g), var, var, t, var))


def replay_numeric_op(spec, vals, obligation, desc):
    op, lk, ta, rk, tb = spec['op'], spec['lk'], spec['ta'], spec['rk'], spec['tb']
    if any(t in ('float', 'double') for t in (ta, tb)):
        raise ValueError('floating-point operands are not replayed')
    va, vb = R._int(vals, 'in_a'), R._int(vals, 'in_b')
    body = R.PRE + 'template<class T> static auto raw(const T& r) { if constexpr (std::is_same_v<T, tainted_boolean_hint>) return r.unverified_safe_because("replay"); else return r.UNSAFE_unverified(); }\n'
    body += 'int main(){\n' + _operand(lk, ta, 'a', va) + _operand(rk, tb, 'b', vb)
    body += ('  %s pa = raw(a); %s pb = %s;\n  auto expect = pa %s pb; int aborted = 0;\n'
             '  try { auto r = a %s b; auto got = raw(r);\n'
             '    std::printf("same_type=%%d\\n", (int)std::is_same_v<decltype(got), decltype(expect)>); pr("expect", (mathint)expect); pr("got", (mathint)got);\n'
             '    std::printf("same_value=%%d\\n", (int)(got == expect)); } catch (const std::runtime_error&) { aborted = 1; }\n'
             '  std::printf("aborted=%%d\\n", aborted); return 0; }\n' % (ta, tb, 'b' if rk == 'plain' else 'raw(b)', op, op))

    def judge(d):
        return d.get('aborted') == '1' or d.get('same_value') == '0' or d.get('same_type') == '0'
    return body, judge


R.register('numeric_op', replay_numeric_op)


# ---- C11 / C06: invocation glue replayed natively with a recording guest function
INV_KINDS = {   # kind -> (application parameter type, guest type seen by the callee, how the C++ argument is built)
    'long_plain': ('long', 'int32_t', 'plain'), 'long_tainted': ('long', 'int32_t', 'tainted'), 'long_opaque': ('long', 'int32_t', 'opaque'),
    'ulong_tainted': ('unsigned long', 'uint32_t', 'tainted'), 'int_plain': ('int', 'int32_t', 'plain'),
    'ptr_tainted': ('int*', 'uint32_t', 'ptr'), 'nullptr': ('int*', 'uint32_t', 'null'), 'fnptr_tainted': ('int(*)(long)', 'uint32_t', 'skip'),
}
INV_RET = {'void': ('void', None), 'int': ('int', 'int32_t'), 'long': ('long', 'int32_t'), 'ptr': ('int*', 'uint32_t')}


def replay_invoke(spec, vals, obligation, desc):
    pk, rk = spec['params'], spec['ret']
    if any(INV_KINDS[k][2] == 'skip' for k in pk):
        raise ValueError('function-pointer arguments are not replayed')
    n = len(pk)
    at = [INV_KINDS[k][0] for k in pk]
    gt = [INV_KINDS[k][1] for k in pk]
    rt, rg = INV_RET[rk]
    body = R.PRE + 'static int g_calls = 0; static long long g_seen[16];\n'
    body += 'static %s rec(%s) { g_calls++; %s %s }\n' % (rg or 'void', ', '.join('%s a%d' % (gt[i], i) for i in range(n)),
                                                         ' '.join('g_seen[%d] = (long long)a%d;' % (i, i) for i in range(n)),
                                                         ('return (%s)%s;' % (rg, R._lit(R._int(vals, 'in_guest_ret'), 'long long'))) if rg else '')
    body += 'int main(){\n' + R.backend_setup(vals) + R.sandbox_setup(vals)
    fits = []
    for i, k in enumerate(pk):
        v = R._int(vals, 'in_a%d' % i)
        a, g, how = INV_KINDS[k]
        if how == 'plain':
            body += '  %s a%d = %s;\n' % (a, i, R._lit(v, a))
        elif how in ('tainted', 'opaque'):
            w = 'tainted' if how == 'tainted' else 'tainted_opaque'
            body += '  %s<%s, vsbx> a%d; { %s v = %s; std::memcpy(&a%d, &v, sizeof(v)); }\n' % (w, a, i, a, R._lit(v, a), i)
        elif how == 'ptr':
            body += '  tainted<int*, vsbx> a%d; { uintptr_t v = %dULL; std::memcpy(&a%d, &v, sizeof(v)); }\n' % (i, v, i)
        else:
            body += '  std::nullptr_t a%d = nullptr;\n' % i
        if how in ('plain', 'tainted', 'opaque'):
            lo, hi = (0, 2 ** 32 - 1) if g == 'uint32_t' else (-(2 ** 31), 2 ** 31 - 1)
            fits.append(lo <= v <= hi)
            body += '  pr("expect%d", (mathint)%s);\n' % (i, R._lit(v, 'long long' if v < 2 ** 63 else 'unsigned long long'))
        elif how == 'ptr':
            body += '  pr("expect%d", %dULL == 0 ? (mathint)0 : (mathint)%dULL - (mathint)vsbx::region_base[sb.slot]);\n' % (i, v, v)
        else:
            body += '  pr("expect%d", (mathint)0);\n' % i
    call = 'sb.INTERNAL_invoke_with_func_ptr<%s(%s)>("f", reinterpret_cast<void*>(&rec)%s)' % (rt, ', '.join(at), ''.join(', a%d' % i for i in range(n)))
    body += '  int aborted = 0;\n  try { %s; } catch (const std::runtime_error&) { aborted = 1; }\n' % call
    body += '  std::printf("aborted=%d\\ncalls=%d\\n", aborted, g_calls);\n'
    for i in range(n):
        body += '  pr("seen%d", (mathint)(%s)g_seen[%d]);\n' % (i, gt[i], i)
    body += '  return 0; }\n'
    all_fit = all(fits)

    def judge(d):
        if d.get('aborted') == '1':
            return all_fit and d.get('calls') == '0' and 'precondition' in obligation   # aborted although every argument is representable
        if d.get('calls') != '1':
            return True
        return any(d.get('seen%d' % i) != d.get('expect%d' % i) for i in range(n))
    return body, judge


R.register('invoke', replay_invoke)
