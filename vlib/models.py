"""Emitter options that model library types/callees outside the extracted AST (DESIGN.md 3.1, M-* rows)."""
import re
from . import cxxtypes as T
from .astload import ExtractError, qt, inner, norm_name


def model_type(em, name, nn):
    r = std_trait_type(em, name, nn)
    if r is not None:
        return r
    if nn in ('shared_timed_mutex', 'mutex', 'shared_mutex'):
        em.lowerings['M-lock(type)'] += 1
        return 'struct M_lock'
    if nn == 'vector<void*>' or nn.startswith('vector<void*,'):
        em.lowerings['M-vec(type)'] += 1
        return 'struct M_vec_voidp'
    if nn.startswith('map<basic_string<char>,void*') or nn.startswith('map<string,void*'):
        em.lowerings['M-map(type)'] += 1
        return 'struct M_map_str_voidp'
    m = re.match(r'^atomic<(.*)>$', nn)
    if m:
        inner_t = em._split_targs(name)[0]
        r = em.resolve(T.parse(inner_t))
        if r[0] != 'c' or r[1].startswith('struct'):
            raise ExtractError('atomic of non-scalar')
        em.lowerings['M-atomic(type)'] += 1
        return r[1]
    m = re.match(r'^array<.*>::(value_type)$', nn)
    if m:
        inner_t = em._split_targs(name[:name.rindex('::')])[0]
        return em.resolve(T.parse(inner_t))
    m = re.match(r'^map<(.*),void\*(,.*)?>$', nn)
    if m:
        key = em._split_targs(name)[0]
        kt = em.resolve(T.parse(key))
        if kt[0] != 'c' or kt[1].startswith('struct'):
            raise ExtractError('map with non-scalar key')
        cn = 'M_map_%s_voidp' % re.sub(r'[^A-Za-z0-9]', '_', kt[1])
        if cn not in em.struct_defs:
            body = em.opts.get('map_struct_body', '{ int _opaque; }')
            em.struct_defs[cn] = 'struct %s %s;' % (cn, body)
            em.rec_order.append(cn)
            em.used_records[cn] = ('model', name)
        em.lowerings['M-map(type)'] += 1
        return 'struct ' + cn
    return None


def std_trait_type(em, name, nn):
    """std type-transformation traits that clang leaves sugared below the top level of a type
    (e.g. pointee `remove_reference<const int>::type`).  Standard semantics on parsed type terms (M-traits)."""
    m = re.match(r'^(remove_reference|remove_volatile|remove_const|remove_cv|add_pointer|remove_pointer|add_volatile|'
                 r'add_const|add_cv|remove_extent|remove_all_extents|make_unsigned|make_signed|decay|'
                 r'add_lvalue_reference|add_rvalue_reference|conditional|enable_if|remove_cvref)<.*>::type$', nn)
    if not m:
        return None
    trait = m.group(1)
    args = em._split_targs(name[:name.rindex('::')])
    t = T.parse(args[0]) if trait not in ('conditional', 'enable_if') else None
    em.lowerings['M-traits(std::%s)' % trait] += 1

    def rmq(t, qs):
        if t[0] in ('n', 'p'):
            return (t[0], t[1], frozenset(t[2] - set(qs)))
        if t[0] == 'a':
            return ('a', rmq(t[1], qs), t[2])
        return t
    if trait == 'remove_reference':
        r = T.strip_ref(t)
    elif trait == 'remove_volatile':
        r = rmq(t, ['volatile'])
    elif trait == 'remove_const':
        r = rmq(t, ['const'])
    elif trait == 'remove_cv':
        r = rmq(t, ['const', 'volatile'])
    elif trait == 'remove_cvref':
        r = rmq(T.strip_ref(t), ['const', 'volatile'])
    elif trait == 'add_pointer':
        r = ('p', T.strip_ref(t), frozenset())
    elif trait == 'remove_pointer':
        r = t[1] if t[0] == 'p' else t
    elif trait == 'add_volatile':
        r = T.addq(t, {'volatile'}) if t[0] not in ('ref', 'f') else t
    elif trait == 'add_const':
        r = T.addq(t, {'const'}) if t[0] not in ('ref', 'f') else t
    elif trait == 'add_cv':
        r = T.addq(t, {'const', 'volatile'}) if t[0] not in ('ref', 'f') else t
    elif trait == 'remove_extent':
        r = t[1] if t[0] == 'a' else t
    elif trait == 'remove_all_extents':
        r = t
        while r[0] == 'a':
            r = r[1]
    elif trait in ('add_lvalue_reference', 'add_rvalue_reference'):
        r = t if t[0] == 'ref' else ('ref', t)
    elif trait == 'conditional':
        c = args[0].strip()
        if c not in ('true', 'false', '1', '0'):
            raise ExtractError('std::conditional with unevaluated condition %r' % c)
        r = T.parse(args[1] if c in ('true', '1') else args[2])
    elif trait == 'enable_if':
        r = T.parse(args[1]) if len(args) > 1 else T.parse('void')
    elif trait in ('make_unsigned', 'make_signed'):
        base = em.resolve(rmq(t, ['const', 'volatile']))
        if base[0] != 'c':
            raise ExtractError('make_(un)signed of non-integer')
        U = {'char': 'unsigned char', 'signed char': 'unsigned char', 'short': 'unsigned short', 'int': 'unsigned int',
             'long': 'unsigned long', 'long long': 'unsigned long long'}
        S_ = {v: k for k, v in U.items() if k != 'char'}
        S_['char'] = 'signed char'
        nm = base[1]
        if trait == 'make_unsigned':
            nm = U.get(nm, nm if nm.startswith('unsigned') else None)
        else:
            nm = S_.get(nm, nm if not nm.startswith('unsigned') else None)
        if nm is None:
            raise ExtractError('make_(un)signed of %s' % base[1])
        return ('c', nm, T.quals_of(t))
    elif trait == 'decay':
        r = rmq(T.strip_ref(t), ['const', 'volatile'])
        if r[0] == 'a':
            r = ('p', r[1], frozenset())
    return em.resolve(r)


def _is_std_array(em, e):
    try:
        t = T.strip_quals(T.strip_ref(T.parse(qt(e))))
    except T.TypeParseError:
        return False
    return t[0] == 'n' and re.match(r'^array<', norm_name(t[1])) is not None


def operator_call(em, n, rd, args):
    if rd.get('name') == 'operator()' and args:
        st = _param_stub(em, args[0])
        if st is not None:
            em.lowerings['M-callable(parameter %s -> contract stub)' % st] += 1
            return '%s(%s)' % (st, ', '.join(em.E(a) for a in args[1:]))
    if rd.get('name') == 'operator[]' and len(args) == 2 and _is_std_array(em, args[0]):
        em.lowerings['M-array(std::array::operator[] -> _M_elems[i])'] += 1
        return '((%s)._M_elems[%s])' % (em.E(args[0]), em.E(args[1]))
    return None


def _obj_norm(em, obj):
    try:
        t = T.strip_quals(T.strip_ref(T.parse(qt(obj))))
    except T.TypeParseError:
        return ''
    return norm_name(t[1]) if t[0] == 'n' else ''


def member_call(em, n, callee, obj, args, rd):
    nm = callee.get('name')
    on = _obj_norm(em, obj)
    o = em.E(obj) if not callee.get('isArrow') else '(*%s)' % em.E(obj)
    if on.startswith('atomic<'):
        # M-atomic: sequential reading of std::atomic (DESIGN.md 3.1); C14/C18 state the consequence
        em.lowerings['M-atomic(%s)' % nm] += 1
        if nm == 'load':
            return '(%s)' % o
        if nm == 'store' and len(args) >= 1:
            return '(%s = %s)' % (o, em.E(args[0]))
        if nm == 'compare_exchange_strong' and len(args) >= 2:
            e = em.E(args[0])
            return '((%s == %s) ? (%s = %s, (_Bool)1) : (%s = %s, (_Bool)0))' % (o, e, o, em.E(args[1]), e, o)
        raise ExtractError('unmodelled atomic member ' + str(nm))
    hook = em.opts.get('member_call_extra')
    if hook:
        return hook(em, n, callee, obj, args, rd, nm, on, o)
    return None


def local_var(em, d, t, init, ind, fn):
    """locals of library RAII lock types are dropped (M-lock: sequential semantics)"""
    try:
        tt = T.strip_quals(T.strip_ref(T.parse(t)))
    except T.TypeParseError:
        return None
    if tt[0] == 'n' and re.match(r'^(shared_lock|unique_lock|lock_guard|scoped_lock)<', norm_name(tt[1])):
        em.lowerings['M-lock(guard dropped)'] += 1
        return '  ' * ind + '/* %s %s: lock guard dropped (sequential semantics, M-lock) */\n' % (norm_name(tt[1]), d.get('name'))
    return None


def range_for(em, n, ind, fn):
    """range-based for over std::vector<void*> (M-vec): index loop over the sequence view"""
    ii = inner(n)
    decls = [c for c in ii if c.get('kind') == 'DeclStmt']
    if len(decls) < 4:
        raise ExtractError('range-for: unexpected shape')
    rng = inner(decls[0])[0]
    loopvar = inner(decls[-1])[0]
    body = ii[-1]
    rt = qt(rng)
    if not re.match(r'^vector<void\*', norm_name(T.type_str(T.strip_quals(T.strip_ref(T.parse(rt)))))):
        raise ExtractError('range-for over unmodelled range type %s' % rt)
    rinit = inner(rng)[-1]
    p = '  ' * ind
    rn = rng['name'].strip('_')
    iv = '__i_' + rn
    em.lowerings['M-vec(range-for -> index loop)'] += 1
    em.tu.decls[loopvar['id']] = loopvar
    s = p + '{\n'
    s += p + '  struct M_vec_voidp *__%s = &(%s);\n' % (rn, em.E(rinit))
    s += p + '  for (unsigned long %s = 0; %s < __%s->len; %s++)\n' % (iv, iv, rn, iv)
    s += em.loop_contract(fn)
    s += p + '  {\n'
    lvt = em.ctype_of(qt(loopvar))
    if em.is_ref_type(qt(loopvar)):
        s += p + '    %s = &(__%s->elem[%s]);\n' % (em.cdecl(lvt, loopvar['name']), rn, iv)
    else:
        s += p + '    %s = __%s->elem[%s];\n' % (em.cdecl(lvt, loopvar['name']), rn, iv)
    s += em.S(body, ind + 2, fn)
    s += p + '  }\n' + p + '}\n'
    return s


def _param_stub(em, e):
    """name of the contract stub standing for a callable parameter (e.g. the verifier), or None"""
    stubs = em.opts.get('param_fn_stubs') or {}
    c = e
    while c.get('kind') in ('ImplicitCastExpr', 'ParenExpr', 'UnaryOperator') and inner(c):
        if c.get('kind') == 'UnaryOperator' and c.get('opcode') != '*':
            break
        c = inner(c)[0]
    if c.get('kind') == 'DeclRefExpr' and c['referencedDecl'].get('kind') == 'ParmVarDecl':
        return stubs.get(c['referencedDecl'].get('name'))
    return None


def indirect_call(em, n, callee_e, args):
    st = _param_stub(em, callee_e)
    if st is None:
        return None
    em.lowerings['M-callable(parameter %s -> contract stub)' % st] += 1
    return '%s(%s)' % (st, ', '.join(em.E(a) for a in args))


OPTS = {
    'indirect_call': indirect_call,
    'local_var': local_var,
    'range_for': range_for,
    'model_type': model_type,
    'operator_call': operator_call,
    'member_call': member_call,
}
