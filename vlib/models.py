"""Emitter options that model library types/callees outside the extracted AST (DESIGN.md 3.1, M-* rows)."""
import re
from . import cxxtypes as T
from .astload import ExtractError, qt, inner, norm_name


def model_type(em, name, nn):
    r = std_trait_type(em, name, nn)
    if r is not None:
        return r
    m = re.match(r'^unique_ptr<(.*)>$', nn)
    if m:
        # M-mem: std::unique_ptr<T> / <T[]> as an owning raw pointer
        a0 = em._split_targs(name)[0]
        t0 = T.parse(a0)
        if t0[0] == 'a':
            t0 = t0[1]
        em.lowerings['M-mem(unique_ptr type -> owning pointer)'] += 1
        return ('p', em.resolve(t0), frozenset())
    if re.match(r'^(basic_string_view<char|string_view$)', nn):
        # a view is the (pointer, length) pair itself: same struct as the string model, nothing is copied
        em.lowerings['M-mem(std::string_view type)'] += 1
        if 'M_string' not in em.struct_defs:
            em.struct_defs['M_string'] = 'struct M_string { const char *src; unsigned long len; }; /* M-mem: std::string as (source pointer, length) of its constructing call */'
            em.rec_order.append('M_string')
            em.used_records['M_string'] = ('modelx', 'std::string')
        return 'struct M_string'
    if re.match(r'^(basic_string<char|string$)', nn):
        em.lowerings['M-mem(std::string type)'] += 1
        if 'M_string' not in em.struct_defs:
            em.struct_defs['M_string'] = 'struct M_string { const char *src; unsigned long len; }; /* M-mem: std::string as (source pointer, length) of its constructing call */'
            em.rec_order.append('M_string')
            em.used_records['M_string'] = ('modelx', 'std::string')
        return 'struct M_string'
    if re.match(r'^(integer_sequence|index_sequence|make_index_sequence)<', nn):
        # empty library tag types (only their type matters, clang already used it to expand the pack)
        if 'M_empty_tag' not in em.struct_defs:
            em.struct_defs['M_empty_tag'] = 'struct M_empty_tag { char _e; };'
            em.rec_order.append('M_empty_tag')
            em.used_records['M_empty_tag'] = ('modelx', 'std::integer_sequence<...>')
        em.lowerings['M-tag(std::integer_sequence)'] += 1
        return 'struct M_empty_tag'
    if re.match(r'^(chrono::)?(time_point<|duration<|nanoseconds$|[a-z_]*clock::time_point$|[a-z_]*clock::duration$)', nn):
        # M-chrono: time points and durations as opaque tick counts
        em.lowerings['M-chrono(type -> long)'] += 1
        return ('c', 'long', frozenset())
    if re.match(r'^vector<rlbox_transition_timing', nn):
        em.lowerings['M-vec(transition_times: opaque, push_back is a recording stub)'] += 1
        return 'struct M_vec_timing'
    if nn in ('shared_timed_mutex', 'mutex', 'shared_mutex'):
        em.lowerings['M-lock(type)'] += 1
        return 'struct M_lock'
    if nn == 'vector<void*>' or nn.startswith('vector<void*,'):
        em.lowerings['M-vec(type)'] += 1
        return 'struct M_vec_voidp'
    if (nn.startswith('map<basic_string<char>,void*') or nn.startswith('map<string,void*')) and not em.opts.get('map_str_keys'):
        em.lowerings['M-map(type)'] += 1
        return 'struct M_map_str_voidp'
    if re.match(r'^__normal_iterator<void\*(const)?\*,vector<void\*', nn) or re.match(r'^vector<void\*(,.*)?>::(const_)?iterator$', nn):
        em.lowerings['M-vec(iterator type)'] += 1
        return 'struct M_vecit_voidp'
    m = re.match(r'^atomic<(.*)>$', nn)
    if m:
        inner_t = em._split_targs(name)[0]
        r = em.resolve(T.parse(inner_t))
        if r[0] != 'c' or r[1].startswith('struct'):
            raise ExtractError('atomic of non-scalar')
        em.lowerings['M-atomic(type)'] += 1
        return r[1]
    m = re.match(r'^array<.*>::(value_type)$', nn)
    if m:
        inner_t = em._split_targs(name[:name.rindex('::')])[0]
        return em.resolve(T.parse(inner_t))
    m = re.match(r'^map<(.*),void\*(,.*)?>$', nn)
    if m:
        key = em._split_targs(name)[0]
        return 'struct ' + map_struct(em, key, name)
    m = re.match(r'^_Rb_tree_(?:const_)?iterator<pair<const(.*),void\*>>$', nn) or re.match(r'^map<(.*),void\*(?:,.*)?>::iterator$', nn)
    if m:
        key = em._split_targs(name)[0]
        key = re.sub(r'^std::pair<const ', '', key) if 'pair<' in key else key
        if 'pair<' in name:
            inner_pair = em._split_targs(name)[0]
            key = re.sub(r'^const\s+', '', em._split_targs(inner_pair)[0])
        cn = map_struct(em, key, None)
        return 'struct ' + cn.replace('M_map_', 'M_mapit_', 1)
    return None


def std_trait_type(em, name, nn):
    r = std_trait_cxx(em, name, nn)
    if r is None:
        return None
    if r[0] == 'c':
        return r
    return em.resolve(r)


def std_trait_cxx(em, name, nn):
    """std type-transformation traits that clang leaves sugared below the top level of a type
    (e.g. pointee `remove_reference<const int>::type`).  Standard semantics on parsed type terms (M-traits)."""
    m = re.match(r'^(remove_reference|remove_volatile|remove_const|remove_cv|add_pointer|remove_pointer|add_volatile|'
                 r'add_const|add_cv|remove_extent|remove_all_extents|make_unsigned|make_signed|decay|'
                 r'add_lvalue_reference|add_rvalue_reference|conditional|enable_if|remove_cvref)(_t)?<.*>(::type)?$', nn)
    if not m or (m.group(2) is None) == (m.group(3) is None):
        return None
    trait = m.group(1)
    args = em._split_targs(name[:name.rindex('::')] if m.group(3) else name)
    t = T.parse(args[0]) if trait not in ('conditional', 'enable_if') else None
    em.lowerings['M-traits(std::%s)' % trait] += 1

    def rmq(t, qs):
        if t[0] in ('n', 'p'):
            return (t[0], t[1], frozenset(t[2] - set(qs)))
        if t[0] == 'a':
            return ('a', rmq(t[1], qs), t[2])
        return t
    if trait == 'remove_reference':
        r = T.strip_ref(t)
    elif trait == 'remove_volatile':
        r = rmq(t, ['volatile'])
    elif trait == 'remove_const':
        r = rmq(t, ['const'])
    elif trait == 'remove_cv':
        r = rmq(t, ['const', 'volatile'])
    elif trait == 'remove_cvref':
        r = rmq(T.strip_ref(t), ['const', 'volatile'])
    elif trait == 'add_pointer':
        r = ('p', T.strip_ref(t), frozenset())
    elif trait == 'remove_pointer':
        r = t[1] if t[0] == 'p' else t
    elif trait == 'add_volatile':
        r = T.addq(t, {'volatile'}) if t[0] not in ('ref', 'f') else t
    elif trait == 'add_const':
        r = T.addq(t, {'const'}) if t[0] not in ('ref', 'f') else t
    elif trait == 'add_cv':
        r = T.addq(t, {'const', 'volatile'}) if t[0] not in ('ref', 'f') else t
    elif trait == 'remove_extent':
        r = t[1] if t[0] == 'a' else t
    elif trait == 'remove_all_extents':
        r = t
        while r[0] == 'a':
            r = r[1]
    elif trait in ('add_lvalue_reference', 'add_rvalue_reference'):
        r = t if t[0] == 'ref' else ('ref', t)
    elif trait == 'conditional':
        c = args[0].strip()
        mv = re.match(r'^(?:std::)?is_void_v<(.*)>$', c)
        if mv:
            c = 'true' if norm_name(mv.group(1)) == 'void' else 'false'
        if c not in ('true', 'false', '1', '0'):
            raise ExtractError('std::conditional with unevaluated condition %r' % c)
        r = T.parse(args[1] if c in ('true', '1') else args[2])
    elif trait == 'enable_if':
        r = T.parse(args[1]) if len(args) > 1 else T.parse('void')
    elif trait in ('make_unsigned', 'make_signed'):
        base = em.resolve(rmq(t, ['const', 'volatile']))
        if base[0] != 'c':
            raise ExtractError('make_(un)signed of non-integer')
        U = {'char': 'unsigned char', 'signed char': 'unsigned char', 'short': 'unsigned short', 'int': 'unsigned int',
             'long': 'unsigned long', 'long long': 'unsigned long long'}
        S_ = {v: k for k, v in U.items() if k != 'char'}
        S_['char'] = 'signed char'
        nm = base[1]
        if trait == 'make_unsigned':
            nm = U.get(nm, nm if nm.startswith('unsigned') else None)
        else:
            nm = S_.get(nm, nm if not nm.startswith('unsigned') else None)
        if nm is None:
            raise ExtractError('make_(un)signed of %s' % base[1])
        return ('n', nm, T.quals_of(t))
    elif trait == 'decay':
        r = rmq(T.strip_ref(t), ['const', 'volatile'])
        if r[0] == 'a':
            r = ('p', r[1], frozenset())
    return r


MAP_KEY_BITS = {'unsigned char': 8, 'unsigned short': 16, 'unsigned int': 32, 'unsigned long': 64}


def map_struct(em, key, name):
    """M-map: std::map<K, void*> as a total array view (present[k], val[k]) over the whole key space.
    8/16-bit keys: real arrays; wider keys: CBMC unbounded arrays (__CPROVER_constant_infinity_uint)."""
    kt = em.resolve(T.parse(key))
    if kt[0] == 'c' and kt[1] == 'struct M_string':
        # string keys: the key's content is abstracted to an 8-bit name id by the stub vstd_str_id (equal content <=> equal id
        # is the stub's contract); the map is then the array view over name ids
        if not em.opts.get('map_str_keys'):
            return 'M_map_str_voidp'
        cn = 'M_map_strk_voidp'
        if cn not in em.struct_defs:
            em.struct_defs[cn] = ('struct %s { _Bool present[256]; void *val[256]; }; /* M-map view of std::map<std::string, void*> over 8-bit name ids */\n'
                                  'struct M_mapit_strk_voidp { struct %s *m; long idx; }; /* iterator: idx == -1 is end() */' % (cn, cn))
            em.rec_order.append(cn)
            em.used_records[cn] = ('model', name or 'std::map<std::string, void *>')
        em.lowerings['M-map(type, string keys as name ids)'] += 1
        return cn
    if kt[0] != 'c' or kt[1] not in MAP_KEY_BITS:
        raise ExtractError('map with unmodelled key type %r' % (kt,))
    tag = re.sub(r'[^A-Za-z0-9]', '_', kt[1])
    cn = 'M_map_%s_voidp' % tag
    if cn not in em.struct_defs:
        bits = MAP_KEY_BITS[kt[1]]
        if bits > 16 and not em.opts.get('map_wide_keys'):
            # wide key spaces: opaque (only reachable through functions that are contract leaves of the unit)
            em.struct_defs[cn] = 'struct %s { int _opaque; }; /* M-map: std::map<%s, void*> opaque in this unit */' % (cn, kt[1])
            em.rec_order.append(cn)
            em.used_records[cn] = ('model', name or ('std::map<%s, void *>' % key))
            em.lowerings['M-map(type, opaque)'] += 1
            return cn
        dim = str(1 << bits) if bits <= 16 else '__CPROVER_constant_infinity_uint'
        em.struct_defs[cn] = ('struct %s { _Bool present[%s]; void *val[%s]; }; /* M-map view of std::map<%s, void*> */\n'
                              'struct M_mapit_%s_voidp { struct %s *m; long idx; }; /* iterator: idx == -1 is end() */'
                              % (cn, dim, dim, kt[1], tag, cn))
        em.rec_order.append(cn)
        em.used_records[cn] = ('model', name or ('std::map<%s, void *>' % key))
    em.lowerings['M-map(type)'] += 1
    return cn


def _kidx(mcn, k):
    return 'vstd_str_id(%s)' % k if mcn == 'M_map_strk_voidp' else k


def _is_map(em, e):
    try:
        t = T.strip_quals(T.strip_ref(T.parse(qt(e))))
    except T.TypeParseError:
        return None
    if t[0] == 'n' and re.match(r'^map<.*,void\*', norm_name(t[1])):
        return map_struct(em, em._split_targs(t[1])[0], t[1])
    return None


def _is_mapit(em, e):
    try:
        t = T.strip_quals(T.strip_ref(T.parse(qt(e))))
    except T.TypeParseError:
        return False
    return t[0] == 'n' and (norm_name(t[1]).startswith('_Rb_tree_iterator<pair<') or norm_name(t[1]).startswith('_Rb_tree_const_iterator<pair<') or re.match(r'^map<.*>::iterator$', norm_name(t[1])) is not None)


def _is_vec(em, e):
    try:
        t = T.strip_quals(T.strip_ref(T.parse(qt(e))))
    except T.TypeParseError:
        return False
    return t[0] == 'n' and re.match(r'^vector<void\*', norm_name(t[1])) is not None


def _is_vecit(em, e):
    try:
        t = T.strip_quals(T.strip_ref(T.parse(qt(e))))
    except T.TypeParseError:
        return False
    if t[0] != 'n':
        return False
    nn = norm_name(t[1])
    return nn.startswith('__normal_iterator<void*') or re.match(r'^vector<void\*(,.*)?>::(const_)?iterator$', nn) is not None


def _is_std_array(em, e):
    try:
        t = T.strip_quals(T.strip_ref(T.parse(qt(e))))
    except T.TypeParseError:
        return False
    return t[0] == 'n' and re.match(r'^array<', norm_name(t[1])) is not None


def operator_call(em, n, rd, args):
    if rd.get('name') == 'operator<<' and args and re.match(r'^basic_ostream<', _obj_norm(em, args[0])):
        # M-ostream: writing a diagnostic to a stream has no effect on the state the contracts speak about: the whole
        # insertion chain is dropped (its operands are plain reads)
        em.lowerings['M-ostream(stream insertion dropped)'] += 1
        return '((void)0)'
    if rd.get('name') == 'operator+=' and len(args) == 2 and re.match(r'^(basic_string<char|string$)', _obj_norm(em, args[0])) and em.opts.get('diag_strings'):
        # M-str (opt diag_strings): appending to a std::string that only feeds a diagnostic message: the content of the message is
        # not part of any contract; the right operand is evaluated, the string object stays as it is
        em.lowerings['M-str(diagnostic string: operator+= leaves the modelled string unchanged)'] += 1
        return '(*({ (void)(%s); &(%s); }))' % (em.E(args[1]), em.E(args[0]))
    if rd.get('name') == 'operator-' and len(args) == 2 and re.match(r'^(chrono::)?(time_point<|duration<)', _obj_norm(em, args[0])):
        em.lowerings['M-chrono(operator-)'] += 1
        return '((%s) - (%s))' % (em.E(args[0]), em.E(args[1]))
    if rd.get('name') == 'operator()' and args:
        st = _param_stub(em, args[0])
        if st is not None:
            em.lowerings['M-callable(parameter %s -> contract stub)' % st] += 1
            return '%s(%s)' % (st, ', '.join(em.E(a) for a in args[1:]))
    if args and norm_name(T.type_str(T.strip_quals(T.strip_ref(T.parse(qt(args[0])))))).startswith('unique_ptr<'):
        nm_ = rd.get('name')
        em.lowerings['M-mem(unique_ptr %s)' % nm_] += 1
        if nm_ == 'operator*' and len(args) == 1:
            return '(*%s)' % em.E(args[0])
        if nm_ == 'operator[]' and len(args) == 2:
            return '((%s)[%s])' % (em.E(args[0]), em.E(args[1]))
        if nm_ in ('operator==', 'operator!=') and len(args) == 2:
            return '((%s) %s (%s))' % (em.E(args[0]), nm_[8:], em.E(args[1]) if 'nullptr' not in (qt(args[1]) or '') else '0')
        if nm_ == 'operator=' and len(args) == 2:
            return '(%s = %s)' % (em.E(args[0]), em.E(args[1]))
        raise ExtractError('unmodelled unique_ptr operator ' + str(nm_))
    if rd.get('name') in ('operator==', 'operator!=') and len(args) == 2 and _is_vecit(em, args[0]) and _is_vecit(em, args[1]):
        em.lowerings['M-vec(iterator compare)'] += 1
        return '((%s).idx %s (%s).idx)' % (em.E(args[0]), rd['name'][8:], em.E(args[1]))
    if rd.get('name') in ('operator+', 'operator-') and len(args) == 2 and _is_vecit(em, args[0]) and not _is_vecit(em, args[1]):
        # random-access step: begin() + n designates position n of the same sequence
        em.lowerings['M-vec(iterator %s n)' % rd['name'][8:]] += 1
        a_ = em.E(args[0])
        return '({ __typeof__(%s) __it = (%s); __it.idx = __it.idx %s (%s); __it; })' % (a_, a_, rd['name'][8:], em.E(args[1]))
    if rd.get('name') == 'operator-' and len(args) == 2 and _is_vecit(em, args[0]) and _is_vecit(em, args[1]):
        em.lowerings['M-vec(iterator difference)'] += 1
        return '((long)((%s).idx) - (long)((%s).idx))' % (em.E(args[0]), em.E(args[1]))
    if rd.get('name') == 'operator*' and len(args) == 1 and _is_vecit(em, args[0]):
        em.lowerings['M-vec(iterator deref)'] += 1
        a_ = em.E(args[0])
        return '(*({ __typeof__(%s) __it = (%s); &__it.v->elem[__it.idx]; }))' % (a_, a_)
    if rd.get('name') == 'operator++' and len(args) >= 1 and _is_vecit(em, args[0]):
        em.lowerings['M-vec(iterator ++)'] += 1
        return '((%s).idx++)' % em.E(args[0])
    if rd.get('name') == 'operator[]' and len(args) == 2 and _is_vec(em, args[0]):
        em.lowerings['M-vec(operator[])'] += 1
        return '((%s).elem[%s])' % (em.E(args[0]), em.E(args[1]))
    if rd.get('name') == 'operator[]' and len(args) == 2 and _is_map(em, args[0]):
        m_, k_ = em.E(args[0]), _kidx(_is_map(em, args[0]), em.E(args[1]))
        em.lowerings['M-map(operator[])'] += 1
        # object and key are evaluated exactly once (as in C++)
        return ('(*({ __typeof__(&(%s)) __m = &(%s); __typeof__(%s) __k = (%s); if (!__m->present[__k]) { __m->val[__k] = (void *)0; __m->present[__k] = 1; } &__m->val[__k]; }))'
                % (m_, m_, k_, k_))
    if rd.get('name') in ('operator==', 'operator!=') and len(args) == 2 and _is_mapit(em, args[0]) and _is_mapit(em, args[1]):
        em.lowerings['M-map(iterator compare)'] += 1
        return '((%s).idx %s (%s).idx)' % (em.E(args[0]), rd['name'][8:], em.E(args[1]))
    if rd.get('name') == 'operator->' and len(args) == 1 and _is_mapit(em, args[0]):
        em.lowerings['M-map(iterator ->)'] += 1
        return 'MAPIT_ARROW(%s)' % em.E(args[0])
    if rd.get('name') == 'operator[]' and len(args) == 2 and _is_std_array(em, args[0]):
        em.lowerings['M-array(std::array::operator[] -> _M_elems[i])'] += 1
        return '((%s)._M_elems[%s])' % (em.E(args[0]), em.E(args[1]))
    return None


def _obj_norm(em, obj):
    try:
        t = T.strip_quals(T.strip_ref(T.parse(qt(obj))))
    except T.TypeParseError:
        return ''
    return norm_name(t[1]) if t[0] == 'n' else ''


def member_call(em, n, callee, obj, args, rd):
    nm = callee.get('name')
    on = _obj_norm(em, obj)
    o = em.E(obj) if not callee.get('isArrow') else '(*%s)' % em.E(obj)
    if re.match(r'^(const)?(basic_string<char|string$)', on) and nm == 'c_str' and not args:
        em.lowerings['M-mem(std::string::c_str: the pointer of the model)'] += 1
        return '((%s).src)' % o
    if re.match(r'^(chrono::)?duration<', on) and nm == 'count' and not args:
        em.lowerings['M-chrono(duration::count)'] += 1
        return '(%s)' % o
    if on.startswith('vector<rlbox_transition_timing') and nm == 'push_back' and len(args) == 1:
        em.lowerings['M-vec(transition_times.push_back -> recording stub)'] += 1
        rt = em.cdecl(em.ctype_of(T.type_str(T.strip_quals(T.strip_ref(T.parse(qt(args[0])))))))
        return '({ %s __rec = %s; vstd_timing_push((void *)&(%s), (int)__rec.invoke, __rec.name, __rec.ptr, (long)__rec.time); })' % (rt, em.E(args[0]), o)
    if on.startswith('atomic<'):
        # M-atomic: sequential reading of std::atomic (DESIGN.md 3.1); C14/C18 state the consequence
        em.lowerings['M-atomic(%s)' % nm] += 1
        if nm == 'load':
            return '(%s)' % o
        if nm == 'store' and len(args) >= 1:
            return '(%s = %s)' % (o, em.E(args[0]))
        if nm == 'compare_exchange_strong' and len(args) >= 2:
            e = em.E(args[0])
            return ('({ __typeof__(&(%s)) __a = &(%s); __typeof__(&(%s)) __x = &(%s); __typeof__(%s) __d = (%s); _Bool __r; if (*__a == *__x) { *__a = __d; __r = 1; } else { *__x = *__a; __r = 0; } __r; })'
                    % (o, o, e, e, o, em.E(args[1])))
        raise ExtractError('unmodelled atomic member ' + str(nm))
    if on.startswith('unique_ptr<'):
        em.lowerings['M-mem(unique_ptr.%s)' % nm] += 1
        if nm == 'get' and not args:
            return '(%s)' % o
        if nm == 'release' and not args:
            return '(%s)' % o
        if nm == 'operator bool' and not args:
            return '((_Bool)((%s) != 0))' % o
        raise ExtractError('unmodelled unique_ptr member ' + str(nm))
    if _is_vec(em, obj):
        em.lowerings['M-vec(%s)' % nm] += 1
        if nm == 'begin' and not args:
            return '((struct M_vecit_voidp){ &(%s), 0UL })' % o
        if nm == 'end' and not args:
            return '((struct M_vecit_voidp){ &(%s), (%s).len })' % (o, o)
        if nm == 'push_back' and len(args) == 1:
            return '({ __typeof__(&(%s)) __v = &(%s); void *__e = (void *)(%s); __v->elem[__v->len] = __e; __v->len = __v->len + 1UL; (void)0; })' % (o, o, em.E(args[0]))
        if nm == 'pop_back' and not args:
            return '((%s).len = (%s).len - 1UL, (void)0)' % (o, o)
        if nm == 'back' and not args:
            return '((%s).elem[(%s).len - 1UL])' % (o, o)
        if nm == 'front' and not args:
            return '((%s).elem[0])' % o
        if nm == 'size' and not args:
            return '((%s).len)' % o
        if nm == 'empty' and not args:
            return '((_Bool)((%s).len == 0UL))' % o
        if nm == 'clear' and not args:
            return '((%s).len = 0UL, (void)0)' % o
        if nm == 'erase' and len(args) == 1:
            a_ = em.E(args[0])
            em.extern_funcs['vec_erase_range'] = True
            return 'vec_erase_range(&(%s), (%s).idx, (%s).idx + 1UL)' % (o, a_, a_)
        if nm == 'erase' and len(args) == 2:
            em.extern_funcs['vec_erase_range'] = True
            return 'vec_erase_range(&(%s), (%s).idx, (%s).idx)' % (o, em.E(args[0]), em.E(args[1]))
        raise ExtractError('unmodelled std::vector member ' + str(nm))
    mcn = _is_map(em, obj)
    if mcn == 'M_map_str_voidp' and nm == 'clear' and not args:
        # the opaque view of std::map<std::string, void*> (units that do not reason about the symbol caches)
        em.lowerings['M-map(clear on the opaque string map)'] += 1
        em.extern_funcs['vstd_opaque_map_clear'] = True
        return 'vstd_opaque_map_clear(&(%s))' % o
    if mcn and 'opaque' in (em.struct_defs.get(mcn) or ''):
        raise ExtractError('operation %s on an opaque (wide-key) map model' % nm)
    if mcn:
        it = mcn.replace('M_map_', 'M_mapit_', 1)
        em.lowerings['M-map(%s)' % nm] += 1
        if nm == 'find' and len(args) == 1:
            k_ = _kidx(mcn, em.E(args[0]))
            return '({ __typeof__(&(%s)) __m = &(%s); __typeof__(%s) __k = (%s); (struct %s){ __m, __m->present[__k] ? (long)__k : -1L }; })' % (o, o, k_, k_, it)
        if nm == 'end' and not args:
            return '((struct %s){ &(%s), -1L })' % (it, o)
        if nm == 'erase' and len(args) == 1:
            a_ = em.E(args[0])
            return '((%s).m->present[(%s).idx] = 0)' % (a_, a_)
        if nm == 'empty' and not args and mcn == 'M_map_strk_voidp':
            # abstract: an arbitrary boolean that is consistent with the unit's witness key (stub declared by the unit:
            # "empty" implies the witness key is absent)
            em.lowerings['M-map(empty -> witness-consistent stub)'] += 1
            return 'vstd_strmap_empty(&(%s))' % o
        if nm == 'clear' and not args:
            # an empty map: no key present (val[] of absent keys is never read); a struct assignment stays inside the map object
            return '((%s) = (struct %s){ { 0 }, { 0 } })' % (o, mcn)
        raise ExtractError('unmodelled std::map member ' + str(nm))
    hook = em.opts.get('member_call_extra')
    if hook:
        return hook(em, n, callee, obj, args, rd, nm, on, o)
    return None


def local_var(em, d, t, init, ind, fn):
    """locals of library RAII lock types are dropped (M-lock: sequential semantics)"""
    try:
        tt = T.strip_quals(T.strip_ref(T.parse(t)))
    except T.TypeParseError:
        return None
    if tt[0] == 'n' and re.match(r'^(shared_lock|unique_lock|lock_guard|scoped_lock)<', norm_name(tt[1])):
        em.lowerings['M-lock(guard dropped)'] += 1
        return '  ' * ind + '/* %s %s: lock guard dropped (sequential semantics, M-lock) */\n' % (norm_name(tt[1]), d.get('name'))
    return None


def range_for(em, n, ind, fn):
    """range-based for over std::vector<void*> (M-vec): index loop over the sequence view"""
    ii = inner(n)
    decls = [c for c in ii if c.get('kind') == 'DeclStmt']
    if len(decls) < 4:
        raise ExtractError('range-for: unexpected shape')
    rng = inner(decls[0])[0]
    loopvar = inner(decls[-1])[0]
    body = ii[-1]
    rt = qt(rng)
    if not re.match(r'^vector<void\*', norm_name(T.type_str(T.strip_quals(T.strip_ref(T.parse(rt)))))):
        raise ExtractError('range-for over unmodelled range type %s' % rt)
    rinit = inner(rng)[-1]
    p = '  ' * ind
    rn = rng['name'].strip('_')
    iv = '__i_' + rn
    em.lowerings['M-vec(range-for -> index loop)'] += 1
    em.tu.decls[loopvar['id']] = loopvar
    s = p + '{\n'
    s += p + '  struct M_vec_voidp *__%s = &(%s);\n' % (rn, em.E(rinit))
    s += p + '  for (unsigned long %s = 0; %s < __%s->len; %s++)\n' % (iv, iv, rn, iv)
    s += em.loop_contract(fn, iv, '__' + rn)
    s += p + '  {\n'
    lvt = em.ctype_of(qt(loopvar))
    if em.is_ref_type(qt(loopvar)):
        s += p + '    %s = &(__%s->elem[%s]);\n' % (em.cdecl(lvt, loopvar['name']), rn, iv)
    else:
        s += p + '    %s = __%s->elem[%s];\n' % (em.cdecl(lvt, loopvar['name']), rn, iv)
    s += em.S(body, ind + 2, fn)
    s += p + '  }\n' + p + '}\n'
    return s


def _param_stub(em, e):
    """name of the contract stub standing for a callable parameter (e.g. the verifier), or None"""
    stubs = em.opts.get('param_fn_stubs') or {}
    c = e
    while c.get('kind') in ('ImplicitCastExpr', 'ParenExpr', 'UnaryOperator') and inner(c):
        if c.get('kind') == 'UnaryOperator' and c.get('opcode') != '*':
            break
        c = inner(c)[0]
    if c.get('kind') == 'DeclRefExpr' and c['referencedDecl'].get('kind') == 'ParmVarDecl':
        # '*': every call through a callable *parameter* (names of parameters are not part of the interface)
        return stubs.get(c['referencedDecl'].get('name')) or stubs.get('*')
    return None


def indirect_call(em, n, callee_e, args):
    st = _param_stub(em, callee_e)
    if st is None:
        # calls through a *local* function-pointer variable named in opts['indirect_stubs'] go to a recording stub
        # that receives the target pointer as its first argument
        stubs = em.opts.get('indirect_stubs') or {}
        c = callee_e
        while c.get('kind') in ('ImplicitCastExpr', 'ParenExpr', 'UnaryOperator') and inner(c):
            if c.get('kind') == 'UnaryOperator' and c.get('opcode') != '*':
                break
            c = inner(c)[0]
        if c.get('kind') == 'DeclRefExpr' and (c['referencedDecl'].get('name') in stubs or ('*' in stubs and c['referencedDecl'].get('kind') == 'VarDecl')):
            # '*': every call through a *local* function-pointer variable (local names are not part of the interface)
            stub = stubs.get(c['referencedDecl']['name']) or stubs['*']
            ft = T.parse(qt(callee_e))
            while ft[0] in ('p', 'ref'):
                ft = ft[1]
            out = []
            for a, pt in zip(args, ft[2]):
                out.append(em.addr(em.E(a)) if pt[0] == 'ref' else em.E(a))
            em.lowerings['M-callable(indirect call through %s -> recording stub)' % c['referencedDecl']['name']] += 1
            return '%s(%s)' % (stub, ', '.join(['(void *)(%s)' % em.E(c)] + out))
        return None
    em.lowerings['M-callable(parameter %s -> contract stub)' % st] += 1
    return '%s(%s)' % (st, ', '.join(em.E(a) for a in args))


def member_expr(em, n, base, d):
    """it->second on a map iterator; .first/.second of a std::pair (modelled struct)"""
    if n.get('name') in ('second', 'first') and d is None:
        try:
            bt = T.strip_quals(T.strip_ref(T.parse(qt(base))))
        except T.TypeParseError:
            bt = None
        if bt is not None and bt[0] == 'n' and norm_name(bt[1]).startswith('pair<'):
            em.lowerings['M-pair(member)'] += 1
            return '((%s)%s%s)' % (em.E(base), '->' if n.get('isArrow') else '.', n['name'])
    if n.get('name') in ('second', 'first') and base.get('kind') == 'CXXOperatorCallExpr':
        ii = inner(base)
        if len(ii) == 2 and _is_mapit(em, ii[1]):
            a_ = em.E(ii[1])
            em.lowerings['M-map(iterator->%s)' % n['name']] += 1
            if n['name'] == 'second':
                return '((%s).m->val[(%s).idx])' % (a_, a_)
            return '((%s).idx)' % a_
    return None


def construct(em, n, ii, rec):
    """iterator -> const_iterator conversions of modelled containers are the identity"""
    if rec is None and re.match(r'^(integer_sequence|index_sequence|make_index_sequence)<', norm_name(qt(n) or '')):
        em.resolve(T.parse(qt(n)))
        return '((struct M_empty_tag){ 0 })'
    tn = norm_name(qt(n) or '')
    if rec is None and re.match(r'^(const)?array<', tn) and not [a for a in ii if a.get('kind') != 'CXXDefaultArgExpr'] and not n.get('zeroing'):
        # default-initialised std::array of trivially constructible elements: the elements are indeterminate -> an arbitrary value
        t = em.ctype_of(qt(n))
        em.lowerings['M-array(default-initialised std::array: arbitrary element values)'] += 1
        return '({ %s; __uninit; })' % em.cdecl(em._strip_top_quals(t), '__uninit')
    if rec is None and re.match(r'^(const)?chrono::(time_point|duration)<', tn) and len(ii) == 1:
        em.lowerings['M-chrono(copy of a time point / duration: the tick count)'] += 1
        return em.E(ii[0])
    if rec is None and re.match(r'^(const)?array<', tn) and len(ii) == 1:
        try:
            same = norm_name(T.type_str(T.strip_quals(T.strip_ref(T.parse(qt(ii[0])))))) == norm_name(T.type_str(T.strip_quals(T.parse(qt(n)))))
        except T.TypeParseError:
            same = False
        if same:
            em.lowerings['M-array(std::array copy/move -> struct copy)'] += 1
            return em.E(ii[0])
    if rec is None and tn.startswith('unique_ptr<'):
        em.lowerings['M-mem(unique_ptr construction)'] += 1
        t = em.ctype_of(qt(n))
        if not ii:
            return '((%s)0)' % em.cdecl(t)
        a0 = ii[0]
        an = norm_name(qt(a0) or '')
        if len(ii) == 1 and (an.startswith('unique_ptr<') or 'nullptr_t' in an or an == 'decltype(nullptr)'):
            if an.startswith('unique_ptr<'):
                # move construction: ownership goes to the new object and the source is left null (a later use of the source
                # is then a null dereference for cbmc, as it is for the real code)
                src = em.E(a0)
                if a0.get('valueCategory') in ('xvalue', 'lvalue') and re.match(r'^[\w\->.()*&\s\[\]]+$', src):
                    em.lowerings['M-mem(unique_ptr move: source nulled)'] += 1
                    return '({ %s = (%s)(%s); %s = 0; __moved; })' % (em.cdecl(t, '__moved'), em.cdecl(t), src, src)
                return '((%s)(%s))' % (em.cdecl(t), src)
            return '((%s)0)' % em.cdecl(t)
        raise ExtractError('unmodelled unique_ptr constructor')
    if rec is None and re.match(r'^(const)?(basic_string_view<char|string_view$)', tn.replace('const', '', 1) if tn.startswith('const') else tn):
        em.resolve(T.parse('std::string_view'))
        args_ = [a for a in ii if a.get('kind') != 'CXXDefaultArgExpr']
        em.lowerings['M-mem(std::string_view construction: the pointer and the length, no copy)'] += 1
        if len(args_) == 1 and 'string_view' in norm_name(qt(args_[0]) or ''):
            return em.E(args_[0])
        if len(args_) == 2:
            return '((struct M_string){ %s, %s })' % (em.E(args_[0]), em.E(args_[1]))
        if not args_:
            return '((struct M_string){ (const char *)0, 0UL })'
        raise ExtractError('unmodelled std::string_view constructor')
    if rec is None and re.match(r'^(const)?(basic_string<char|string$)', tn.replace('const', '', 1) if tn.startswith('const') else tn):
        em.resolve(T.parse('std::string'))
        args_ = [a for a in ii if a.get('kind') != 'CXXDefaultArgExpr']
        an = norm_name(qt(args_[0]) or '') if args_ else ''
        em.lowerings['M-mem(std::string construction)'] += 1
        if len(args_) == 1 and re.match(r'^(const)?(basic_string<char|string)', an):
            return em.E(args_[0])                                    # copy / move
        if len(args_) == 2:
            em.extern_funcs['vstd_string_from'] = True
            return 'vstd_string_from(%s, %s)' % (em.E(args_[0]), em.E(args_[1]))
        if len(args_) == 1:
            em.extern_funcs['vstd_string_cstr'] = True
            return 'vstd_string_cstr(%s)' % em.E(args_[0])
        raise ExtractError('unmodelled std::string constructor')
    if rec is None and len(ii) == 1 and norm_name(qt(n) or '').startswith('pair<'):
        try:
            same = norm_name(T.type_str(T.strip_quals(T.strip_ref(T.parse(qt(ii[0])))))) == norm_name(T.type_str(T.strip_quals(T.parse(qt(n)))))
        except T.TypeParseError:
            same = False
        if same:
            em.lowerings['M-pair(copy/move -> struct copy)'] += 1
            return em.E(ii[0])
    if rec is None and len(ii) == 1 and _is_mapit(em, n) and _is_mapit(em, ii[0]):
        return em.E(ii[0])
    if rec is None and len(ii) == 1 and _is_vecit(em, n) and _is_vecit(em, ii[0]):
        return em.E(ii[0])
    hook = em.opts.get('construct_extra')
    if hook:
        return hook(em, n, ii, rec)
    return None


def field_default_init(em, lhs, ftype):
    """default construction of modelled container members: the empty container"""
    try:
        t = T.strip_quals(T.parse(ftype))
    except T.TypeParseError:
        return None
    if t[0] != 'n':
        return None
    nn = norm_name(t[1])
    if re.match(r'^map<.*,void\*', nn):
        em.lowerings['M-map(default construction = empty)'] += 1
        return '__CPROVER_array_set(%s.present, (_Bool)0);' % lhs
    if nn == 'vector<void*>' or nn.startswith('vector<void*,'):
        em.lowerings['M-vec(default construction = empty)'] += 1
        return '%s.len = 0;' % lhs
    return None


OPTS = {
    'field_default_init': field_default_init,
    'construct': construct,
    'member_expr': member_expr,
    'indirect_call': indirect_call,
    'local_var': local_var,
    'range_for': range_for,
    'model_type': model_type,
    'operator_call': operator_call,
    'member_call': member_call,
}
