"""A verification unit: a set of instances (C++ usage snippets + contracts) that share one driver TU.

Pipeline per unit (DESIGN.md 3): driver.cpp -> clang JSON AST -> per instance: AST->C emission of the root
function clang bound the snippet to and of its callees -> splice contracts -> facts (g++) -> goto-cc/dfcc/cbmc.
"""
import os
import re
import json
import subprocess
import time
import hashlib
import concurrent.futures as cf

from .astload import TU, ExtractError, inner, body_of, dump_ast, FUNC_KINDS
from .emit import Emitter, san
from .stdmodels import MODELS
from . import models
from . import cbmc

VERIF = os.path.dirname(os.path.dirname(os.path.abspath(__file__)))
REPO_INC = os.path.join(os.environ.get('VERIF_REPO') or '/repo', 'code/include')   # VERIF_REPO: development runs against a scratch worktree
BUILD = os.environ.get('VERIF_BUILD') or os.path.join(VERIF, 'build')   # VERIF_BUILD: development runs beside a registered run


class Inst:
    def __init__(self, name, params, expr, contract, harness, leaves=(), prop=None, root_name=None,
                 tier='quick', pre='', loop_contracts=None, nondet_volatile=False, solvers=('minisat',),
                 timeout=120, unwind=None, extra_cbmc=(), also_enforce=(), note='', kind='proof',
                 replay=None, expect_compile_error=False, opts=None, defines=(), root_pick=None,
                 canary=True, object_bits=None, globals_init=None, extra_replace=(), pre_defines='', ret='void', may_not_compile=False, facts=None, post_protos='', extra_fns=None):
        self.name = name
        self.params = params          # C++ parameter list of the snippet
        self.expr = expr              # C++ statement(s) using the operation under contract
        self.contract = contract      # C contract clauses for the root (placeholders $this $0.. $ret)
        self.harness = harness        # C text: body of the harness (calls $ROOT)
        self.leaves = list(leaves)    # leaf keys (see LEAVES) replaced by their contracts
        self.prop = prop
        self.root_name = root_name    # expected name of the root function (sanity check), optional
        self.tier = tier
        self.pre = pre                # extra C text before the harness (spec helper macros)
        self.loop_contracts = loop_contracts or {}   # (role, ordinal) -> loop contract text
        self.nondet_volatile = nondet_volatile
        self.solvers = solvers
        self.timeout = timeout
        self.unwind = unwind
        self.extra_cbmc = extra_cbmc
        self.also_enforce = also_enforce
        self.extra_fns = extra_fns      # {key: picker(tu) -> function}: emitted besides the root, named $FN(key) in the harness
        self.note = note
        self.kind = kind              # 'proof' | 'bounded'
        self.replay = replay          # dict describing native replay, optional
        self.opts = opts or {}
        self.defines = defines
        self.root_pick = root_pick    # optional callable(tu, inst_fn) -> root function node
        self.canary = canary
        self.object_bits = object_bits
        self.globals_init = globals_init
        self.post_protos = post_protos            # C text emitted after the prototypes (may name extracted functions, $FTABLE)
        self.facts = facts or {}                  # macro -> (C++ constant expression, C type): computed by g++ (B-facts)
        self.may_not_compile = may_not_compile   # the property quantifies over programs that compile; a rejected snippet is then no instance
        self.ret = ret                            # return type of the snippet function (lemma clients return a value)
        self.pre_defines = pre_defines            # C text emitted before the spec headers are included
        self.extra_replace = list(extra_replace)   # contract stubs declared in `pre` (libc models), replaced at call sites


# ---------------------------------------------------------------------------------------------------------
# contract leaves: functions replaced by their contract at call sites.  key -> (predicate, contract text)
def _is(name, rec_suffix=None):
    def p(fn, rec):
        if fn.get('name') != name:
            return False
        if rec_suffix is None:
            return True
        return rec is not None and re.sub(r'<.*$', '', rec).endswith(rec_suffix)
    return p


LEAVES = {
    # 4.2: abort.  no-abort direction is the precondition, abort-or-holds direction the postcondition
    'dynamic_check': (_is('dynamic_check'),
                      '__CPROVER_requires(g_noabort ==> $0)\n__CPROVER_ensures($0)\n__CPROVER_assigns()'),
    # 4.1: A_backend for vsbx (bodies verified against these in unit "backend")
    'vsbx.impl_is_in_same_sandbox': (_is('impl_is_in_same_sandbox', 'vsbx'),
        '__CPROVER_ensures($ret == (V_WHICH((uintptr_t)$0) == V_WHICH((uintptr_t)$1)))\n__CPROVER_assigns()'),
    'vsbx.impl_is_pointer_in_sandbox_memory': (_is('impl_is_pointer_in_sandbox_memory', 'vsbx'),
        '__CPROVER_requires(__CPROVER_r_ok($this, sizeof(*$this)))\n'
        '__CPROVER_ensures($ret == V_IN($this->slot, (uintptr_t)$0))\n__CPROVER_assigns()'),
    'vsbx.impl_get_total_memory': (_is('impl_get_total_memory', 'vsbx'),
        '__CPROVER_requires(__CPROVER_r_ok($this, sizeof(*$this)))\n'
        '__CPROVER_ensures($ret == V_SIZE[$this->slot])\n__CPROVER_assigns()'),
    'vsbx.impl_get_unsandboxed_pointer': (_is('impl_get_unsandboxed_pointer', 'vsbx'),
        '__CPROVER_requires(__CPROVER_r_ok($this, sizeof(*$this)))\n'
        '__CPROVER_requires(g_backend_nonnull ==> $0 != 0)\n'
        '__CPROVER_ensures(V_IN($this->slot, (uintptr_t)$ret))\n'
        '__CPROVER_ensures((uintptr_t)$0 < V_SIZE[$this->slot] ==> (uintptr_t)$ret == V_BASE[$this->slot] + (uintptr_t)$0)\n'
        '__CPROVER_assigns()'),
    'vsbx.impl_get_sandboxed_pointer': (_is('impl_get_sandboxed_pointer', 'vsbx'),
        '__CPROVER_requires(__CPROVER_r_ok($this, sizeof(*$this)))\n'
        '__CPROVER_requires(g_backend_nonnull ==> $0 != 0)\n'
        '__CPROVER_ensures(V_IN($this->slot, (uintptr_t)$0) ==> (uintptr_t)$ret == (uintptr_t)$0 - V_BASE[$this->slot])\n'
        '__CPROVER_assigns()'),
    # no-context forms: the sandbox is the one whose region contains the example address
    'vsbx.impl_get_unsandboxed_pointer_no_ctx': (_is('impl_get_unsandboxed_pointer_no_ctx', 'vsbx'),
        '__CPROVER_requires(g_backend_nonnull ==> $0 != 0)\n'
        '__CPROVER_requires(V_WHICH((uintptr_t)$1) != -1)\n'
        '__CPROVER_requires(g_expect_example == 0 || (uintptr_t)$1 == g_expect_example)\n'
        '__CPROVER_ensures(V_IN(V_WHICH((uintptr_t)$1), (uintptr_t)$ret))\n'
        '__CPROVER_ensures((uintptr_t)$0 < V_SIZE[V_WHICH((uintptr_t)$1)] ==> (uintptr_t)$ret == V_BASE[V_WHICH((uintptr_t)$1)] + (uintptr_t)$0)\n'
        '__CPROVER_assigns()'),
    'vsbx.impl_get_sandboxed_pointer_no_ctx': (_is('impl_get_sandboxed_pointer_no_ctx', 'vsbx'),
        '__CPROVER_requires(g_backend_nonnull ==> $0 != 0)\n'
        '__CPROVER_requires(V_WHICH((uintptr_t)$1) != -1)\n'
        '__CPROVER_requires(g_expect_example == 0 || (uintptr_t)$1 == g_expect_example)\n'
        '__CPROVER_ensures(V_IN(V_WHICH((uintptr_t)$1), (uintptr_t)$0) ==> (uintptr_t)$ret == (uintptr_t)$0 - V_BASE[V_WHICH((uintptr_t)$1)])\n'
        '__CPROVER_assigns()'),
    # allocation: arbitrary guest pointer (a hostile or buggy allocator); nothing visible changes
    'vsbx.impl_malloc_in_sandbox': (_is('impl_malloc_in_sandbox', 'vsbx'),
        '__CPROVER_requires(__CPROVER_r_ok($this, sizeof(*$this)))\n__CPROVER_requires(g_expect_malloc_size == 0 || MI($0) == MI(g_expect_malloc_size))\n__CPROVER_assigns()'),
    # the process-wide finder is only ever handed to the backend (never called by the core directly)
    'find_sandbox_from_example': (_is('find_sandbox_from_example'),
        # result: some live sandbox of this backend type or null - nothing more is promised here (C04 proves the finder)
        '__CPROVER_requires(1)\n__CPROVER_ensures(1)\n__CPROVER_assigns()'),
}


def add_leaf(key, pred, text):
    LEAVES[key] = (pred, text)


def clauses_text(contract):
    """contract: str, or list of (tag, clause) -> one clause per line, each ending in /*@tag*/ so that a failed
    obligation (reported with its line number) can be mapped back to the named clause"""
    if isinstance(contract, str):
        return contract
    out = []
    for tag, cl in contract:
        one = ' '.join(x.strip() for x in cl.strip().splitlines())
        out.append('%s /*@%s*/' % (one, tag))
    return '\n'.join(out)


def clause_tags(contract, kw):
    """tags of the requires/ensures clauses of a tagged contract, in order (CBMC numbers
    <fn>.precondition.k / <fn>.postcondition.k by clause order)"""
    if isinstance(contract, str):
        return []
    return [tag for tag, cl in contract if cl.strip().startswith('__CPROVER_' + kw)]


def subst(text, names, ret='__CPROVER_return_value', root=None):
    """$this $0..$n $ret $ROOT placeholders"""
    def rep(m):
        k = m.group(1)
        if k == 'this':
            if 'this_' not in names:
                raise ExtractError('contract mentions $this but function is not a method')
            return 'this_'
        if k == 'ret':
            return ret
        if k == 'ROOT':
            return root or '$ROOT'
        i = int(k)
        ps = [n for n in names if n != 'this_']
        if i >= len(ps):
            raise ExtractError('contract mentions $%d but function has %d parameters' % (i, len(ps)))
        return ps[i]
    return re.sub(r'\$(this|ret|ROOT|\d+)', rep, text)


def fields_except(em, text):
    """$FIELDS_EXCEPT(obj; struct S; a, b, ...) -> obj->f for every member f of the emitted struct S that is not listed:
    a frame that names the state a property protects instead of enumerating what the pinned code happens to write, so that a
    new member of the record written by the function does not fail the frame clause"""
    def rep(m):
        obj, sn, excl = m.group(1).strip(), m.group(2).strip(), [x.strip() for x in m.group(3).split(',') if x.strip()]
        d = em.struct_defs.get(sn)
        if not d or '{' not in d:
            raise ExtractError('$FIELDS_EXCEPT: struct %s not emitted' % sn)
        body = d[d.index('{') + 1:d.rindex('}')]
        names = []
        for decl in body.split(';'):
            decl = decl.strip()
            if not decl:
                continue
            mm = re.search(r'\(\*\s*(\w+)\)', decl) or re.search(r'(\w+)\s*(\[[^\]]*\]\s*)*$', decl)
            if not mm:
                raise ExtractError('$FIELDS_EXCEPT: cannot read member declaration %r' % decl)
            names.append(mm.group(1))
        for x in excl:
            if x not in names:
                raise ExtractError('$FIELDS_EXCEPT: protected member %s is not a member of %s (renamed?)' % (x, sn))
        return ', '.join('%s->%s' % (obj, n) for n in names if n not in excl)
    return re.sub(r'\$FIELDS_EXCEPT\(([^;()]*);\s*struct\s+(\w+)\s*;([^()]*)\)', rep, text)


def find_root(tu, inst_fn):
    """the declaration referenced by the last call/operator/construct node in the snippet body"""
    found = []

    def walk(n):
        k = n.get('kind')
        if k in ('CallExpr', 'CXXMemberCallExpr', 'CXXOperatorCallExpr'):
            c = inner(n)[0]
            while c['kind'] in ('ImplicitCastExpr', 'ParenExpr'):
                c = inner(c)[0]
            if c['kind'] == 'DeclRefExpr' and c['referencedDecl']['kind'] in FUNC_KINDS:
                found.append(c['referencedDecl']['id'])
            elif c['kind'] == 'MemberExpr' and 'referencedMemberDecl' in c:
                found.append(c['referencedMemberDecl'])
            return  # outermost call only
        for c in inner(n):
            walk(c)
    walk(body_of(inst_fn))
    if not found:
        raise ExtractError('snippet %s contains no call' % inst_fn.get('name'))
    fn = tu.func(found[-1])
    if fn is None:
        raise ExtractError('root of snippet %s has no instantiated body' % inst_fn.get('name'))
    return fn


def find_func(tu, name, rec_prefix=None, pick=None):
    """instantiated function(s) by C++ name and (prefix of) the enclosing record's display name"""
    out = []
    for fid, fn in tu.funcs.items():
        if fn.get('name') != name:
            continue
        rec = tu.parent_rec.get(fid)
        rn = tu.rec_name.get(rec['id'], '') if rec else ''
        if rec_prefix is not None and not (rn.startswith(rec_prefix) and not re.match(r'[A-Za-z0-9_]', rn[len(rec_prefix):len(rec_prefix) + 1] or ' ')):
            continue    # prefix up to a name boundary: 'rlbox::vsbx' is not a prefix of 'rlbox::vsbx_f3'
        if pick is not None and not pick(fn, rn):
            continue
        out.append(fn)
    ids = {f['id'] for f in out}
    if len(ids) != 1:
        raise ExtractError('find_func(%s, %s): %d candidates' % (name, rec_prefix, len(ids)))
    return out[0]


def member_callees(tu, fn):
    """member functions of fn's own record that fn's body calls directly, in order of first call (by declaration id: the
    names of private helpers are not part of the interface)"""
    rec = tu.parent_rec.get(fn['id'])
    out, seen = [], set()

    def walk(n):
        if isinstance(n, dict):
            if n.get('kind') == 'MemberExpr' and n.get('referencedMemberDecl'):
                f = tu.func(n['referencedMemberDecl']) if hasattr(tu, 'func') else tu.funcs.get(n['referencedMemberDecl'])
                if f is not None and rec is not None and (tu.parent_rec.get(f['id']) or {}).get('id') == rec['id'] and f['id'] not in seen and f['id'] != fn['id']:
                    seen.add(f['id'])
                    out.append(f)
            for c in n.get('inner') or []:
                walk(c)
    walk(fn)
    return out


class UnitResult:
    pass


class Unit:
    def __init__(self, name, insts, includes=('rlbox.hpp', 'vsbx.hpp'), defines=('RLBOX_SINGLE_THREADED_INVOCATIONS',),
                 extra_cpp='', pre_cpp=''):
        self.pre_cpp = pre_cpp        # C++ text before the rlbox headers are included (e.g. hook declarations)
        self.name = name
        self.insts = insts
        self.includes = includes
        self.defines = defines
        self.extra_cpp = extra_cpp
        self.dir = os.path.join(BUILD, name)
        self.tu = None
        self.emitted = {}     # inst name -> dict
        self.errors = {}      # inst name -> message (undecided)

    # ---------------------------------------------------------------- extraction
    def driver_text(self):
        s = ''
        for d in self.defines:
            s += '#define %s\n' % d.replace('=', ' ', 1)
        s += self.pre_cpp + '\n'
        for i in self.includes:
            s += '#include "%s"\n' % i
        s += self.extra_cpp + '\n'
        s += 'namespace rlbox { namespace vinst {\n'
        for it in self.insts:
            s += '%s %s(%s) { %s }\n' % (it.ret, it.name, it.params, it.expr)
        s += '}}\n'
        return s

    def extract(self):
        os.makedirs(self.dir, exist_ok=True)
        drv = os.path.join(self.dir, 'driver.cpp')
        js = os.path.join(self.dir, 'ast.json')
        incs = [REPO_INC, os.path.join(VERIF, 'backend'), os.path.join(VERIF, 'include')]
        self.not_compiling = {}
        self._may_not_compile = {it.name for it in self.insts if it.may_not_compile}
        for attempt in range(4):
            text = self.driver_text()
            open(drv, 'w').write(text)
            try:
                dump_ast(drv, js, incs)
                break
            except ExtractError as e:
                # snippets that the real compiler rejects are not instances ("every combination that compiles");
                # each snippet sits on its own driver line, so the diagnostics name them
                lines = text.splitlines()
                bad = set()
                for m in re.finditer(r'driver\.cpp:(\d+):\d+: (?:error|note: in instantiation|note: while)', str(e)):
                    ln = int(m.group(1))
                    mm = re.match(r'^\S.*? (\w+)\(', lines[ln - 1]) if 0 < ln <= len(lines) else None
                    for it in self.insts:
                        if mm and it.name == mm.group(1):
                            bad.add(it.name)
                if not bad or attempt == 3:
                    raise
                first_err = re.search(r'error: (.*)', str(e))
                for nm in bad:
                    self.not_compiling[nm] = first_err.group(1)[:200] if first_err else 'rejected by clang'
                self.insts = [it for it in self.insts if it.name not in bad]
        self.tu = TU(js)
        os.remove(js)
        inst_fns = self.tu.inst_functions()
        self.not_instances = {}
        for nm, why in self.not_compiling.items():
            if nm in self._may_not_compile:
                self.not_instances[nm] = why
            else:
                self.errors[nm] = 'snippet does not compile: ' + why
        facts = {}
        for it in self.insts:
            try:
                if it.name not in inst_fns:
                    raise ExtractError('snippet function %s not found in AST' % it.name)
                self.emit_inst(it, inst_fns[it.name], facts)
            except ExtractError as e:
                self.errors[it.name] = 'extraction: %s' % e
            except Exception as e:   # emitter bug: fail closed for this instance only
                import traceback
                self.errors[it.name] = 'extraction (emitter exception %r): %s' % (e, ' | '.join(traceback.format_exc().strip().splitlines()[-6:]))
        self.write_facts(facts)
        self.tu.text = None
        return self

    def emit_inst(self, it, inst_fn, facts):
        tu = self.tu
        self._loops_applied = 0
        self._root_id = None
        root = it.root_pick(tu, inst_fn) if it.root_pick else find_root(tu, inst_fn)
        self._root_id = root['id']
        if it.root_name and root.get('name') != it.root_name:
            raise ExtractError('snippet %s binds to %s, expected %s' % (it.name, root.get('name'), it.root_name))
        active = [((k,) + LEAVES[k]) if isinstance(k, str) else tuple(k) for k in it.leaves]
        leaf_text = {k: t for (k, _, t) in active}

        def leaf_pred(fn, rec):
            if fn['id'] == root['id']:
                return None
            for k, pred, _ in active:
                if pred(fn, rec):
                    return k
            return None
        opts = dict(models.OPTS)
        opts['per_site_leaves'] = ('dynamic_check',)
        opts.update(it.opts)
        em = Emitter(tu, leaf_pred=leaf_pred, std_models=MODELS, opts=opts)
        # further functions of the real code that the harness itself calls (set-up through the public API): $FN(key)
        extra = [(k, pick(tu)) for k, pick in (it.extra_fns or {}).items()]
        order = em.emit_all([root] + [f for _, f in extra])
        rootc = em.fname(root)
        out = []
        out.append('/* generated by /verif from the instantiated clang AST of /repo/code/include; instance %s */' % it.name)
        out.append('/* root: %s  [%s] */' % (root.get('name'), root.get('mangledName')))
        if it.pre_defines:
            out.append(it.pre_defines)
        out.append('#include "prelude.h"')
        out.append('#include "facts.h"')
        gl = {}
        for g in em.globals_used:
            if g.endswith('region_baseE'):
                gl['V_BASE'] = g
            if g.endswith('region_sizeE'):
                gl['V_SIZE'] = g
        out.append('#define V_BASE %s' % gl.get('V_BASE', 'v_region_base_unused'))
        out.append('#define V_SIZE %s' % gl.get('V_SIZE', 'v_region_size_unused'))
        out.append('#include "backend_spec.h"')
        for cn in em.rec_order:
            out.append(em.struct_defs[cn])
        # layout assertions against g++ (B)
        for cn, (kind, disp) in em.used_records.items():
            if kind in ('rec', 'model') and em.struct_defs.get(cn) and ' M_' not in em.struct_defs[cn] and '?' not in disp and 'lambda' not in disp and 'struct M_' not in em.struct_defs[cn]:
                key = 'SZ_' + cn
                facts.setdefault(key, ('sizeof(%s)' % disp, 'unsigned long'))
                out.append('_Static_assert(sizeof(struct %s) == %s, "layout of %s differs from g++");' % (cn, key, cn))
        for k, v in em.facts.items():
            facts.setdefault(k, v)
        for k, v in it.facts.items():
            facts.setdefault(k, v)
        if 'V_BASE' not in gl:
            out.append('unsigned long v_region_base_unused[2]; unsigned long v_region_size_unused[2];')
        for g, (decl, d) in em.globals_used.items():
            out.append(decl + ';')
        model_calls = [c for c in em.extern_funcs if c in ('vec_find', 'vec_erase_range')]
        # prototypes
        protos = []
        leaf_names = []
        sites = {}
        leaf_req = {}
        for fid, (fn, key) in em.leaves.items():
            leaf_req[em.fname(fn)] = clause_tags(leaf_text[key], 'requires')
            sig = em.signature(fn)
            text = clauses_text(leaf_text[key])
            names = em.sig_info[fn['id']]['params']
            aliases = [a for a, v in em.site_alias.items() if v[0] == fid]
            if aliases:
                base = em.fname(fn)
                for a in aliases:
                    protos.append('%s\n%s;' % (sig.replace(base + '(', a + '(', 1), subst(text, names)))
                    leaf_names.append(a)
                    sites[a] = {'caller': em.site_alias[a][2], 'call': em.site_alias[a][3]}
            else:
                protos.append('%s\n%s;' % (sig, subst(text, names)))
                if fid in em.leaf_called:      # goto-instrument rejects --replace-call-with-contract for a function never called
                    leaf_names.append(em.fname(fn))
        for fid in order:
            if fid != root['id']:
                protos.append(em.sig_text[fid] + ';')
        names = em.sig_info[root['id']]['params']
        if it.pre:
            out.append(subst(it.pre, names, root=rootc))
        out.append('\n'.join(protos))
        if it.post_protos:
            out.append(subst(it.post_protos, names, root=rootc))
        contract = subst(fields_except(em, clauses_text(it.contract)), names)
        out.append('%s\n%s\n%s' % (em.sig_text[root['id']], contract, self.loops(em, it, root, em.fn_text[root['id']])))
        for fid in order:
            if fid != root['id']:
                out.append('%s\n%s' % (em.sig_text[fid], self.loops(em, it, tu.funcs[fid], em.fn_text[fid])))
        h = subst(it.harness, names, root=rootc)
        out.append('#ifndef VERIF_NATIVE\nvoid harness(void)\n{\n%s\n#ifdef CANARY\n  __CPROVER_assert(0, "canary: harness end reachable");\n#endif\n}\n#endif' % h)
        text = '\n'.join(out) + '\n'

        def gsub(m):
            cands = [g for g in em.globals_used if m.group(1) in g]
            if len(cands) != 1:
                raise ExtractError('$G(%s): %d matching globals' % (m.group(1), len(cands)))
            return cands[0]
        text = re.sub(r'\$G\(([A-Za-z0-9_]+)\)', gsub, text)
        for k, f in extra:
            text = text.replace('$FN(%s)' % k, em.fname(f))

        def ftable(m):
            # $FTABLE(name): C names of the instantiations of function template <name> reachable from the root,
            # ordered by their first (integral) template argument - e.g. the 64 callback_trampoline<N,...>
            rows = []
            for fid in list(em.needed) + [f for f in em.leaves]:
                fn = tu.funcs.get(fid)
                if fn is None or fn.get('name') != m.group(1):
                    continue
                ta = [c for c in inner(fn) if c.get('kind') == 'TemplateArgument']
                if not ta or 'value' not in ta[0]:
                    raise ExtractError('$FTABLE(%s): instantiation without integral first template argument' % m.group(1))
                rows.append((int(ta[0]['value']), em.fname(fn)))
            rows.sort()
            if [r[0] for r in rows] != list(range(len(rows))) or not rows:
                raise ExtractError('$FTABLE(%s): instantiations are not 0..n-1' % m.group(1))
            return ', '.join('(void *)%s' % r[1] for r in rows)
        text = re.sub(r'\$FTABLE\(([A-Za-z0-9_]+)\)', ftable, text)
        # libc byte operations the unit gives no contract stub for: cbmc's own byte-level implementations (object view), so that
        # code which merely starts using memcpy/memset/memcmp is verified through them instead of tripping over an undefined callee
        defaults = {'vstd_memcpy': 'void *memcpy(void *, const void *, unsigned long);\nvoid *vstd_memcpy(void *d, const void *s, unsigned long n) { return memcpy(d, s, n); }\n',
                    'vstd_memset': 'void *memset(void *, int, unsigned long);\nvoid *vstd_memset(void *d, int c, unsigned long n) { return memset(d, c, n); }\n',
                    'vstd_memcmp': 'int memcmp(const void *, const void *, unsigned long);\nint vstd_memcmp(const void *a, const void *b, unsigned long n) { return memcmp(a, b, n); }\n'}
        for fn_, body_ in defaults.items():
            if re.search(r'\b%s\(' % fn_, text) and not re.search(r'^[A-Za-z_][A-Za-z0-9_ \*]*\b%s\(' % fn_, text, re.M):
                text = text.replace('#include "backend_spec.h"', '#include "backend_spec.h"\n' + body_, 1)
                em.lowerings['M-mem(%s -> cbmc byte operation, object view)' % fn_] += 1
        cfile = os.path.join(self.dir, it.name + '.c')
        open(cfile, 'w').write(text)
        # contract stubs that the extracted code does not call cannot be named to --replace-call-with-contract
        extra_used = [n for n in it.extra_replace if len(re.findall(r'\b%s\(' % re.escape(n), text)) >= 2]
        # clause tags of hand-declared contract stubs: /*@tag*/ at the end of a requires line
        for n in it.extra_replace:
            m = re.search(r'^[^\n]*\b%s\([^\n]*\)\n((?:__CPROVER_[^\n]*\n)+)' % re.escape(n), it.pre + '\n' + it.post_protos, re.M)
            if m:
                tags = []
                for ln in m.group(1).splitlines():
                    if ln.startswith('__CPROVER_requires'):
                        tm = re.search(r'/\*@([A-Za-z0-9_]+)\*/', ln)
                        tags.append(tm.group(1) if tm else 'requires_%d' % (len(tags) + 1))
                leaf_req[n] = tags
        self.emitted[it.name] = {
            'cfile': cfile, 'root': rootc, 'root_cxx': root.get('name'), 'mangled': root.get('mangledName'),
            'leaves': leaf_names, 'leaf_keys': [k for _, (f, k) in em.leaves.items()],
            'inlined': [tu.funcs[fid].get('name') for fid in order if fid != root['id']],
            'lowerings': dict(em.lowerings), 'has_loops': bool(getattr(em, 'loop_ordinal', {})),
            'n_functions': len(order), 'sites': sites, 'model_calls': model_calls,
            'ensures_tags': clause_tags(it.contract, 'ensures'), 'leaf_requires_tags': leaf_req,
            'extra_replace': extra_used, 'loops_applied': self._loops_applied,
        }

    def loops(self, em, it, fn, text):
        """splice loop contracts by (function C++ name, ordinal); a loop without contract stays as is"""
        def rep(m):
            cname, o = m.group(1), int(m.group(2))
            key = (fn.get('name'), o)
            lc = it.loop_contracts.get(key)
            if lc is None and fn.get('id') == getattr(self, '_root_id', None):
                lc = it.loop_contracts.get(('*root*', o))      # keyed to "the root function", whatever it is called
            if lc:
                if '$LV' in lc and not m.group(3):
                    raise ExtractError('loop contract uses $LV but the loop declares no induction variable')
                if '$LR' in lc and not m.group(4):
                    raise ExtractError('loop contract uses $LR but the loop does not walk a modelled range')
                lc = subst(lc.replace('$LV', m.group(3)).replace('$LR', m.group(4) or ''), em.sig_info[fn['id']]['params'])
                self._loops_applied += 1
            return (lc + '\n') if lc else ''
        return re.sub(r'/\*LOOP:([A-Za-z0-9_]+):(\d+):([A-Za-z0-9_]*):?([A-Za-z0-9_]*)\*/\n', rep, text)

    def write_facts(self, facts):
        """B: values computed by g++ on the real headers (sizeof of records, constexpr variable templates)"""
        # facts whose key starts with AC_ are about ACCESS (is a constructor reachable from application code?): they are computed by
        # a second program compiled with access control on; everything else is compiled with -fno-access-control (private members
        # and enumerators are read for layout and state facts)
        ac = {k: v for k, v in facts.items() if k.startswith('AC_')}
        facts = {k: v for k, v in facts.items() if not k.startswith('AC_')}
        ac_text = ''
        if ac:
            src2 = os.path.join(self.dir, 'facts_ac.cpp')
            s2 = ''
            for d in self.defines:
                s2 += '#define %s\n' % d.replace('=', ' ', 1)
            s2 += self.pre_cpp + '\n'
            for i in self.includes:
                s2 += '#include "%s"\n' % i
            s2 += self.extra_cpp + '\n#include <cstdio>\n#include <type_traits>\nusing namespace rlbox; using namespace rlbox::detail;\nint main(){\n'
            for k, (expr, cty) in ac.items():
                s2 += '  std::printf("#define %s ((%s)%%lluULL)\\n", (unsigned long long)(%s));\n' % (k, cty, expr)
            s2 += '  return 0;\n}\n'
            open(src2, 'w').write(s2)
            exe2 = os.path.join(self.dir, 'facts_ac')
            p2 = subprocess.run(['g++', '-std=c++17', '-w', '-I' + REPO_INC, '-I' + os.path.join(VERIF, 'backend'), '-I' + os.path.join(VERIF, 'include'), src2, '-o', exe2, '-lpthread'],
                                stdout=subprocess.PIPE, stderr=subprocess.STDOUT, text=True)
            if p2.returncode != 0:
                raise ExtractError('access-facts program failed to compile:\n' + p2.stdout[-3000:])
            ac_text = subprocess.run([exe2], stdout=subprocess.PIPE, text=True).stdout
            os.remove(exe2)
        self._ac_text = ac_text
        src = os.path.join(self.dir, 'facts.cpp')
        s = ''
        for d in self.defines:
            s += '#define %s\n' % d.replace('=', ' ', 1)
        s += self.pre_cpp + '\n'
        for i in self.includes:
            s += '#include "%s"\n' % i
        s += self.extra_cpp + '\n#include <cstdio>\n#include <array>\n#include <utility>\n#include <type_traits>\nusing namespace rlbox; using namespace rlbox::detail;\nint main(){\n'
        for k, (expr, cty) in facts.items():
            s += '  std::printf("#define %s ((%s)%%lluULL)\\n", (unsigned long long)(%s));\n' % (k, cty, expr)
        s += '  return 0;\n}\n'
        open(src, 'w').write(s)
        exe = os.path.join(self.dir, 'facts')
        p = subprocess.run(['g++', '-std=c++17', '-fno-access-control', '-w', '-I' + REPO_INC, '-I' + os.path.join(VERIF, 'backend'),
                            '-I' + os.path.join(VERIF, 'include'), src, '-o', exe, '-lpthread'],
                           stdout=subprocess.PIPE, stderr=subprocess.STDOUT, text=True)
        if p.returncode != 0:
            raise ExtractError('facts program failed to compile:\n' + p.stdout[-3000:])
        o = subprocess.run([exe], stdout=subprocess.PIPE, text=True)
        open(os.path.join(self.dir, 'facts.h'), 'w').write('/* computed by g++ from /repo headers */\n' + o.stdout + self._ac_text)
        os.remove(exe)

    # ---------------------------------------------------------------- verification
    def verify_inst(self, it):
        info = self.emitted[it.name]
        res = cbmc.verify(info['cfile'], self.dir, 'harness', [info['root']] + list(it.also_enforce), replace=info['leaves'] + list(info['extra_replace']) + list(info.get('model_calls', [])),
                          loop_contracts=bool(info['loops_applied']), nondet_volatile=it.nondet_volatile,
                          includes=[os.path.join(VERIF, 'include'), self.dir], solvers=it.solvers, timeout=it.timeout,
                          unwind=it.unwind, extra_cbmc=it.extra_cbmc, object_bits=it.object_bits)
        if res.status in ('ok', 'failed') and info['loops_applied']:
            # a silently dropped loop contract shows up as missing loop_invariant_step obligations
            if not any('loop_invariant_step' in n for n in res.obligations):
                res.status = 'undecided'
                res.reason = 'loop contract supplied but no loop_invariant_step obligation was generated'
        if res.status == 'failed' and any(k.startswith('L-static(') for k in info['lowerings']):
            bad = [n for n, (st, d, l) in res.obligations.items() if st == 'FAILURE']
            res.status = 'undecided'
            res.reason = ('obligation(s) %s fail for an arbitrary entry value of a function-local static (L-static); whether the values '
                          'earlier calls can leave there exclude the failing one is not decided' % ', '.join(bad[:4]))
        canary_ok = None
        if it.canary and res.status == 'ok':
            # vacuity guard: the planted false assertion at the end of the harness must FAIL (and only it)
            cdir = os.path.join(self.dir, 'canary_' + it.name)
            os.makedirs(cdir, exist_ok=True)
            r2 = cbmc.verify(info['cfile'], cdir, 'harness', [info['root']] + list(it.also_enforce),
                             replace=info['leaves'] + list(info['extra_replace']) + list(info.get('model_calls', [])), loop_contracts=bool(info['loops_applied']), nondet_volatile=it.nondet_volatile,
                             includes=[os.path.join(VERIF, 'include'), self.dir], defines=['CANARY'], solvers=it.solvers,
                             timeout=it.timeout, unwind=it.unwind, extra_cbmc=list(it.extra_cbmc) + ['--stop-on-fail'], trace=False,
                             object_bits=it.object_bits, stop_on_fail=True)
            # --stop-on-fail: the first (and, since the main run discharged everything else, only) failing property
            # must be the planted assertion
            canary_ok = r2.status == 'failed' and 'canary: harness end reachable' in r2.log and r2.log.count('Violated property') == 1
            failed = [r2.reason[:200]]
            if not canary_ok:
                res.status = 'undecided'
                res.reason = ('vacuity guard: planted false assertion did not fail alone (harness end unreachable or '
                              'preconditions contradictory): %s %s' % (r2.status, failed[:3]))
        return res, canary_ok

    def run(self, jobs=8, only=None):
        results = {}
        todo = [it for it in self.insts if it.name in self.emitted and (only is None or it.name in only)]
        with cf.ThreadPoolExecutor(max_workers=jobs) as ex:
            futs = {ex.submit(self.verify_inst, it): it for it in todo}
            for f in cf.as_completed(futs):
                it = futs[f]
                try:
                    results[it.name] = f.result()
                except Exception as e:  # tool crash -> undecided
                    r = cbmc.CbmcResult()
                    r.reason = 'runner exception: %r' % e
                    results[it.name] = (r, None)
        return results
