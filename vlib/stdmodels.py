"""Models of library callees that are outside the extracted (rlbox-filtered) AST.
Each model is name -> f(emitter, referencedDecl, call_node, arg_nodes, obj_expr_or_None) -> C text or None.
Everything here is part of the trusted base and is listed in evidence under the M-* labels of DESIGN.md 3.1."""
from . import cxxtypes as T
from .astload import ExtractError, qt

INT_LIMITS = {
    '_Bool': (0, 1), 'char': (-128, 127), 'signed char': (-128, 127), 'unsigned char': (0, 255),
    'short': (-32768, 32767), 'unsigned short': (0, 65535), 'int': (-2**31, 2**31 - 1), 'unsigned int': (0, 2**32 - 1),
    'long': (-2**63, 2**63 - 1), 'unsigned long': (0, 2**64 - 1), 'long long': (-2**63, 2**63 - 1),
    'unsigned long long': (0, 2**64 - 1),
}


def _limits(which):
    def f(em, rd, call, args, obj):
        if args or obj is not None:
            return None
        # std::numeric_limits<T>::min()/max(): T is the call's result type
        t = em.ctype_of(qt(call))
        if t[0] != 'c' or t[1] not in INT_LIMITS:
            raise ExtractError('numeric_limits::%s for non-integer type %r' % (which, t))
        lo, hi = INT_LIMITS[t[1]]
        em.lowerings['M-limits(std::numeric_limits<%s>::%s)' % (t[1], which)] += 1
        return em.int_lit(lo if which == 'min' else hi, t)
    return f


def _libc(cname):
    def f(em, rd, call, args, obj):
        if obj is not None:
            return None
        em.lowerings['M-mem(%s)' % cname] += 1
        em.extern_funcs.setdefault(cname, True)
        return '%s(%s)' % (cname, ', '.join(em.E(a) for a in args))
    return f


def _find(em, rd, call, args, obj):
    # std::find(first, last, value) over std::vector<void*> iterators (M-vec)
    from . import models
    if obj is None and len(args) == 3 and models._is_vecit(em, args[0]) and models._is_vecit(em, args[1]):
        em.lowerings['M-vec(std::find)'] += 1
        em.extern_funcs['vec_find'] = True
        return 'vec_find(%s, %s, %s)' % (em.E(args[0]), em.E(args[1]), em.E(args[2]))
    return None


def _strip(e, kinds=('ImplicitCastExpr', 'ParenExpr', 'MaterializeTemporaryExpr', 'ExprWithCleanups', 'CXXBindTemporaryExpr', 'CXXFunctionalCastExpr')):
    from .astload import inner
    while e.get('kind') in kinds and inner(e):
        e = inner(e)[-1]
    if e.get('kind') == 'CXXConstructExpr' and len(inner(e)) == 1:      # copy/move of the closure object
        return _strip(inner(e)[0], kinds)
    return e


def _lambda_parts(em, e):
    """(LambdaExpr node, call operator decl, parameter decl) of a predicate argument written as a one-parameter lambda"""
    from .astload import inner
    lam = _strip(e)
    if lam.get('kind') != 'LambdaExpr':
        return None
    rec = inner(lam)[0]
    op = None
    for m in inner(rec):
        if m.get('kind') == 'CXXMethodDecl' and m.get('name') == 'operator()':
            op = m
    if op is None:
        return None
    ps = [c for c in inner(op) if c.get('kind') == 'ParmVarDecl']
    if len(ps) != 1:
        return None
    return lam, op, ps[0]


def _equality_key(em, lam, op, parm):
    """if the predicate is `[key](T el) { return el == key; }` (either order), the AST node of `key`, else None"""
    from .astload import inner
    body = [c for c in inner(op) if c.get('kind') == 'CompoundStmt']
    if not body or len(inner(body[0])) != 1 or inner(body[0])[0].get('kind') != 'ReturnStmt':
        return None
    e = _strip(inner(inner(body[0])[0])[0])
    if e.get('kind') != 'BinaryOperator' or e.get('opcode') != '==':
        return None
    a, b = [_strip(x) for x in inner(e)]

    def is_parm(x):
        return x.get('kind') == 'DeclRefExpr' and x['referencedDecl'].get('id') == parm['id']

    def is_capture(x):
        return x.get('kind') == 'DeclRefExpr' and x['referencedDecl'].get('kind') in ('VarDecl', 'ParmVarDecl') and not is_parm(x)
    if is_parm(a) and is_capture(b):
        return b
    if is_parm(b) and is_capture(a):
        return a
    return None


def _alg(which):
    def f(em, rd, call, args, obj):
        # std::find_if / any_of / none_of / all_of over std::vector<void*> iterators (M-vec) with a one-parameter lambda
        from . import models
        from .astload import inner
        if obj is not None or len(args) != 3 or not (models._is_vecit(em, args[0]) and models._is_vecit(em, args[1])):
            return None
        lp = _lambda_parts(em, args[2])
        if lp is None:
            raise ExtractError('std::%s with a predicate that is not a one-parameter lambda' % which)
        lam, op, parm = lp
        key = _equality_key(em, lam, op, parm)
        if key is not None and which in ('find_if', 'any_of', 'none_of'):
            # searching for an element equal to a captured value IS std::find: the contract model of M-vec applies
            em.lowerings['M-vec(std::%s with an equality predicate -> std::find)' % which] += 1
            em.extern_funcs['vec_find'] = True
            b, e_ = em.E(args[0]), em.E(args[1])
            if which == 'find_if':
                return 'vec_find(%s, %s, %s)' % (b, e_, em.E(key))
            return '({ struct M_vecit_voidp __e = %s; (vec_find(%s, __e, %s).idx %s __e.idx); })' % (e_, b, em.E(key), '!=' if which == 'any_of' else '==')
        # general predicate: an index loop in the caller, hoisted in front of the statement; its loop contract is the instance's
        fn, ind = em.hoist(call)
        em.algn = getattr(em, 'algn', 0) + 1
        k = em.algn
        p = '  ' * ind
        clos = em.E(args[2])
        ctype = clos[clos.index('(struct ') + 1:clos.index(')')]
        opname = em.need(em.tu.funcs.get(op['id'], op))
        stop = '' if which in ('find_if', 'any_of') else '!'
        if which == 'none_of':
            stop = ''
        s = p + 'struct M_vecit_voidp __alg%d_b = %s; struct M_vecit_voidp __alg%d_e = %s; %s __alg%d_p = %s;\n' % (k, em.E(args[0]), k, em.E(args[1]), ctype, k, clos)
        s += p + 'struct M_vec_voidp *__alg%d_r = __alg%d_b.v; unsigned long __alg%d_i = __alg%d_b.idx;\n' % (k, k, k, k)
        s += p + 'for (; __alg%d_i < __alg%d_e.idx; __alg%d_i++)\n' % (k, k, k)
        s += em.loop_contract(fn, '__alg%d_i' % k, '__alg%d_r' % k)
        s += p + '{\n' + p + '  if (%s%s(&__alg%d_p, __alg%d_r->elem[__alg%d_i])) { break; }\n' % (stop, opname, k, k, k) + p + '}\n'
        em.pre_stmts.append(s)
        em.lowerings['M-vec(std::%s -> index loop in the caller)' % which] += 1
        if which == 'find_if':
            return '((struct M_vecit_voidp){ __alg%d_r, __alg%d_i })' % (k, k)
        found = '(__alg%d_i < __alg%d_e.idx)' % (k, k)
        return found if which == 'any_of' else '(!%s)' % found
    return f


def _c_str(em, rd, call, args, obj):
    # std::string::c_str() on the (pointer, length) model: the pointer
    from .astload import inner
    from .models import norm_name
    if obj is None or args:
        return None
    me = inner(call)[0] if inner(call) else {}
    oe = inner(me)[0] if inner(me) else {}
    try:
        tn = norm_name(T.type_str(T.strip_quals(T.strip_ref(T.parse(qt(oe))))))
    except T.TypeParseError:
        return None
    import re as _re
    if not _re.match(r'^(basic_string<char|string$)', tn):
        return None
    em.lowerings['M-mem(std::string::c_str)'] += 1
    return '((%s)->src)' % obj if not obj.strip().startswith('&') else '((%s).src)' % obj.strip()[1:]


def _make_pair(em, rd, call, args, obj):
    if obj is not None or len(args) != 2:
        return None
    t = em.ctype_of(qt(call))
    em.lowerings['M-pair(std::make_pair)'] += 1
    return '((%s){ %s, %s })' % (em.cdecl(em._strip_top_quals(t)), em.E(args[0]), em.E(args[1]))


def _uncaught(em, rd, call, args, obj):
    # std::uncaught_exceptions(): under L-throw (opt exc_model) the ghost flag says whether an exception is in flight; without it
    # every modelled execution is a normally returning one (abort points are cut off by the dynamic_check contract), so it is 0
    if obj is None and not args:
        if em.opts.get('exc_model'):
            em.lowerings['M-exc(std::uncaught_exceptions -> the ghost flag of L-throw)'] += 1
            return '((int)g_exc)'
        em.lowerings['M-exc(std::uncaught_exceptions -> 0: only normally returning executions are modelled)'] += 1
        return '((int)0)'
    return None


def _make_unique(em, rd, call, args, obj):
    # std::make_unique<T>() / std::make_unique<T[]>(n): value-initialised heap object(s) (M-mem)
    if obj is not None:
        return None
    t = em.ctype_of(qt(call))
    if t[0] != 'p':
        return None
    elem = em.cdecl(t[1])
    em.lowerings['M-mem(std::make_unique)'] += 1
    em.extern_funcs['vstd_new'] = True
    if not args:
        return '((%s)vstd_new(1UL, sizeof(%s)))' % (em.cdecl(t), elem)
    if len(args) == 1 and '[]' in (qt(call) or ''):
        # array form make_unique<T[]>(n) only; make_unique<T>(x) (one constructor argument) is not modelled
        return '((%s)vstd_new((unsigned long)(%s), sizeof(%s)))' % (em.cdecl(t), em.E(args[0]), elem)
    if len(args) == 1 and '[]' not in (qt(call) or ''):
        # make_unique<T>(x) for an extracted class T with exactly one instantiated one-parameter constructor taking x's type:
        # a fresh heap object constructed by that (real, extracted) constructor
        from .models import norm_name
        m = T.parse(qt(call))
        tname = em._split_targs(T.type_str(T.strip_quals(m)))[0] if 'unique_ptr<' in T.type_str(T.strip_quals(m)) else None
        rec = em.tu.find_record(tname) if tname else None
        if rec is None:
            return None
        want = norm_name(T.type_str(T.strip_quals(T.strip_ref(T.parse(qt(args[0]))))))
        cands = []
        for fid, fn in em.tu.funcs.items():
            if fn['kind'] == 'CXXConstructorDecl' and em.tu.parent_rec.get(fid, {}).get('id') == rec['id']:
                ps = em.params(fn)
                if len(ps) == 1:
                    try:
                        if norm_name(T.type_str(T.strip_quals(T.strip_ref(T.parse(qt(ps[0])))))) == want:
                            cands.append(fn)
                    except T.TypeParseError:
                        pass
        if len({f['id'] for f in cands}) != 1:
            raise ExtractError('make_unique<%s>(x): no unique one-parameter constructor for the argument type' % tname)
        ctor = cands[0]
        cname = em.need(ctor)
        em.lowerings['M-mem(std::make_unique<T>(x): fresh object built by the real constructor)'] += 1
        return '({ %s = (%s)vstd_new(1UL, sizeof(%s)); *__mu = %s(%s); __mu; })' % (em.cdecl(t, '__mu'), em.cdecl(t), elem, cname, em.arg(args[0], qt(em.params(ctor)[0])))
    return None


def _swap(em, rd, call, args, obj):
    # std::swap(a, b) on two lvalues of one scalar/pointer type: exchange through a temporary (M-swap)
    if obj is not None or len(args) != 2:
        return None
    ta, tb = em.ctype_of(qt(args[0])), em.ctype_of(qt(args[1]))
    if ta != tb or ta[0] not in ('c', 'p') or (ta[0] == 'c' and ta[1].startswith('struct ')):
        return None
    em.lowerings['M-swap(std::swap of scalars)'] += 1
    a, b = em.E(args[0]), em.E(args[1])
    return '({ %s = %s; %s = %s; %s = __swap_t; (void)0; })' % (em.cdecl(ta, '__swap_t'), a, a, b, b)


def _clock_now(em, rd, call, args, obj):
    if args:
        return None
    em.lowerings['M-chrono(clock::now -> vstd_clock_now)'] += 1
    return 'vstd_clock_now()'


def _duration_cast(em, rd, call, args, obj):
    if len(args) != 1:
        return None
    em.lowerings['M-chrono(duration_cast: identity on tick counts)'] += 1
    return em.E(args[0])


def _chrono_minus(em, rd, call, args, obj):
    # operator-(time_point, time_point) / (duration, duration) of <chrono>
    if len(args) != 2 or 'chrono' not in (rd.get('type', {}).get('qualType') or '') + str(call.get('type', {})):
        return None
    em.lowerings['M-chrono(operator-)'] += 1
    return '((%s) - (%s))' % (em.E(args[0]), em.E(args[1]))


MODELS = {
    'swap': _swap,
    'now': _clock_now,
    'duration_cast': _duration_cast,
    'operator-': _chrono_minus,
    'make_unique': _make_unique,
    'uncaught_exceptions': _uncaught,
    'uncaught_exception': _uncaught,
    'make_pair': _make_pair,
    'find': _find,
    'c_str': _c_str,
    'find_if': _alg('find_if'),
    'any_of': _alg('any_of'),
    'none_of': _alg('none_of'),
    'all_of': _alg('all_of'),
    'min': _limits('min'),
    'max': _limits('max'),
    'memcpy': _libc('vstd_memcpy'),
    'memset': _libc('vstd_memset'),
    'memcmp': _libc('vstd_memcmp'),
    'strlen': _libc('vstd_strlen'),
    'malloc': _libc('vstd_malloc'),
    'free': _libc('vstd_free'),
    'abort': _libc('vstd_abort'),
}
