"""Models of library callees that are outside the extracted (rlbox-filtered) AST.
Each model is name -> f(emitter, referencedDecl, call_node, arg_nodes, obj_expr_or_None) -> C text or None.
Everything here is part of the trusted base and is listed in evidence under the M-* labels of DESIGN.md 3.1."""
from . import cxxtypes as T
from .astload import ExtractError, qt

INT_LIMITS = {
    '_Bool': (0, 1), 'char': (-128, 127), 'signed char': (-128, 127), 'unsigned char': (0, 255),
    'short': (-32768, 32767), 'unsigned short': (0, 65535), 'int': (-2**31, 2**31 - 1), 'unsigned int': (0, 2**32 - 1),
    'long': (-2**63, 2**63 - 1), 'unsigned long': (0, 2**64 - 1), 'long long': (-2**63, 2**63 - 1),
    'unsigned long long': (0, 2**64 - 1),
}


def _limits(which):
    def f(em, rd, call, args, obj):
        if args or obj is not None:
            return None
        # std::numeric_limits<T>::min()/max(): T is the call's result type
        t = em.ctype_of(qt(call))
        if t[0] != 'c' or t[1] not in INT_LIMITS:
            raise ExtractError('numeric_limits::%s for non-integer type %r' % (which, t))
        lo, hi = INT_LIMITS[t[1]]
        em.lowerings['M-limits(std::numeric_limits<%s>::%s)' % (t[1], which)] += 1
        return em.int_lit(lo if which == 'min' else hi, t)
    return f


def _libc(cname):
    def f(em, rd, call, args, obj):
        if obj is not None:
            return None
        em.lowerings['M-mem(%s)' % cname] += 1
        em.extern_funcs.setdefault(cname, True)
        return '%s(%s)' % (cname, ', '.join(em.E(a) for a in args))
    return f


def _find(em, rd, call, args, obj):
    # std::find(first, last, value) over std::vector<void*> iterators (M-vec)
    from . import models
    if obj is None and len(args) == 3 and models._is_vecit(em, args[0]) and models._is_vecit(em, args[1]):
        em.lowerings['M-vec(std::find)'] += 1
        em.extern_funcs['vec_find'] = True
        return 'vec_find(%s, %s, %s)' % (em.E(args[0]), em.E(args[1]), em.E(args[2]))
    return None


def _make_pair(em, rd, call, args, obj):
    if obj is not None or len(args) != 2:
        return None
    t = em.ctype_of(qt(call))
    em.lowerings['M-pair(std::make_pair)'] += 1
    return '((%s){ %s, %s })' % (em.cdecl(em._strip_top_quals(t)), em.E(args[0]), em.E(args[1]))


def _uncaught(em, rd, call, args, obj):
    # std::uncaught_exceptions(): whether an exception is in flight is not known to a function contract -> arbitrary
    if obj is None and not args:
        em.lowerings['M-exc(std::uncaught_exceptions -> arbitrary value)'] += 1
        return 'vstd_uncaught_exceptions()'
    return None


def _make_unique(em, rd, call, args, obj):
    # std::make_unique<T>() / std::make_unique<T[]>(n): value-initialised heap object(s) (M-mem)
    if obj is not None:
        return None
    t = em.ctype_of(qt(call))
    if t[0] != 'p':
        return None
    elem = em.cdecl(t[1])
    em.lowerings['M-mem(std::make_unique)'] += 1
    em.extern_funcs['vstd_new'] = True
    if not args:
        return '((%s)vstd_new(1UL, sizeof(%s)))' % (em.cdecl(t), elem)
    if len(args) == 1 and '[]' in (qt(call) or ''):
        # array form make_unique<T[]>(n) only; make_unique<T>(x) (one constructor argument) is not modelled
        return '((%s)vstd_new((unsigned long)(%s), sizeof(%s)))' % (em.cdecl(t), em.E(args[0]), elem)
    return None


def _swap(em, rd, call, args, obj):
    # std::swap(a, b) on two lvalues of one scalar/pointer type: exchange through a temporary (M-swap)
    if obj is not None or len(args) != 2:
        return None
    ta, tb = em.ctype_of(qt(args[0])), em.ctype_of(qt(args[1]))
    if ta != tb or ta[0] not in ('c', 'p') or (ta[0] == 'c' and ta[1].startswith('struct ')):
        return None
    em.lowerings['M-swap(std::swap of scalars)'] += 1
    a, b = em.E(args[0]), em.E(args[1])
    return '({ %s = %s; %s = %s; %s = __swap_t; (void)0; })' % (em.cdecl(ta, '__swap_t'), a, a, b, b)


def _clock_now(em, rd, call, args, obj):
    if args:
        return None
    em.lowerings['M-chrono(clock::now -> vstd_clock_now)'] += 1
    return 'vstd_clock_now()'


def _duration_cast(em, rd, call, args, obj):
    if len(args) != 1:
        return None
    em.lowerings['M-chrono(duration_cast: identity on tick counts)'] += 1
    return em.E(args[0])


def _chrono_minus(em, rd, call, args, obj):
    # operator-(time_point, time_point) / (duration, duration) of <chrono>
    if len(args) != 2 or 'chrono' not in (rd.get('type', {}).get('qualType') or '') + str(call.get('type', {})):
        return None
    em.lowerings['M-chrono(operator-)'] += 1
    return '((%s) - (%s))' % (em.E(args[0]), em.E(args[1]))


MODELS = {
    'swap': _swap,
    'now': _clock_now,
    'duration_cast': _duration_cast,
    'operator-': _chrono_minus,
    'make_unique': _make_unique,
    'uncaught_exceptions': _uncaught,
    'uncaught_exception': _uncaught,
    'make_pair': _make_pair,
    'find': _find,
    'min': _limits('min'),
    'max': _limits('max'),
    'memcpy': _libc('vstd_memcpy'),
    'memset': _libc('vstd_memset'),
    'memcmp': _libc('vstd_memcmp'),
    'strlen': _libc('vstd_strlen'),
    'malloc': _libc('vstd_malloc'),
    'free': _libc('vstd_free'),
    'abort': _libc('vstd_abort'),
}
