"""Parser for C++ type strings as printed by clang (-ast-dump=json qualType /
desugaredQualType) and printer of the corresponding C declarators.

Type terms (tuples):
  ('n', name, quals)          named type (builtin, record, enum, alias) - resolved by the emitter
  ('p', pointee, quals)       pointer
  ('ref', target)             lvalue or rvalue reference
  ('f', ret, [params], variadic, quals)   function type
  ('a', elem, n)              array (n may be None)
quals is a frozenset subset of {'const','volatile'}.
"""
import re


class TypeParseError(Exception):
    pass


_tok_re = re.compile(r'\s*(::|&&|\.\.\.|->|[A-Za-z_][A-Za-z_0-9]*|\d+[uUlL]*|[<>()\[\],*&~:\-+!]|\'[^\']*\'|"[^"]*")')


def tokenize(s):
    toks = []
    i = 0
    s = s.strip()
    while i < len(s):
        # decltype(<arbitrary expression>): one token (balanced parentheses at character level)
        m = re.match(r'\s*decltype\s*\(', s[i:])
        if m:
            j = i + m.end()
            depth = 1
            while j < len(s) and depth:
                if s[j] == '(':
                    depth += 1
                elif s[j] == ')':
                    depth -= 1
                j += 1
            toks.append('decltype(' + re.sub(r'\s+', ' ', s[i + m.end():j - 1]).strip() + ')')
            i = j
            continue
        # lambda / anonymous types: "(lambda at file:line:col)" or "(anonymous ...)" taken as one token
        m = re.match(r'\s*\((lambda|anonymous|unnamed)[^()]*\)', s[i:])
        if m:
            toks.append(m.group(0).strip())
            i += m.end()
            continue
        m = _tok_re.match(s, i)
        if not m:
            if s[i:].strip() == '':
                break
            raise TypeParseError('cannot tokenize %r at %d' % (s, i))
        toks.append(m.group(1))
        i = m.end()
    return toks


CV = ('const', 'volatile')
_SKIP_KW = ('struct', 'class', 'enum', 'typename', 'union')
_BUILTIN_WORDS = ('unsigned', 'signed', 'long', 'short', 'int', 'char', 'bool', 'void', 'float', 'double',
                  '__int128', 'wchar_t', 'char16_t', 'char32_t', 'char8_t', '_Bool')


class _P:
    def __init__(self, toks):
        self.t = toks
        self.i = 0

    def peek(self, k=0):
        return self.t[self.i + k] if self.i + k < len(self.t) else None

    def next(self):
        x = self.peek()
        self.i += 1
        return x

    def expect(self, x):
        if self.peek() != x:
            raise TypeParseError('expected %r got %r in %r' % (x, self.peek(), ' '.join(self.t)))
        self.i += 1

    # ---- grammar
    def parse_type(self):
        quals = set()
        while self.peek() in CV:
            quals.add(self.next())
        base = self.parse_base()
        while self.peek() in CV:
            quals.add(self.next())
        base = _addq(base, quals)
        return self.parse_abstract_declarator(base)

    def parse_base(self):
        while self.peek() in _SKIP_KW:
            self.next()
        tok = self.peek()
        if tok is None:
            raise TypeParseError('empty type')
        if tok.startswith('(') and len(tok) > 1:  # lambda
            self.next()
            return ('n', tok, frozenset())
        if tok.startswith('decltype('):
            self.next()
            return ('n', tok, frozenset())
        if tok == 'decltype':
            self.next()
            self.expect('(')
            depth = 1
            inner = []
            while depth:
                x = self.next()
                if x is None:
                    raise TypeParseError('unbalanced decltype')
                if x == '(':
                    depth += 1
                elif x == ')':
                    depth -= 1
                    if depth == 0:
                        break
                inner.append(x)
            return ('n', 'decltype(' + ' '.join(inner) + ')', frozenset())
        if tok in _BUILTIN_WORDS:
            words = []
            while self.peek() in _BUILTIN_WORDS:
                words.append(self.next())
            return ('n', ' '.join(words), frozenset())
        # qualified name with template args
        name = ''
        if self.peek() == '::':
            self.next()
        while True:
            x = self.next()
            if x is None or not (re.match(r'[A-Za-z_]', x) or x.startswith('(')):
                raise TypeParseError('bad name token %r in %r' % (x, ' '.join(self.t)))
            name += x
            if self.peek() == '<':
                name += self.parse_targs_raw()
            if self.peek() == '::':
                self.next()
                while self.peek() in ('template', 'typename'):
                    self.next()
                name += '::'
                continue
            break
        return ('n', name, frozenset())

    def parse_targs_raw(self):
        # returns normalised "<a, b>" text; args are parsed as types when possible to normalise spacing
        self.expect('<')
        args = []
        cur = []
        depth = 0
        while True:
            x = self.next()
            if x is None:
                raise TypeParseError('unbalanced <> in %r' % ' '.join(self.t))
            if x in ('<', '(', '['):
                depth += 1
            elif x in (')', ']'):
                depth -= 1
            elif x == '>':
                if depth == 0:
                    if cur:
                        args.append(cur)
                    break
                depth -= 1
            elif x == ',' and depth == 0:
                args.append(cur)
                cur = []
                continue
            cur.append(x)
        out = []
        for a in args:
            try:
                p = _P(a)
                t = p.parse_type()
                if p.peek() is not None:
                    raise TypeParseError('trailing')
                out.append(type_str(t))
            except TypeParseError:
                out.append(' '.join(a))
        return '<' + ', '.join(out) + '>'

    def parse_abstract_declarator(self, base):
        # pointer operators
        while True:
            x = self.peek()
            if x == '*':
                self.next()
                q = set()
                while self.peek() in CV or self.peek() in ('__restrict', 'restrict'):
                    y = self.next()
                    if y in CV:
                        q.add(y)
                base = ('p', base, frozenset(q))
            elif x in ('&', '&&'):
                self.next()
                base = ('ref', base)
            else:
                break
        x = self.peek()
        if base[0] == 'ref' and x == '[':
            # clang prints a reference to an array that came from a substituted template parameter as
            # "T &[N]" (e.g. "long &[3]"): reference to array, not array of references
            return ('ref', self.parse_suffixes(base[1]))
        if x == '(':
            # grouping or function params?
            nxt = self.peek(1)
            if nxt in ('*', '&', '&&', '(') or (nxt is not None and self._is_member_ptr_start()):
                # grouping: parse inner declarator later (inside-out)
                self.next()
                start = self.i
                depth = 1
                while depth:
                    y = self.next()
                    if y is None:
                        raise TypeParseError('unbalanced ()')
                    if y == '(':
                        depth += 1
                    elif y == ')':
                        depth -= 1
                inner_toks = self.t[start:self.i - 1]
                base = self.parse_suffixes(base)
                ip = _P(inner_toks)
                res = ip.parse_abstract_declarator(base)
                if ip.peek() is not None:
                    raise TypeParseError('trailing tokens in grouped declarator %r' % inner_toks)
                return res
        return self.parse_suffixes(base)

    def _is_member_ptr_start(self):
        return False

    def parse_suffixes(self, base):
        # collect suffixes then apply right-to-left (C declarator semantics)
        sufs = []
        while True:
            x = self.peek()
            if x == '(':
                self.next()
                params = []
                variadic = False
                if self.peek() == ')':
                    self.next()
                else:
                    while True:
                        if self.peek() == '...':
                            self.next()
                            variadic = True
                        else:
                            params.append(self.parse_type())
                        if self.peek() == ',':
                            self.next()
                            continue
                        self.expect(')')
                        break
                q = set()
                while self.peek() in CV or self.peek() in ('noexcept', '&', '&&'):
                    y = self.next()
                    if y in CV:
                        q.add(y)
                if self.peek() == '->':
                    self.next()
                    ret = self.parse_type()
                    sufs.append(('f', params, variadic, frozenset(q), ret))
                else:
                    sufs.append(('f', params, variadic, frozenset(q), None))
            elif x == '[':
                self.next()
                n = None
                if self.peek() != ']':
                    n = int(re.sub(r'[uUlL]', '', self.next()))
                self.expect(']')
                sufs.append(('a', n))
            else:
                break
        t = base
        for s in reversed(sufs):
            if s[0] == 'f':
                ret = s[4] if s[4] is not None else t
                t = ('f', ret, s[1], s[2], s[3])
            else:
                t = ('a', t, s[1])
        return t


def _addq(t, quals):
    if not quals:
        return t
    if t[0] == 'n':
        return ('n', t[1], frozenset(t[2] | set(quals)))
    if t[0] == 'p':
        return ('p', t[1], frozenset(t[2] | set(quals)))
    if t[0] == 'a':
        return ('a', _addq(t[1], quals), t[2])
    return t


def addq(t, quals):
    return _addq(t, quals)


def parse(s):
    p = _P(tokenize(s))
    t = p.parse_type()
    if p.peek() is not None:
        raise TypeParseError('trailing tokens %r in %r' % (p.t[p.i:], s))
    return t


def quals_of(t):
    if t[0] in ('n', 'p'):
        return t[2]
    if t[0] == 'a':
        return quals_of(t[1])
    return frozenset()


def strip_quals(t):
    if t[0] == 'n':
        return ('n', t[1], frozenset())
    if t[0] == 'p':
        return ('p', t[1], frozenset())
    if t[0] == 'a':
        return ('a', strip_quals(t[1]), t[2])
    return t


def strip_ref(t):
    return t[1] if t[0] == 'ref' else t


def type_str(t):
    """canonical C++-ish spelling (used for normalised record names)"""
    k = t[0]
    if k == 'n':
        q = ''.join(x + ' ' for x in sorted(t[2]))
        return q + t[1]
    if k == 'p':
        inner = t[1]
        q = ''.join(' ' + x for x in sorted(t[2]))
        if inner[0] in ('f', 'a'):
            return _decl_str(t, '')
        return type_str(inner) + ' *' + q
    if k == 'ref':
        if t[1][0] in ('f', 'a'):
            return _decl_str(t, '')
        return type_str(t[1]) + ' &'
    return _decl_str(t, '')


def _decl_str(t, inner):
    k = t[0]
    if k == 'n':
        return (type_str(t) + ' ' + inner).strip()
    if k == 'p':
        q = ''.join(' ' + x for x in sorted(t[2]))
        s = '*' + q.strip() + inner
        if t[1][0] in ('f', 'a'):
            s = '(' + s + ')'
        return _decl_str(t[1], s)
    if k == 'ref':
        s = '&' + inner
        if t[1][0] in ('f', 'a'):
            s = '(' + s + ')'
        return _decl_str(t[1], s)
    if k == 'f':
        ps = ', '.join(type_str(p) for p in t[2]) + (', ...' if t[3] and t[2] else ('...' if t[3] else ''))
        return _decl_str(t[1], inner + '(' + ps + ')' + ''.join(' ' + x for x in sorted(t[4])))
    if k == 'a':
        return _decl_str(t[1], inner + '[' + ('' if t[2] is None else str(t[2])) + ']')
    raise TypeParseError('bad type term %r' % (t,))
