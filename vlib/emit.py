"""AST -> C emitter.  Prints the *instantiated* bodies clang produced from /repo's
headers as C functions.  Fails closed (ExtractError) on anything it does not
know.  No function body is ever written by hand here: every statement of the
output comes from an AST node; the lowerings applied are recorded in
self.lowerings (reported in evidence)."""
import re
import collections

from . import cxxtypes as T
from .astload import ExtractError, inner, qt, norm_name, FUNC_KINDS, REC_KINDS, body_of, has_body

STD_TYPEDEFS = {
    'uintptr_t': 'unsigned long', 'intptr_t': 'long', 'size_t': 'unsigned long', 'ptrdiff_t': 'long',
    'ssize_t': 'long', 'uint8_t': 'unsigned char', 'int8_t': 'signed char', 'uint16_t': 'unsigned short',
    'int16_t': 'short', 'uint32_t': 'unsigned int', 'int32_t': 'int', 'uint64_t': 'unsigned long',
    'int64_t': 'long', 'nullptr_t': 'void *', 'decltype(nullptr)': 'void *', 'max_align_t': 'long double',
    '__uint32_t': 'unsigned int', '__int32_t': 'int', '__uint64_t': 'unsigned long', '__int64_t': 'long',
}
C_BUILTIN = {
    'bool': '_Bool', '_Bool': '_Bool', 'char': 'char', 'signed char': 'signed char', 'unsigned char': 'unsigned char',
    'short': 'short', 'unsigned short': 'unsigned short', 'int': 'int', 'unsigned int': 'unsigned int',
    'unsigned': 'unsigned int', 'long': 'long', 'unsigned long': 'unsigned long', 'long long': 'long long',
    'unsigned long long': 'unsigned long long', 'float': 'float', 'double': 'double', 'long double': 'long double',
    'void': 'void', 'wchar_t': 'int', 'char16_t': 'unsigned short', 'char32_t': 'unsigned int', 'char8_t': 'unsigned char',
    '__int128': '__int128', 'unsigned __int128': 'unsigned __int128',
    'short int': 'short', 'long int': 'long', 'unsigned long int': 'unsigned long', 'long long int': 'long long',
    'unsigned short int': 'unsigned short', 'unsigned long long int': 'unsigned long long', 'signed int': 'int',
    'long unsigned int': 'unsigned long', 'short unsigned int': 'unsigned short', 'signed': 'int',
}

# non-rlbox callees that are the identity on their (reference) argument
IDENTITY_CALLEES = ('forward', 'move', 'as_const', 'addressof_ref')


def san(s):
    return re.sub(r'_+', '_', re.sub(r'[^A-Za-z0-9]', '_', s)).strip('_')


def fact_name(expr):
    """macro name of a compiler-computed constant: readable part + hash of the exact C++ expression, so that expressions that
    differ only in characters the readable part drops (int vs int *) never share a macro"""
    import hashlib
    return 'CXV_' + san(expr) + '_' + hashlib.sha1(expr.encode()).hexdigest()[:8]


def struct_tag(cxx_name, prefix='S_'):
    """C struct tag for a C++ record spelling; injective on the pieces that distinguish wrapper instantiations"""
    n = norm_name(cxx_name)
    n = n.replace('*', '_p').replace('&', '_r').replace('[', '_a').replace(']', '').replace('(', '_f').replace(')', '')
    n = n.replace('<', '_L').replace('>', '_J').replace(',', '_')
    cn = prefix + san(n)
    if len(cn) > 120:
        import hashlib
        cn = cn[:100] + '_' + hashlib.sha1(cn.encode()).hexdigest()[:8]
    return cn


def _match_paren(t, i):
    d = 0
    for j in range(i, len(t)):
        if t[j] == '(':
            d += 1
        elif t[j] == ')':
            d -= 1
            if d == 0:
                return j
    return -1


class Emitter:
    def __init__(self, tu, leaf_pred=None, std_models=None, opts=None):
        """leaf_pred(fn_node, record_display_name) -> truthy leaf key if the function is a contract leaf
        std_models: name -> callable(emitter, call_node, args_nodes) -> C expression string"""
        self.tu = tu
        self.leaf_pred = leaf_pred or (lambda fn, rec: None)
        self.std_models = std_models or {}
        self.opts = opts or {}
        self.needed = collections.OrderedDict()   # func id -> node (to emit with body)
        self.leaves = collections.OrderedDict()   # func id -> (node, leaf key)
        self.used_records = collections.OrderedDict()  # struct C name -> ('rec', node, cxxname) | ('model', text)
        self.rec_order = []
        self.globals_used = collections.OrderedDict()  # C name -> (ctype decl, node)
        self.lowerings = collections.Counter()
        self.cname = {}
        self.ret_override = {}
        self.cur_fn = None
        self.tmp_counter = 0
        self.fn_text = {}
        self.sig_text = {}
        self.sig_info = {}
        self.extern_funcs = collections.OrderedDict()  # C name -> declaration text (modelled std callees)
        self.struct_defs = collections.OrderedDict()
        self.facts = collections.OrderedDict()         # macro -> (C++ expression, C type) computed by g++
        self.pending_dtors = {}   # function id -> [(local name, destructor C name, this type)] (L-dtor)
        self.closures = {}        # closure record id -> {captured decl id | 'this': (field name, by_reference)}
        self.leaf_called = set()
        self.site_counter = {}
        self.site_alias = collections.OrderedDict()    # alias C name -> [leaf fn id, leaf key, caller C name, call text]

    # ------------------------------------------------------------------ types
    def resolve(self, t):
        """resolve named types (aliases) inside a parsed type term; returns a term whose 'n' nodes are
        ('n', cname, quals, kind) with kind in builtin|record|enum"""
        k = t[0]
        if k == 'n':
            name, quals = t[1], t[2]
            if name in C_BUILTIN:
                return ('c', C_BUILTIN[name], quals)
            nn = norm_name(name)
            if nn in STD_TYPEDEFS:
                return T.addq(self.resolve(T.parse(STD_TYPEDEFS[nn])), quals) if not quals else self._addq(self.resolve(T.parse(STD_TYPEDEFS[nn])), quals)
            if nn in self.tu.aliases:
                und = self.tu.aliases[nn]
                return self._addq(self.resolve(T.parse(und)), quals)
            if nn in self.tu.enums:
                return ('c', self.enum_ctype(self.tu.enums[nn]), quals)
            la = getattr(self, 'local_aliases', {}).get(nn)
            if la is not None:
                return self._addq(self.resolve(T.parse(la)), quals)
            m = self.model_type(name)
            if m is not None:
                if isinstance(m, tuple):
                    return self._addq(m, quals)
                return ('c', m, quals)
            if '<' in name:
                cn0 = self.canon_template_name(name)
                nn0 = norm_name(cn0)
                for cand in (nn0, re.sub(r'>::(\w+)$', r',void>::\1', nn0)):
                    if cand != nn and cand in self.tu.aliases:
                        return self._addq(self.resolve(T.parse(self.tu.aliases[cand])), quals)
            rec = self.tu.find_record(name)
            if rec is None and '<' in name:
                # sugared template arguments (e.g. app_pointer_map<vsbx::T_PointerType>): canonicalise them via the alias table
                cn2 = self.canon_template_name(name)
                if cn2 != name:
                    rec = self.tu.find_record(cn2)
                    if rec is not None:
                        name = cn2
            if rec is not None:
                return ('c', 'struct ' + self.use_record(rec, name), quals)
            if name.startswith('(lambda'):
                rec = self.find_lambda(name)
                if rec is not None:
                    return ('c', 'struct ' + self.use_record(rec, name), quals)
            if 'decltype' not in name and re.match(r'^(rlbox::)?(tainted|tainted_volatile|tainted_opaque|tainted_base_impl|sandbox_callback|app_pointer|rlbox_sandbox)<', name):
                # class template specialisation that the instantiation only uses through pointers/references;
                # only accepted when every template argument is itself resolvable (otherwise the spelling is
                # sugar for some other, possibly complete, specialisation)
                for a_ in self._split_targs(name):
                    if re.match(r'^-?\d+$', a_.strip()):
                        continue
                    self.resolve(T.parse(a_))
                cn = struct_tag(name)
                if cn not in self.struct_defs:
                    self.struct_defs[cn] = 'struct %s; /* incomplete: %s never instantiated here */' % (cn, name)
                    self.used_records[cn] = ('incomplete', name)
                    self.rec_order.append(cn)
                return ('c', 'struct ' + cn, quals)
            raise ExtractError('unknown type name %r' % name)
        if k == 'p':
            if t[1][0] == 'f':
                try:
                    return ('p', self.resolve(t[1]), t[2])
                except ExtractError:
                    # function pointer whose signature is spelled through alias templates clang left sugared:
                    # all function pointers share one representation; the signature is dropped (any call through
                    # such a pointer then fails to compile -> undecided, never silently mis-typed)
                    self.lowerings['L-fnptr(signature not resolvable -> void(*)(void))'] += 1
                    return ('p', ('f', ('c', 'void', frozenset()), [], False, frozenset()), t[2])
            return ('p', self.resolve(t[1]), t[2])
        if k == 'ref':
            return ('p', self.resolve(t[1]), frozenset())
        if k == 'f':
            return ('f', self.resolve(t[1]), [self.resolve(p) for p in t[2]], t[3], t[4])
        if k == 'a':
            return ('a', self.resolve(t[1]), t[2])
        raise ExtractError('bad type term')

    def canon_template_name(self, name):
        # "Tmpl<args>::member": canonicalise the template-id and keep the member suffix
        depth = 0
        cut = None
        for idx, ch in enumerate(name):
            if ch == '<':
                depth += 1
            elif ch == '>':
                depth -= 1
                if depth == 0:
                    cut = idx
                    break
        if cut is not None and cut + 1 < len(name) and name[cut + 1:].startswith('::'):
            return self.canon_template_name(name[:cut + 1]) + name[cut + 1:]
        try:
            i = name.index('<')
            args = self._split_targs(name)
        except ValueError:
            return name
        out = []
        for a in args:
            try:
                t = T.parse(a)
            except T.TypeParseError:
                out.append(a)
                continue
            out.append(T.type_str(self.canon_cxx(t)))
        j = name.rindex('>')
        return name[:i] + '<' + ', '.join(out) + '>' + name[j + 1:]

    def canon_cxx(self, t):
        """C++-level canonicalisation of a type term through the alias tables (no C mapping)"""
        k = t[0]
        if k == 'n':
            nn = norm_name(t[1])
            if nn in STD_TYPEDEFS and STD_TYPEDEFS[nn] != 'void *':
                return T.addq(T.parse(STD_TYPEDEFS[nn]), t[2])
            if nn in self.tu.aliases:
                return T.addq(self.canon_cxx(T.parse(self.tu.aliases[nn])), t[2])
            if '<' in t[1]:
                from . import models as _m
                try:
                    tr = _m.std_trait_cxx(self, t[1], nn)
                except ExtractError:
                    tr = None
                if tr is not None:
                    return T.addq(self.canon_cxx(tr), t[2])
                cn = self.canon_template_name(t[1])
                nn2 = norm_name(cn)
                if nn2 != nn and nn2 in self.tu.aliases:
                    return T.addq(self.canon_cxx(T.parse(self.tu.aliases[nn2])), t[2])
                return ('n', cn, t[2])
            return t
        if k == 'p':
            return ('p', self.canon_cxx(t[1]), t[2])
        if k == 'ref':
            return ('ref', self.canon_cxx(t[1]))
        if k == 'a':
            return ('a', self.canon_cxx(t[1]), t[2])
        if k == 'f':
            return ('f', self.canon_cxx(t[1]), [self.canon_cxx(p) for p in t[2]], t[3], t[4])
        return t

    def _addq(self, t, quals):
        if not quals:
            return t
        if t[0] == 'c':
            return ('c', t[1], frozenset(t[2] | quals))
        if t[0] == 'p':
            return ('p', t[1], frozenset(t[2] | quals))
        if t[0] == 'a':
            return ('a', self._addq(t[1], quals), t[2])
        return t

    def enum_ctype(self, en):
        ft = en.get('fixedUnderlyingType')
        if ft:
            r = self.resolve(T.parse(ft.get('desugaredQualType') or ft['qualType']))
            return r[1]
        return 'int'

    def model_type(self, name):
        """C type for modelled library types (std::array, std::pair, ...) or None"""
        nn = norm_name(name)
        m = re.match(r'^array<(.*),(\d+)[uUlL]*>$', nn)
        if m:
            # std::array<T,N>: struct { T _M_elems[N]; } (libstdc++ layout; size asserted against g++ by facts)
            sp = T.parse(self._split_targs(name)[0])
            elem = self.resolve(sp)
            n = int(m.group(2))
            cn = struct_tag(name, 'A_')
            if cn not in self.struct_defs:
                self.struct_defs[cn] = None
                self.struct_defs[cn] = 'struct %s { %s; };' % (cn, self.cdecl(('a', elem, n), '_M_elems'))
                self.rec_order.append(cn)
                self.used_records[cn] = ('model', name)
            self.lowerings['M-array'] += 0
            return 'struct ' + cn
        m = re.match(r'^pair<', nn)
        if m:
            a, b = self._split_targs(name)
            cn = struct_tag(name, 'P_')
            if cn not in self.struct_defs:
                self.struct_defs[cn] = None
                ta = self.resolve(T.parse(a))
                tb = self.resolve(T.parse(b))
                self.struct_defs[cn] = 'struct %s { %s; %s; };' % (cn, self.cdecl(ta, 'first'), self.cdecl(tb, 'second'))
                self.rec_order.append(cn)
                self.used_records[cn] = ('model', name)
            return 'struct ' + cn
        hook = self.opts.get('model_type')
        if hook:
            r = hook(self, name, nn)
            if r is not None:
                return r
        return None

    def _split_targs(self, name):
        i = name.index('<')
        body = name[i + 1:name.rindex('>')]
        out, cur, depth = [], '', 0
        for ch in body:
            if ch in '<([':
                depth += 1
            elif ch in '>)]':
                depth -= 1
            if ch == ',' and depth == 0:
                out.append(cur.strip())
                cur = ''
            else:
                cur += ch
        if cur.strip():
            out.append(cur.strip())
        return out

    def find_lambda(self, name):
        # "(lambda at file:line:col)"
        m = re.search(r':(\d+):(\d+)\)$', name)
        if not m:
            return None
        line, col = int(m.group(1)), int(m.group(2))
        for rid, rec in self.tu.rec_by_id.items():
            loc = rec.get('loc', {})
            for l in (loc, loc.get('expansionLoc', {}), loc.get('spellingLoc', {})):
                if l.get('col') == col and (l.get('line') == line or 'line' not in l):
                    if rec.get('isImplicit') or rec.get('tagUsed') == 'class' and not rec.get('name'):
                        return rec
        return None

    def canon_lambda(self, rec):
        cid = getattr(self, 'lambda_canon', {}).get(rec['id'])
        return self.tu.rec_by_id.get(cid, rec) if cid else rec

    def use_record(self, rec, spelled=None):
        rid = rec['id']
        disp = self.tu.rec_name.get(rid, rec.get('name', rid))
        if disp.startswith('lambda_') or (spelled or '').startswith('(lambda'):
            # one closure struct per lambda *source location*: every instantiation of the enclosing template has its own
            # closure record with the same members; differing capture types would redefine the struct (compile error, exit 2)
            cn = 'S_lambda_' + self.canon_lambda(rec)['id'][-8:]
        else:
            cn = struct_tag(disp if ('<' in disp or '::' in disp) and '?' not in disp else (spelled or disp))
        if cn in self.struct_defs:
            return cn
        self.struct_defs[cn] = None     # in progress (pointers to self are fine)
        hook = self.opts.get('abstract_record')
        members = []
        if hook and hook(self, rec, disp) is not None:
            text = hook(self, rec, disp)
            self.struct_defs[cn] = text.replace('$NAME', cn)
            self.used_records[cn] = ('abstract', disp)
            self.rec_order.append(cn)
            return cn
        nonempty_bases = 0
        for b in rec.get('bases', []):
            bt = b['type'].get('desugaredQualType') or b['type']['qualType']
            brec = self.tu.find_record(bt)
            if brec is None:
                if self.is_empty_std_base(bt):
                    continue
                raise ExtractError('base class %s of %s not found' % (bt, disp))
            if self.rec_is_empty(brec):
                self.lowerings['L-this(empty base)'] += 1
                continue
            nonempty_bases += 1
            if nonempty_bases > 1 or members:
                raise ExtractError('multiple non-empty bases in %s' % disp)
            bcn = self.use_record(brec, bt)
            members.append('struct %s base0;' % bcn)
        for f in inner(rec):
            if f.get('kind') == 'FieldDecl':
                try:
                    ft = self.ctype_of(qt(f))
                except ExtractError:
                    # closure field of a lambda: the capture's type may be spelled with an alias template that the dump does not
                    # desugar (e.g. a captured parameter pack); the captured variable's own type is the same type, desugared
                    alt = getattr(self, 'closure_field_types', {}).get(f['id'])
                    if alt is None:
                        raise
                    ft = self.ctype_of(alt)
                nm = f.get('name') or ('_f%d' % len(members))
                f['name'] = nm
                self.tu.decls[f['id']] = f
                if f.get('isBitfield'):
                    raise ExtractError('bitfield in ' + disp)
                members.append(self.cdecl(ft, nm) + ';')
        if not members:
            members.append('char _empty;')
        self.struct_defs[cn] = 'struct %s { %s }; /* %s */' % (cn, ' '.join(members), disp)
        self.used_records[cn] = ('rec', disp)
        self.rec_order.append(cn)
        return cn

    def is_empty_std_base(self, bt):
        return norm_name(bt).startswith(('integral_constant<', 'true_type', 'false_type'))

    def rec_is_empty(self, rec):
        if rec.get('definitionData', {}).get('isEmpty'):
            return True
        for f in inner(rec):
            if f.get('kind') == 'FieldDecl':
                return False
        for b in rec.get('bases', []):
            bt = b['type'].get('desugaredQualType') or b['type']['qualType']
            brec = self.tu.find_record(bt)
            if brec is None:
                if self.is_empty_std_base(bt):
                    continue
                return False
            if not self.rec_is_empty(brec):
                return False
        return True

    def ctype_of(self, s):
        """resolved C type term for a clang type string"""
        try:
            return self.resolve(T.parse(s))
        except T.TypeParseError as e:
            raise ExtractError('type parse: %s' % e)

    def cdecl(self, t, name=''):
        """C declarator text for resolved type term t"""
        k = t[0]
        if k == 'c':
            q = ''.join(x + ' ' for x in sorted(t[2]))
            return (q + t[1] + ' ' + name).rstrip()
        if k == 'p':
            q = ''.join(' ' + x for x in sorted(t[2]))
            s = '*' + (q.strip() + ' ' if q else '') + name
            if t[1][0] in ('f', 'a'):
                s = '(' + s + ')'
            return self.cdecl(t[1], s)
        if k == 'f':
            ps = ', '.join(self.cdecl(p) for p in t[2]) or 'void'
            if t[3]:
                ps += ', ...'
            return self.cdecl(t[1], name + '(' + ps + ')')
        if k == 'a':
            return self.cdecl(t[1], name + '[' + ('' if t[2] is None else str(t[2])) + ']')
        raise ExtractError('cdecl: bad term %r' % (t,))

    def ct(self, s):
        return self.cdecl(self.ctype_of(s))

    def is_ref_type(self, s):
        try:
            return T.parse(s)[0] == 'ref'
        except T.TypeParseError as e:
            raise ExtractError('type parse: %s' % e)

    # ------------------------------------------------------------------ functions
    OPNAMES = {'+': 'plus', '-': 'minus', '*': 'star', '/': 'div', '%': 'mod', '^': 'xor', '&': 'amp', '|': 'pipe',
               '<<': 'shl', '>>': 'shr', '==': 'eq', '!=': 'ne', '<': 'lt', '<=': 'le', '>': 'gt', '>=': 'ge',
               '[]': 'index', '()': 'call', '=': 'assign', '++': 'inc', '--': 'dec', '!': 'not', '~': 'compl',
               '&&': 'land', '||': 'lor', '->': 'arrow', '+=': 'pluseq', '-=': 'minuseq', '*=': 'stareq', '/=': 'diveq',
               '%=': 'modeq', '^=': 'xoreq', '&=': 'ampeq', '|=': 'pipeeq', '<<=': 'shleq', '>>=': 'shreq'}

    def fname(self, fn):
        """short, unique, stable C name: <c++ name>_<hash of the mangled name>"""
        fid = fn['id']
        if fid in self.cname:
            return self.cname[fid]
        import hashlib
        nm = fn.get('name', 'fn')
        if nm.startswith('operator') and not re.match(r'^operator[A-Za-z_ ]', nm[8:9] and nm or 'operatorx'):
            sym = nm[8:].strip()
            nm = 'operator_' + self.OPNAMES.get(sym, san(sym) or 'op')
        elif nm.startswith('operator '):
            nm = 'operator_conv'
        rec = self.tu.parent_rec.get(fid)
        base = fn.get('mangledName') or ((self.tu.rec_name.get(rec['id'], 'rec') if rec else '') + '::' + nm + '@' + fid)
        h = hashlib.sha1(base.encode()).hexdigest()[:8]
        recn = ''
        if rec is not None:
            recn = san(re.sub(r'<.*$', '', self.tu.rec_name.get(rec['id'], '')).split('::')[-1])[:24] + '_'
        n = '%s%s_%s' % (recn, san(nm)[:40], h)
        if fn['kind'] == 'CXXConstructorDecl':
            n = 'ctor_' + n
        if fn['kind'] == 'CXXDestructorDecl':
            n = 'dtor_' + n
        self.cname[fid] = n
        return n

    def is_method(self, fn):
        return fn['kind'] in ('CXXMethodDecl', 'CXXConversionDecl', 'CXXDestructorDecl') and fn.get('storageClass') != 'static'

    def rec_of(self, fn):
        return self.tu.parent_rec.get(fn['id'])

    def this_ctype(self, fn):
        rec = self.rec_of(fn)
        if rec is None:
            raise ExtractError('method without record: ' + fn.get('name', '?'))
        cn = self.use_record(rec)
        q = fn['type']['qualType']
        # cv-qualifier of the member function: text after the parameter list
        depth = 0
        tail = ''
        q = q.replace('->', '\x00\x00')
        for idx, ch in enumerate(q):
            if ch in '(<[':
                depth += 1
            elif ch in ')>]':
                depth -= 1
                if depth == 0 and ch == ')':
                    tail = q[idx + 1:]
        tail = tail.split('\x00\x00')[0]
        cv = ' '.join(w for w in ('const', 'volatile') if re.search(r'\b%s\b' % w, tail))
        return ('p', ('c', 'struct ' + cn, frozenset(cv.split()) if cv else frozenset()), frozenset())

    def params(self, fn):
        return [p for p in inner(fn) if p.get('kind') == 'ParmVarDecl']

    def fn_type(self, fn):
        q = fn['type'].get('desugaredQualType') or fn['type']['qualType']
        try:
            return T.parse(q)
        except T.TypeParseError as e:
            raise ExtractError('function type parse %r: %s' % (q, e))

    def ret_cxx(self, fn):
        """C++ return type term (unresolved)"""
        if fn['id'] in self.ret_override:
            return self.ret_override[fn['id']]
        ft = self.fn_type(fn)
        if ft[0] != 'f':
            raise ExtractError('not a function type: %r' % (ft,))
        r = ft[1]
        try:
            if 'decltype' in T.type_str(r):
                raise ExtractError('sugared')
            self.resolve(r)
        except ExtractError:
            # return type spelled through decltype/dependent sugar clang did not desugar: take it from the
            # instantiated return statements (reference-ness from the spelling)
            if r[0] == 'ref':
                r = ('ref', ('n', 'auto', frozenset()))
            else:
                r = ('n', 'auto', frozenset())
        base = r
        isref = False
        if base[0] == 'ref':
            isref = True
            base = base[1]
        if base[0] == 'n' and base[1] in ('auto', 'decltype(auto)'):
            # deduced: take the type of the first return statement's operand (plain auto never deduces a reference)
            rets = []
            self._find_returns(body_of(fn), rets)
            if not rets:
                r2 = T.parse('void')
            else:
                e = rets[0]
                et = T.parse(qt(e))
                et = T.strip_ref(et)
                if not isref:
                    et = T.strip_quals(et)
                    r2 = et
                else:
                    r2 = ('ref', T.addq(et, base[2]))
            self.ret_override[fn['id']] = r2
            return r2
        return r

    def _find_returns(self, n, acc):
        if n is None:
            return
        if n.get('kind') == 'ReturnStmt':
            ii = inner(n)
            if ii:
                acc.append(ii[0])
            return
        if n.get('kind') in ('LambdaExpr',) or n.get('kind') in REC_KINDS:
            return
        for c in inner(n):
            self._find_returns(c, acc)

    def returns_ref(self, fn):
        return self.ret_cxx(fn)[0] == 'ref'

    def need(self, fn):
        """register a callee; returns its C name"""
        rec = self.rec_of(fn)
        recname = self.tu.rec_name.get(rec['id']) if rec else None
        key = self.leaf_pred(fn, recname)
        if key:
            self.leaves.setdefault(fn['id'], (fn, key))
        else:
            self.needed.setdefault(fn['id'], fn)
        return self.fname(fn)

    def signature(self, fn):
        ps = []
        names = []
        if self.is_method(fn):
            ps.append(self.cdecl(self.this_ctype(fn), 'this_'))
            names.append('this_')
        seen_names = set()
        for i, p in enumerate(self.params(fn)):
            nm = p.get('name') or ('_unnamed%d' % i)
            if nm in seen_names:      # expanded parameter pack: every element carries the pack's name
                nm = '%s_%d' % (nm.split('__pk')[0], i)
            seen_names.add(nm)
            p['name'] = nm
            self.tu.decls[p['id']] = p
            ps.append(self.cdecl(self.ctype_of(qt(p)), nm))
            names.append(nm)
        if fn['kind'] == 'CXXConstructorDecl':
            rec = self.rec_of(fn)
            rt = ('c', 'struct ' + self.use_record(rec), frozenset())
        elif fn['kind'] == 'CXXDestructorDecl':
            rt = ('c', 'void', frozenset())
        else:
            rt = self.resolve(self.ret_cxx(fn))
            if rt[0] == 'c' and rt[2]:
                rt = ('c', rt[1], frozenset())   # top-level cv on by-value return is meaningless
        sig = self.cdecl(rt, self.fname(fn) + '(' + (', '.join(ps) or 'void') + ')')
        self.sig_info[fn['id']] = {'params': names, 'ret': self.cdecl(rt), 'cname': self.fname(fn)}
        return sig

    def emit_function(self, fn):
        self.cur_fn = fn
        self.pending_dtors[fn['id']] = []
        sig = self.signature(fn)
        body = body_of(fn)
        pre = ''
        post = ''
        if fn['kind'] == 'CXXConstructorDecl':
            rec = self.rec_of(fn)
            cn = self.use_record(rec)
            pre += '  struct %s self_; struct %s *this_ = &self_;\n' % (cn, cn)
            fields = {f.get('name'): f for f in inner(rec) if f.get('kind') == 'FieldDecl'}
            inited = set()
            for ci in inner(fn):
                if ci.get('kind') == 'CXXCtorInitializer':
                    if 'anyInit' in ci:
                        nm = ci['anyInit'].get('name') or (self.tu.decls.get(ci['anyInit'].get('id'), {}).get('name'))
                        if not nm:
                            raise ExtractError('constructor initialiser for an unnamed member')
                        if self.is_ref_type(qt(ci['anyInit'])):
                            ii0 = inner(ci)
                            pre += '  this_->%s = &(%s);\n' % (nm, self.E(ii0[0]))
                            inited.add(nm)
                            continue
                        inited.add(nm)
                        ii = inner(ci)
                        ie = ii[0] if ii else None
                        if ie is not None and ie.get('kind') == 'CXXDefaultInitExpr' and not inner(ie):
                            # in-class default member initialiser: the expression lives on the FieldDecl
                            fd = fields.get(nm) or self.tu.decls.get(ci['anyInit'].get('id'), {})
                            fi = inner(fd)
                            ie = fi[-1] if fi else None
                        hook = self.opts.get('field_default_init')
                        if hook and (ie is None or (ie.get('kind') in ('CXXConstructExpr',) and not inner(ie))):
                            r = hook(self, self.field_lvalue('this_', nm, qt(ci['anyInit'])), qt(ci['anyInit']))
                            if r:
                                pre += '  ' + r + '\n'
                                continue
                        pre += '  ' + self.init_field(self.field_lvalue('this_', nm, qt(ci['anyInit'])), qt(ci['anyInit']), ie) + '\n'
                    elif 'baseInit' in ci:
                        ii = inner(ci)
                        bt = ci['baseInit'].get('desugaredQualType') or ci['baseInit']['qualType']
                        brec = self.tu.find_record(bt)
                        if brec is not None and not self.rec_is_empty(brec):
                            pre += '  this_->base0 = %s;\n' % self.E(ii[0])
                    else:
                        raise ExtractError('unknown ctor initializer')
            # default member initializers of fields not mentioned
            for nm, f in fields.items():
                if nm not in inited:
                    fi = [c for c in inner(f)]
                    hook = self.opts.get('field_default_init')
                    if hook and not (fi and f.get('hasInClassInitializer')):
                        r = hook(self, self.field_lvalue('this_', nm, qt(f)), qt(f))
                        if r:
                            pre += '  ' + r + '\n'
                            continue
                    if fi and f.get('hasInClassInitializer'):
                        pre += '  ' + self.init_field(self.field_lvalue('this_', nm, qt(f)), qt(f), fi[-1]) + '\n'
            post = '  return self_;\n'
            self.lowerings['L-ctor'] += 1
        text = self.S(body, 1, fn)
        if self.pending_dtors.get(fn['id']):
            last = inner(body)[-1] if inner(body) else {}
            if last.get('kind') != 'ReturnStmt':
                t2 = text.rstrip()
                text = t2[:-1] + self.dtor_calls(fn, 2) + '  }\n'
        # strip outer braces of the compound to insert pre/post
        assert text.lstrip().startswith('{')
        inner_text = text.strip()[1:-1]
        out = '{\n' + pre + inner_text.rstrip('\n') + '\n' + post + '}\n'
        self.sig_text[fn['id']] = sig
        self.fn_text[fn['id']] = out
        return sig, out

    def field_lvalue(self, obj, nm, ftype):
        """lvalue of a member being initialised in a constructor; const members are written through a
        non-const view (initialisation, not assignment)"""
        t = self.ctype_of(ftype)
        if t[0] in ('c', 'p') and 'const' in t[2]:
            nt = (t[0], t[1], frozenset(q for q in t[2] if q != 'const'))
            return '(*(%s)&%s->%s)' % (self.cdecl(('p', nt, frozenset())), obj, nm)
        return '%s->%s' % (obj, nm)

    def is_zero_init(self, e):
        k = e.get('kind')
        if k in ('ImplicitValueInitExpr', 'CXXNullPtrLiteralExpr', 'GNUNullExpr'):
            return True
        if k == 'IntegerLiteral':
            return e.get('value') == '0'
        if k == 'FloatingLiteral':
            return str(e.get('value')) in ('0', '0.0')
        if k in ('ImplicitCastExpr', 'ParenExpr', 'CStyleCastExpr', 'InitListExpr', 'ConstantExpr') and inner(e) is not None:
            return all(self.is_zero_init(x) for x in inner(e))
        return False

    def init_field(self, lhs, ftype, e):
        if e is None:
            return '/* %s default-initialised */' % lhs
        k = e['kind']
        if k in ('CXXConstructExpr',) and not inner(e) and self.ctor_is_trivial_default(e):
            return '/* %s trivially default-constructed */' % lhs
        if k == 'InitListExpr':
            ii = inner(e)
            t = self.ctype_of(ftype)
            if t[0] == 'a':
                # array field with initializer list: zero-fill then assign listed elements
                s = '__builtin_memset((void*)%s, 0, sizeof(%s));' % (lhs, lhs)
                for i, x in enumerate(ii):
                    if x.get('kind') == 'ImplicitValueInitExpr':
                        continue
                    s += ' %s[%d] = %s;' % (lhs, i, self.E(x))
                return s
            if len(ii) == 1:
                return '%s = %s;' % (lhs, self.E(ii[0]))
            if len(ii) == 0:
                return '__builtin_memset((void*)&%s, 0, sizeof(%s));' % (lhs, lhs)
            if all(self.is_zero_init(x) for x in ii):
                # aggregate initialisation with nothing but zeros / value-initialised members, e.g. `T data{ 0 };`
                return '__builtin_memset((void*)&%s, 0, sizeof(%s));' % (lhs, lhs)
            raise ExtractError('init list for field ' + lhs)
        hook = self.opts.get('field_init')
        if hook:
            r = hook(self, lhs, ftype, e)
            if r is not None:
                return r
        return '%s = %s;' % (lhs, self.E(e))

    def ctor_is_trivial_default(self, e):
        return True

    # ------------------------------------------------------------------ statements
    def S(self, n, ind, fn):
        # statements that a model hoists out of an expression (the loop of std::find_if / any_of ...) are emitted just before the
        # statement the expression belongs to; only where that keeps the order of evaluation (see hoist())
        k0 = n['kind']
        if k0 in ('DeclStmt', 'ReturnStmt', 'IfStmt') or k0.endswith('Expr') or k0.endswith('Operator'):
            saved = getattr(self, 'pre_stmts', None)
            self.pre_stmts = []
            self.cur_stmt = n
            self.cur_fn_stmt = fn
            self.cur_ind = ind
            try:
                text = self.S0(n, ind, fn)
                pre = ''.join(self.pre_stmts)
            finally:
                self.pre_stmts = saved
            if self.opts.get('exc_model'):
                text += self.exc_check(n, ind, fn)
            return pre + text
        if self.opts.get('exc_model') and k0 in ('ForStmt', 'WhileStmt', 'DoStmt', 'CXXForRangeStmt'):
            hdr = [c for c in (n.get('inner') or [])[:-1] if isinstance(c, dict) and c]
            if any(self.contains_throwing_call(c) for c in hdr):
                raise ExtractError('L-throw: call in a loop header')
        saved = getattr(self, 'pre_stmts', None)
        self.pre_stmts = None      # loop headers etc.: no hoisting target
        try:
            return self.S0(n, ind, fn)
        finally:
            self.pre_stmts = saved

    # ---- L-throw (opt exc_model): an abort surfaced as an exception.  A callee that throws is modelled as returning with the ghost
    # flag g_exc set (leaf contracts decide who may throw); after every statement that contains a call the function leaves at once
    # if the flag is set, running the destructors of the guards constructed so far (what unwinding does) and returning an arbitrary
    # value.  The rest of an expression after a throwing call is still evaluated (on arbitrary values): calls in conditions of
    # if / loops are therefore refused (fail closed), so no branch is taken on the strength of a call that threw.
    def is_call_that_may_throw(self, x):
        if x.get('kind') not in ('CallExpr', 'CXXMemberCallExpr', 'CXXOperatorCallExpr'):
            return False
        c0 = inner(x)[0] if inner(x) else {}
        while c0.get('kind') in ('ImplicitCastExpr', 'ParenExpr') and inner(c0):
            c0 = inner(c0)[0]
        rd = c0.get('referencedDecl') or ({'id': c0.get('referencedMemberDecl')} if c0.get('referencedMemberDecl') else None)
        if rd is None:
            return True        # call through a pointer / callable object
        return rd.get('id') in self.tu.funcs

    def contains_throwing_call(self, n):
        if n.get('kind') == 'LambdaExpr':
            return False
        if self.is_call_that_may_throw(n):
            return True
        return any(self.contains_throwing_call(c) for c in inner(n))

    def exc_check(self, n, ind, fn):
        k = n['kind']
        p = '  ' * ind
        if k == 'IfStmt':
            parts = [c for c in (n.get('inner') or []) if isinstance(c, dict)]
            if not n.get('isConstexpr') and self.contains_throwing_call(parts[1 if n.get('hasInit') else 0]):
                raise ExtractError('L-throw: call in the condition of an if statement')
            return ''
        if k == 'ReturnStmt' or not self.contains_throwing_call(n):
            return ''
        self.lowerings['L-throw(leave the function when a callee has thrown: guards constructed so far run)'] += 1
        out = p + 'if (g_exc)\n' + p + '{\n' + self.dtor_calls(fn, ind + 1)
        rt = self.ret_cxx(fn)
        if rt[0] == 'n' and rt[1] == 'void':
            out += p + '  return;\n'
        elif self.returns_ref(fn):
            out += p + '  return (void *)0;\n'
        else:
            out += p + '  { %s exc_ret_; return exc_ret_; }\n' % self.ct(T.type_str(T.strip_quals(rt)))
        return out + p + '}\n'

    def hoist(self, call):
        """may the model of `call` emit statements before the current statement?  Only if the call is evaluated exactly once, before
        anything else with an effect in that statement: every other call in the statement must be a pure range accessor"""
        if getattr(self, 'pre_stmts', None) is None:
            raise ExtractError('algorithm call in a position where its loop cannot be hoisted')
        st = self.cur_stmt
        if st['kind'] == 'IfStmt':
            parts = [c for c in (st.get('inner') or []) if isinstance(c, dict)]
            st = parts[1 if st.get('hasInit') else 0]
        skip = id(call)

        def walk(x):
            if x is call:
                return
            if x.get('kind') in ('CallExpr', 'CXXMemberCallExpr', 'CXXOperatorCallExpr'):
                nm = ''
                c0 = inner(x)[0] if inner(x) else {}
                while c0.get('kind') in ('ImplicitCastExpr', 'ParenExpr') and inner(c0):
                    c0 = inner(c0)[0]
                nm = c0.get('name') or (c0.get('referencedDecl') or {}).get('name') or ''
                if nm not in ('begin', 'end', 'cbegin', 'cend', 'operator==', 'operator!='):
                    raise ExtractError('algorithm call inside a larger expression with other calls (%s)' % nm)
            if x.get('kind') in ('BinaryOperator',) and x.get('opcode') in ('&&', '||', ','):
                raise ExtractError('algorithm call under a short-circuit operator')
            if x.get('kind') == 'ConditionalOperator':
                raise ExtractError('algorithm call under a conditional operator')
            for c in inner(x):
                walk(c)
        walk(st)
        return self.cur_fn_stmt, self.cur_ind

    def S0(self, n, ind, fn):
        k = n['kind']
        ii = inner(n)
        p = '  ' * ind
        if k == 'CompoundStmt':
            return p + '{\n' + ''.join(self.S(c, ind + 1, fn) for c in ii) + p + '}\n'
        if k == 'NullStmt':
            return p + ';\n'
        if k == 'DeclStmt':
            return ''.join(self.D(d, ind, fn) for d in ii)
        if k == 'IfStmt':
            return self.S_if(n, ind, fn)
        if k == 'ReturnStmt':
            pend = self.opts.get('pre_return')
            extra = pend(self, fn, ind) if pend else ''
            extra += self.dtor_calls(fn, ind)
            if not ii:
                return extra + p + 'return;\n'
            e = ii[0]
            self.mark_elided(e)
            nv = self.nrvo_var(e)
            if nv is not None:
                # named return value optimisation as marked by clang: the local IS the return object
                # (no move construction, no destructor run for the local)
                self.lowerings['L-dtor(NRVO: local returned in place)'] += 1
                return extra + p + 'return %s;\n' % nv
            if self.returns_ref(fn):
                if extra:
                    # the returned reference is bound before the guards' destructors run
                    return p + '{ void *ret_ = (void *)%s;\n' % self.addr(self.E(e)) + extra + p + 'return ret_; }\n'
                return p + 'return &(%s);\n' % self.E(e)
            rt = self.ret_cxx(fn)
            if rt[0] == 'n' and rt[1] == 'void':
                return p + self.E(e) + ';\n' + extra + p + 'return;\n'
            if extra:
                t = self.ct(T.type_str(T.strip_quals(rt)))
                return p + '{ %s ret_ = %s;\n' % (t, self.E(e)) + extra + p + 'return ret_; }\n'
            return p + 'return %s;\n' % self.E(e)
        if k == 'ForStmt':
            # inner: init, condvar, cond, inc, body (empty dicts filtered out -> use raw list)
            raw = n.get('inner') or []
            init, condvar, cond, inc, body = (raw + [{}] * 5)[:5]
            if condvar:
                raise ExtractError('for with condition variable')
            # the induction variable (first variable declared by the for-init) is available to loop contracts as $LV,
            # so that renaming it in the source does not touch the contract
            lv = ''
            if init and init.get('kind') == 'DeclStmt':
                vds = [c for c in inner(init) if c.get('kind') == 'VarDecl']
                lv = vds[0].get('name', '') if vds else ''
            lc = self.loop_contract(fn, lv)
            s = p + '{\n'
            if init:
                s += self.S(init, ind + 1, fn)
            s += p + '  for (; %s; %s)\n' % (self.E(cond) if cond else '1', self.E(inc) if inc else '')
            s += lc
            s += self.S(body, ind + 1, fn) if body.get('kind') == 'CompoundStmt' else p + '  {\n' + self.S(body, ind + 2, fn) + p + '  }\n'
            s += p + '}\n'
            return s
        if k == 'WhileStmt':
            cond, body = ii[0], ii[1]
            lc = self.loop_contract(fn)
            return p + 'while (%s)\n' % self.E(cond) + lc + (self.S(body, ind, fn) if body['kind'] == 'CompoundStmt' else p + '{\n' + self.S(body, ind + 1, fn) + p + '}\n')
        if k == 'BreakStmt':
            return p + 'break;\n'
        if k == 'ContinueStmt':
            return p + 'continue;\n'
        if k == 'CXXForRangeStmt':
            hook = self.opts.get('range_for')
            if hook:
                return hook(self, n, ind, fn)
            raise ExtractError('range-for without model')
        if k in ('CXXTryStmt', 'CXXThrowExpr', 'SwitchStmt', 'DoStmt', 'GotoStmt', 'LabelStmt'):
            raise ExtractError('unsupported statement ' + k)
        return p + self.E(n) + ';\n'

    def dtor_calls(self, fn, ind):
        """L-dtor: destructor calls for the function-scope locals with non-trivial destructors that are on the
        lowering list (detail::scope_exit), in reverse order of construction"""
        p = '  ' * ind
        out = ''
        for (vn, dname, ctype) in reversed(self.pending_dtors.get(fn['id'], [])):
            if self.opts.get('dtor_ghost'):
                out += p + 'g_armed_guards--;\n'
            out += p + '%s((%s)&%s); /* L-dtor: ~%s at scope exit */\n' % (dname, ctype, vn, vn)
        return out

    def register_local_dtor(self, d, rec0, fn, ind):
        disp = self.tu.rec_name.get(rec0['id'], '')
        if not re.match(r'^(rlbox::)?(detail::)?scope_exit<', disp.replace('rlbox::detail::', '')) and 'scope_exit<' not in disp:
            return False
        if ind != 2:
            raise ExtractError('scope_exit local %s is not at function scope (L-dtor lowers function-scope guards only)' % d['name'])
        dt = None
        for fid, f in self.tu.funcs.items():
            if f['kind'] == 'CXXDestructorDecl' and self.tu.parent_rec.get(fid, {}).get('id') == rec0['id']:
                dt = f
        if dt is None:
            raise ExtractError('destructor of %s not instantiated' % disp)
        dname = self.need(dt)
        self.pending_dtors.setdefault(fn['id'], []).append((d['name'], dname, self.cdecl(self.this_ctype(dt))))
        self.lowerings['L-dtor(scope_exit guard)'] += 1
        return True

    def nrvo_var(self, e):
        if e.get('kind') not in ('CXXConstructExpr',):
            return None
        ii = inner(e)
        if len(ii) != 1:
            return None
        c = ii[0]
        while c.get('kind') in ('ImplicitCastExpr', 'ParenExpr') and inner(c):
            c = inner(c)[0]
        if c.get('kind') == 'DeclRefExpr' and c['referencedDecl'].get('kind') == 'VarDecl':
            d = self.tu.decls.get(c['referencedDecl']['id'])
            if d is not None and d.get('nrvo'):
                return d['name']
        return None

    def loop_contract(self, fn, lv='', lr=''):
        # lv: induction variable ($LV); lr: pointer to the modelled range the loop walks ($LR) - loop contracts written with these
        # placeholders do not depend on how the loop is spelled (index loop, range-for, std::find_if, ...)
        self.loop_ordinal = getattr(self, 'loop_ordinal', {})
        o = self.loop_ordinal.get(fn['id'], 0)
        self.loop_ordinal[fn['id']] = o + 1
        return '/*LOOP:%s:%d:%s:%s*/\n' % (self.fname(fn), o, lv, lr)

    def S_if(self, n, ind, fn):
        p = '  ' * ind
        raw = [c for c in (n.get('inner') or [])]
        parts = [c for c in raw if isinstance(c, dict)]
        # layout: [init?] cond then [else]
        out = ''
        idx = 0
        opened = False
        if n.get('hasInit'):
            out += p + '{\n'
            out += self.S(parts[0], ind + 1, fn)
            idx = 1
            opened = True
        if n.get('hasVar'):
            raise ExtractError('if with condition variable')
        cond = parts[idx]
        then = parts[idx + 1] if len(parts) > idx + 1 else None
        els = parts[idx + 2] if len(parts) > idx + 2 else None
        ind2 = ind + 1 if opened else ind
        p2 = '  ' * ind2
        if n.get('isConstexpr'):
            v = self.const_value(cond)
            if v is None:
                raise ExtractError('if constexpr condition not folded')
            taken = then if v else els
            self.lowerings['D-const(if constexpr)'] += 1
            out += p2 + '/* if constexpr (%s): only the live branch exists in the instantiation */\n' % ('true' if v else 'false')
            if taken is not None and taken:
                out += self.S(taken, ind2, fn)
        else:
            out += p2 + 'if (%s)\n' % self.E(cond)
            out += self.block(then, ind2, fn)
            if els is not None and els:
                out += p2 + 'else\n' + self.block(els, ind2, fn)
        if opened:
            out += p + '}\n'
        return out

    def block(self, n, ind, fn):
        if n.get('kind') == 'CompoundStmt':
            return self.S(n, ind, fn)
        p = '  ' * ind
        return p + '{\n' + self.S(n, ind + 1, fn) + p + '}\n'

    def const_value(self, e):
        k = e.get('kind')
        if k == 'ConstantExpr' and 'value' in e:
            v = e['value']
            if v == 'true':
                return 1
            if v == 'false':
                return 0
            try:
                return int(v)
            except ValueError:
                return None
        if k == 'CXXBoolLiteralExpr':
            return 1 if e['value'] else 0
        if k == 'IntegerLiteral':
            return int(e['value'])
        if k in ('ImplicitCastExpr', 'ParenExpr', 'ConstantExpr', 'SubstNonTypeTemplateParmExpr'):
            ii = inner(e)
            return self.const_value(ii[0]) if ii else None
        return None

    def D(self, d, ind, fn):
        p = '  ' * ind
        k = d['kind']
        if k in ('StaticAssertDecl', 'TypeAliasDecl', 'UsingDirectiveDecl', 'TypedefDecl', 'UsingDecl', 'EmptyDecl'):
            self.lowerings['D-static(%s)' % k] += 1
            if k in ('TypeAliasDecl', 'TypedefDecl') and d.get('name'):
                self.local_aliases = getattr(self, 'local_aliases', {})
                tt = d.get('type', {})
                self.local_aliases[norm_name(d['name'])] = tt.get('desugaredQualType') or tt.get('qualType')
            return ''
        if k in REC_KINDS:
            return ''
        if k != 'VarDecl':
            raise ExtractError('unhandled decl ' + k)
        self.tu.decls[d['id']] = d
        t = qt(d)
        name = d['name']
        init = inner(d)
        init = init[-1] if init and d.get('init') else None
        if init is not None:
            self.mark_elided(init)
            lam = self.find_lambda_expr(init)
            if lam is not None:
                self.prepare_lambda(lam)
        hook = self.opts.get('local_var')
        if hook:
            r = hook(self, d, t, init, ind, fn)
            if r is not None:
                return r
        tparsed = T.parse(t)
        is_const_scalar = tparsed[0] == 'n' and 'const' in tparsed[2]
        if is_const_scalar and not d.get('constexpr'):
            # a const local of class type is an ordinary (copied) object, not a compile-time constant
            try:
                rct = self.ctype_of(t)
                if rct[0] == 'c' and rct[1].startswith('struct '):
                    is_const_scalar = False
            except ExtractError:
                pass
        if (d.get('constexpr') or is_const_scalar) and init is not None:
            # constexpr locals: emit the folded value when available, otherwise try the initialiser
            v = self.const_value(init)
            if v is not None:
                return p + '%s = %s;\n' % (self.cdecl(self.ctype_of(t), name), v)
            try:
                return p + '%s = %s;\n' % (self.cdecl(self.ctype_of(t), name), self.E(init))
            except ExtractError as ex:
                if not d.get('constexpr'):
                    raise       # a const local with a run-time initialiser: the initialiser itself is what cannot be extracted
                self.unavailable = getattr(self, 'unavailable', set())
                self.unavailable.add(d['id'])
                return p + '/* const(expr) %s: initialiser is compile-time only; any run-time use fails closed */\n' % name
        if d.get('storageClass') == 'static':
            # L-static: a function-local static (or thread_local) of scalar / pointer type holds whatever earlier calls left in it.
            # One call is verified for an ARBITRARY value at entry (uninitialised automatic object = nondeterministic in cbmc);
            # the initialiser only describes the first call and is dropped.  A proof under this lowering holds for every history;
            # a failure may be due to an invariant other functions keep, so unit.py reports it as undecided, never as a violation.
            sct = self.ctype_of(t)
            if sct[0] not in ('c', 'p') or (sct[0] == 'c' and sct[1].startswith('struct ')):
                raise ExtractError('static local ' + name + ' of non-scalar type')
            self.lowerings['L-static(function-local static %s: arbitrary value at entry)' % name] += 1
            return p + self.cdecl(sct, name) + '; /* L-static: arbitrary at entry */\n'
        ct = self.ctype_of(t)
        if self.is_ref_type(t):
            return p + '%s = &(%s);\n' % (self.cdecl(ct, name), self.E(init))
        if not d.get('nrvo'):
            tq = T.strip_quals(tparsed)
            rec0 = self.tu.find_record(tq[1]) if tq[0] == 'n' else None
            if rec0 is not None:
                dd = rec0.get('definitionData', {}).get('dtor', {})
                if dd and not dd.get('trivial') and not dd.get('irrelevant'):
                    hook = self.opts.get('local_dtor')
                    if not (self.register_local_dtor(d, rec0, fn, ind) or (hook and hook(self, d, rec0, fn))):
                        raise ExtractError('local %s of type %s has a non-trivial destructor (no lowering)' % (name, t))
                    if self.opts.get('dtor_ghost'):
                        # ghost count of armed scope-exit guards: incremented where the guard object comes into being,
                        # decremented where L-dtor runs its destructor; abort points and callee stubs can then require that a
                        # guard is armed (what unwinding would run) instead of merely counting what was already announced
                        guard_ghost = p + 'g_armed_guards++; /* L-dtor ghost: guard %s armed */\n' % name
        gg = locals().get('guard_ghost', '')
        if init is None:
            return p + self.cdecl(ct, name) + ';\n' + gg
        if init['kind'] in ('CXXConstructExpr', 'CXXTemporaryObjectExpr') and self.ctor_noop(init):
            return p + self.cdecl(ct, name) + '; /* trivial default construction */\n' + gg
        if init['kind'] == 'InitListExpr' and ct[0] in ('a',) or (init['kind'] == 'InitListExpr' and ct[0] == 'c' and ct[1].startswith('struct')):
            return p + self.cdecl(ct, name) + ' = ' + self.init_list(init) + ';\n' + gg
        if ct[0] == 'a':
            raise ExtractError('array local with non-list init ' + name)
        return p + '%s = %s;\n' % (self.cdecl(ct, name), self.E(init)) + gg

    def init_list(self, e):
        parts = []
        for x in inner(e):
            if x.get('kind') == 'ImplicitValueInitExpr':
                parts.append('0')
            elif x.get('kind') == 'InitListExpr':
                parts.append(self.init_list(x))
            else:
                parts.append(self.E(x))
        return '{ ' + ', '.join(parts or ['0']) + ' }'

    def ctor_noop(self, e):
        """default construction that initialises nothing (defaulted/implicit trivial default ctor)"""
        if inner(e):
            return False
        rec = self.tu.find_record(qt(e)) if not qt(e).startswith('(lambda') else None
        if rec is None:
            return False
        dd = rec.get('definitionData', {}).get('defaultCtor', {})
        if dd.get('trivial'):
            return True
        # user-provided or non-trivial -> must be emitted
        return False

    # ------------------------------------------------------------------ expressions
    def E(self, n):
        k = n['kind']
        m = getattr(self, 'E_' + k, None)
        if m is None:
            raise ExtractError('unhandled expression kind ' + k)
        return m(n)

    def cast_generic(self, n):
        ck = n.get('castKind')
        sub = inner(n)[-1]
        ty = qt(n)
        if ck == 'LValueToRValue' and self.opts.get('volatile_read_check'):
            # goto-instrument --nondet-volatile replaces the read by a fresh value and with it the dereference that carried
            # cbmc's pointer checks: keep the validity of the location as an explicit obligation
            try:
                tq = T.parse(qt(sub))
            except T.TypeParseError:
                tq = None
            if tq is not None and tq[0] in ('n', 'p') and 'volatile' in tq[-1]:
                self.lowerings['volatile read: explicit r_ok obligation'] += 1
                a = self.addr(self.E(sub))
                return ('(*({ __typeof__(%s) __vp = %s; __CPROVER_assert(__CPROVER_r_ok((const void *)__vp, sizeof(*__vp)), '
                        '"read of a volatile (sandbox) location lies inside a readable object"); __vp; }))' % (a, a))
        if ck in ('LValueToRValue', 'FunctionToPointerDecay', 'ArrayToPointerDecay'):
            return self.E(sub)
        if ck == 'NoOp':
            if n.get('valueCategory') in ('lvalue', 'xvalue'):
                return self.E(sub)
            return '((%s)(%s))' % (self.ct(ty), self.E(sub))
        if ck == 'ConstructorConversion' or ck == 'UserDefinedConversion':
            return self.E(sub)
        if ck in ('UncheckedDerivedToBase', 'DerivedToBase', 'BaseToDerived'):
            self.lowerings['L-this(base<->derived pointer cast)'] += 1
            self.check_base_cast(n, sub)
            if n.get('valueCategory') in ('lvalue', 'xvalue'):
                return '(*(%s *)&(%s))' % (self.ct(ty), self.E(sub))
            if self.ctype_of(ty)[0] != 'p':
                raise ExtractError('class prvalue base cast')
            return '((%s)(%s))' % (self.ct(ty), self.E(sub))
        if ck == 'NullToPointer':
            return '((%s)0)' % self.ct(ty)
        if ck == 'ToVoid':
            return '((void)(%s))' % self.E(sub)
        if ck in ('IntegralCast', 'IntegralToBoolean', 'PointerToBoolean', 'PointerToIntegral', 'IntegralToPointer',
                  'BitCast', 'FloatingCast', 'IntegralToFloating', 'FloatingToIntegral', 'FloatingToBoolean',
                  'BooleanToSignedIntegral'):
            t = self.ctype_of(ty)
            if t[0] == 'c' and t[1].startswith('struct'):
                raise ExtractError('scalar cast to class type')
            return '((%s)(%s))' % (self.cdecl(self._strip_top_quals(t)), self.E(sub))
        if ck == 'LValueBitCast':
            return '(*(%s *)&(%s))' % (self.ct(ty), self.E(sub))
        if ck == 'Dependent':
            raise ExtractError('dependent cast')
        raise ExtractError('unhandled cast kind %s' % ck)

    def _strip_top_quals(self, t):
        if t[0] == 'c':
            return ('c', t[1], frozenset())
        if t[0] == 'p':
            return ('p', t[1], frozenset())
        return t

    def check_base_cast(self, n, sub):
        # only single inheritance with the base at offset 0 (empty or first base) is lowered; checked by use_record
        return

    E_ImplicitCastExpr = cast_generic
    E_CXXStaticCastExpr = cast_generic
    E_CXXReinterpretCastExpr = cast_generic
    E_CXXConstCastExpr = cast_generic
    E_CStyleCastExpr = cast_generic

    def E_CXXFunctionalCastExpr(self, n):
        return self.cast_generic(n)

    def E_DeclRefExpr(self, n):
        rd = n['referencedDecl']
        rk = rd['kind']
        if rk in FUNC_KINDS:
            fn = self.tu.func(rd['id'])
            if fn is None:
                return self.extern_function_ref(rd, n)
            return self.need(fn)
        if rk == 'EnumConstantDecl':
            v, en = self.tu.enum_consts.get(rd['id'], (None, None))
            if v is None:
                raise ExtractError('enum constant %s not found' % rd.get('name'))
            return '((%s)%d)' % (self.enum_ctype(en), v)
        if rk in ('VarTemplateSpecializationDecl',):
            return self.constexpr_var_fact(rd, n)
        if rk in ('VarDecl', 'ParmVarDecl', 'BindingDecl'):
            crec = self.rec_of(self.cur_fn) if self.cur_fn is not None else None
            if crec is not None and crec['id'] in self.closures and rd['id'] in self.closures[crec['id']]:
                fnm, byref = self.closures[crec['id']][rd['id']]
                self.lowerings['L-lambda(captured variable -> closure field)'] += 1
                return '(*this_->%s)' % fnm if byref else '(this_->%s)' % fnm
            d = self.tu.decls.get(rd['id'])
            if d is None and rk == 'VarDecl':
                # a namespace-scope variable declared outside namespace rlbox (e.g. by an embedder macro)
                d, _sc = self.tu.find_decl_anywhere(rd['id'])
                if d is not None and d.get('kind') == 'VarDecl' and 'mangledName' in d:
                    self.tu.decls[rd['id']] = d
                    return self.global_ref(d)
                d = None
            if d is None:
                raise ExtractError('reference to unknown variable %s' % rd.get('name'))
            if rd['id'] in getattr(self, 'unavailable', ()):
                raise ExtractError('constexpr local %s needed at run time but not foldable' % rd['name'])
            if rk == 'VarDecl' and (d.get('storageClass') == 'static' or rd['id'] in self.tu.var_parent or self.is_global(d)):
                return self.global_ref(d)
            hook = self.opts.get('var_ref')
            if hook:
                r = hook(self, d, n)
                if r is not None:
                    return r
            name = d['name']
            if self.is_ref_type(qt(d)):
                return '(*%s)' % name
            return name
        raise ExtractError('DeclRefExpr to ' + rk)

    def constexpr_var_fact(self, rd, n):
        """B-fact: value of a constexpr variable template specialisation that the instantiated AST references
        at run time (e.g. std::extent_v<long[4], 0>); computed by the real compiler (g++) in the facts program"""
        t = self.ctype_of(qt(n))
        if not (t[0] == 'c' and not t[1].startswith('struct')):
            raise ExtractError('constexpr variable template of non-scalar type: %s' % rd.get('name'))
        d = self.tu.decls.get(rd['id'])
        scope = self.tu.qual.get(rd['id'])
        if d is None:
            d, scope = self.tu.find_decl_anywhere(rd['id'])
        if d is None:
            raise ExtractError('constexpr variable template %s: declaration not found' % rd.get('name'))
        args = []
        for c in inner(d):
            if c.get('kind') == 'TemplateArgument':
                if 'type' in c:
                    args.append(c['type']['qualType'])
                elif 'value' in c:
                    args.append(str(c['value']))
                else:
                    ii = inner(c)
                    v = self.const_value(ii[0]) if ii else None
                    if v is None:
                        raise ExtractError('template argument of %s not printable' % rd.get('name'))
                    args.append(str(v))
        expr = '%s%s<%s>' % (scope, d['name'], ', '.join(args))
        key = fact_name(expr)
        self.facts.setdefault(key, (expr, self.cdecl(self._strip_top_quals(t))))
        if self.facts[key][0] != expr:
            raise ExtractError('two constant facts share the name %s: %r and %r' % (key, self.facts[key][0], expr))
        self.lowerings['B-fact(constexpr variable template)'] += 1
        return key

    def is_global(self, d):
        return 'mangledName' in d and d.get('kind') == 'VarDecl' and not self.is_local(d)

    def is_local(self, d):
        # locals have no mangledName in the JSON dump unless static
        return 'mangledName' not in d

    def global_ref(self, d):
        if d.get('constexpr') or 'const' in (qt(d) or ''):
            ini = [c for c in inner(d) if c.get('kind') not in ('TemplateArgument',)]
            if d.get('init') and ini:
                v = self.const_value(ini[-1])
                t = self.ctype_of(qt(d))
                if v is not None and t[0] == 'c' and not t[1].startswith('struct'):
                    self.lowerings['D-const(static constexpr member)'] += 1
                    return self.int_lit(v, t)
            prec = self.tu.var_parent.get(d['id'])
            t = self.ctype_of(qt(d))
            if prec is not None and d.get('constexpr') and t[0] == 'c' and not t[1].startswith('struct'):
                disp = self.tu.rec_name.get(prec['id'])
                if disp and '?' not in disp:
                    expr = '%s::%s' % (disp, d['name'])
                    key = fact_name(expr)
                    self.facts.setdefault(key, (expr, self.cdecl(self._strip_top_quals(t))))
                    if self.facts[key][0] != expr:
                        raise ExtractError('two constant facts share the name %s: %r and %r' % (key, self.facts[key][0], expr))
                    self.lowerings['B-fact(static constexpr member)'] += 1
                    return key
        name = san(d.get('mangledName') or d['name'])
        hook = self.opts.get('global_ref')
        if hook:
            r = hook(self, d, name)
            if r is not None:
                return r
        if name not in self.globals_used:
            t = self.ctype_of(qt(d))
            self.globals_used[name] = (self.cdecl(t, name), d)
        self.lowerings['L-rec(static member -> global)'] += 1
        return name

    def extern_function_ref(self, rd, n):
        raise ExtractError('reference to function without body: %s' % rd.get('name'))

    def E_ConstantExpr(self, n):
        if 'value' in n:
            v = n['value']
            t = self.ctype_of(qt(n))
            if v in ('true', 'false'):
                return '((_Bool)%d)' % (1 if v == 'true' else 0)
            if re.match(r'^-?\d+$', v):
                if t[0] == 'c' and not t[1].startswith('struct'):
                    return self.int_lit(int(v), t)
        return self.E(inner(n)[0])

    def int_lit(self, v, t):
        ct = self.cdecl(self._strip_top_quals(t))
        if v < 0:
            return '((%s)(%dLL))' % (ct, v) if v > -(1 << 63) else '((%s)(-9223372036854775807LL-1))' % ct
        suf = 'ULL' if v > 0x7fffffffffffffff else ('LL' if v > 0x7fffffff else '')
        if v > 0x7fffffff and v <= 0xffffffff and 'unsigned' in ct:
            suf = 'U'
        return '((%s)%d%s)' % (ct, v, suf)

    def E_IntegerLiteral(self, n):
        return self.int_lit(int(n['value']), self.ctype_of(qt(n)))

    def E_CharacterLiteral(self, n):
        return self.int_lit(int(n['value']), self.ctype_of(qt(n)))

    def E_FloatingLiteral(self, n):
        return '((%s)%s)' % (self.ct(qt(n)), n['value'])

    def E_CXXBoolLiteralExpr(self, n):
        return '((_Bool)%d)' % (1 if n['value'] else 0)

    def E_CXXNullPtrLiteralExpr(self, n):
        return '((void*)0)'

    def E_StringLiteral(self, n):
        return n['value']

    def E_ParenExpr(self, n):
        return '(' + self.E(inner(n)[0]) + ')'

    def E_BinaryOperator(self, n):
        a, b = inner(n)
        op = n['opcode']
        if op == ',':
            return '(%s, %s)' % (self.E(a), self.E(b))
        if op == '=':
            return '(%s = %s)' % (self.E(a), self.assign_rhs(a, b))
        if op in ('.*', '->*'):
            raise ExtractError('member pointer operator')
        return '(%s %s %s)' % (self.E(a), op, self.E(b))

    def assign_rhs(self, lhs, rhs):
        return self.E(rhs)

    def E_CompoundAssignOperator(self, n):
        a, b = inner(n)
        return '(%s %s %s)' % (self.E(a), n['opcode'], self.E(b))

    def addr(self, s):
        """address of the lvalue text s.  With opt 'amp_star', &(*X) is emitted as X (C11 6.5.3.2p3: neither operator is
        evaluated) so that goto-instrument --nondet-volatile does not turn the operand of & into a nondet value."""
        if self.opts.get('amp_star'):
            t = s.strip()
            while t.startswith('(') and _match_paren(t, 0) == len(t) - 1:
                t = t[1:-1].strip()
            if t.startswith('*'):
                r = t[1:].strip()
                if (r.startswith('(') and _match_paren(r, 0) == len(r) - 1) or re.match(r'^[A-Za-z_]\w*$', r):
                    return '(%s)' % r
                m = re.match(r'^[A-Za-z_]\w*\(', r)
                if m and _match_paren(r, m.end() - 1) == len(r) - 1:
                    return '(%s)' % r
        return '(&(%s))' % s

    def E_UnaryOperator(self, n):
        a = inner(n)[0]
        op = n['opcode']
        if op == '&':
            # address-of: of an lvalue -> &lvalue ; of a function -> function
            return self.addr(self.E(a))
        if op == '*':
            return '(*%s)' % self.E(a)
        if op in ('__extension__',):
            return self.E(a)
        if n.get('isPostfix'):
            return '(%s%s)' % (self.E(a), op)
        return '(%s%s)' % (op, self.E(a))

    def E_ConditionalOperator(self, n):
        c, a, b = inner(n)
        return '(%s ? %s : %s)' % (self.E(c), self.E(a), self.E(b))

    def E_ArraySubscriptExpr(self, n):
        a, b = inner(n)
        return '(%s[%s])' % (self.E(a), self.E(b))

    def E_UnaryExprOrTypeTraitExpr(self, n):
        ii = inner(n)
        nm = n.get('name')
        if nm not in ('sizeof', 'alignof'):
            raise ExtractError('type trait ' + str(nm))
        kw = 'sizeof' if nm == 'sizeof' else '_Alignof'
        if ii:
            t = qt(ii[0])
        else:
            at = n['argType']
            t = at.get('desugaredQualType') or at['qualType']
        tt = T.strip_ref(T.parse(t))
        return '%s(%s)' % (kw, self.cdecl(self.resolve(tt)))

    def E_CXXThisExpr(self, n):
        crec = self.rec_of(self.cur_fn) if self.cur_fn is not None else None
        if crec is not None and crec['id'] in self.closures:
            if 'this' not in self.closures[crec['id']]:
                raise ExtractError('this used in a lambda that does not capture it')
            self.lowerings['L-lambda(captured this -> closure field)'] += 1
            return '(this_->%s)' % self.closures[crec['id']]['this'][0]
        return 'this_'

    def E_MemberExpr(self, n):
        base = inner(n)[0]
        mid = n.get('referencedMemberDecl')
        d = self.tu.decls.get(mid)
        if d is not None and d.get('kind') in ('VarDecl', 'VarTemplateSpecializationDecl'):
            return self.global_ref(d)
        if mid in self.tu.fdecls:
            raise ExtractError('bound member function outside call')
        hook = self.opts.get('member_expr')
        if hook:
            r = hook(self, n, base, d)
            if r is not None:
                return r
        if d is None:
            raise ExtractError('member %s of non-extracted record' % n.get('name'))
        nm = d.get('name') or n['name']
        if not nm:
            raise ExtractError('member access to an unnamed field')
        b = self.E(base)
        fld = '%s%s%s' % (b, '->' if n.get('isArrow') else '.', nm)
        if self.is_ref_type(qt(d)):
            return '(*%s)' % fld
        return '(%s)' % fld

    def E_ExprWithCleanups(self, n):
        return self.E(inner(n)[0])

    def E_CXXBindTemporaryExpr(self, n):
        # a temporary whose destructor runs at the end of the full expression: library types are covered by their models
        # (M-mem, M-lock ...); a temporary of one of the extracted classes with a non-trivial destructor is not lowered -
        # unless it directly initialises a variable or the return value (guaranteed elision: there is no temporary then)
        if n.get('id') not in getattr(self, 'elided_temporaries', set()):
            dt = n.get('dtor') or {}
            dfn = self.tu.func(dt.get('id')) if dt.get('id') and hasattr(self.tu, 'func') else None
            if dfn is not None:
                rec = self.tu.parent_rec.get(dfn['id'])
                dd = (rec or {}).get('definitionData', {}).get('dtor', {})
                if rec is not None and dd and not dd.get('trivial') and not dd.get('irrelevant') and has_body(dfn):
                    raise ExtractError('temporary of class %s with a non-trivial destructor (no lowering)' % self.tu.rec_name.get(rec['id'], '?'))
        return self.E(inner(n)[0])

    def mark_elided(self, e):
        """temporaries that directly initialise a variable / the return value are not temporaries (C++17 elision)"""
        self.elided_temporaries = getattr(self, 'elided_temporaries', set())
        c = e
        while isinstance(c, dict):
            if c.get('kind') == 'CXXBindTemporaryExpr':
                self.elided_temporaries.add(c.get('id'))
            if c.get('kind') in ('ExprWithCleanups', 'CXXBindTemporaryExpr', 'ImplicitCastExpr', 'MaterializeTemporaryExpr', 'CXXFunctionalCastExpr', 'ParenExpr') and inner(c):
                c = inner(c)[0]
            elif c.get('kind') == 'CXXConstructExpr' and c.get('elidable') and inner(c):
                c = inner(c)[0]
            else:
                break

    def E_SubstNonTypeTemplateParmExpr(self, n):
        return self.E(inner(n)[-1])

    def E_MaterializeTemporaryExpr(self, n):
        sub = inner(n)[0]
        t = self.ctype_of(qt(n))
        self.lowerings['L-ref(temporary -> compound literal)'] += 1
        if t[0] == 'a':
            raise ExtractError('array temporary')
        return '(*(%s){ %s })' % (self.cdecl(('a', self._strip_top_quals_deep(t), 1)), self.E(sub))

    def _strip_top_quals_deep(self, t):
        if t[0] == 'c':
            return ('c', t[1], frozenset(q for q in t[2] if q == 'volatile'))
        return self._strip_top_quals(t)

    def E_CXXDefaultInitExpr(self, n):
        ii = inner(n)
        if ii:
            return self.E(ii[0])
        raise ExtractError('default member initialiser without expression')

    def E_CXXDefaultArgExpr(self, n):
        raise ExtractError('default argument')

    def E_InitListExpr(self, n):
        t = self.ctype_of(qt(n))
        ii = inner(n)
        if t[0] == 'c' and not t[1].startswith('struct') or t[0] == 'p':
            if len(ii) == 1:
                return self.E(ii[0])
            if not ii:
                return '((%s)0)' % self.cdecl(t)
        return '((%s)%s)' % (self.cdecl(self._strip_top_quals(t)), self.init_list(n))

    def E_ImplicitValueInitExpr(self, n):
        t = self.ctype_of(qt(n))
        if t[0] in ('c', 'p') and not (t[0] == 'c' and t[1].startswith('struct')):
            return '((%s)0)' % self.cdecl(self._strip_top_quals(t))
        return '((%s){0})' % self.cdecl(self._strip_top_quals(t))

    def E_CXXScalarValueInitExpr(self, n):
        return self.E_ImplicitValueInitExpr(n)

    def E_CXXConstructExpr(self, n):
        ii = inner(n)
        ctor_t = n.get('ctorType', {}).get('qualType', '')
        ty = qt(n)
        rec = self.tu.find_record(ty)
        if rec is None:
            try:    # a cv-qualified object type names the same record
                tyq = T.strip_quals(T.parse(ty))
                if tyq[0] == 'n':
                    rec = self.tu.find_record(tyq[1])
            except T.TypeParseError:
                pass
        hook = self.opts.get('construct')
        if hook:
            r = hook(self, n, ii, rec)
            if r is not None:
                return r
        if rec is None and ty.startswith('(lambda'):
            rec = self.find_lambda(ty)
        if rec is None:
            raise ExtractError('construction of non-extracted type %s' % ty)
        # copy/move construction from the same type
        if len(ii) == 1 and self.is_copy_move_sig(ctor_t, rec):
            ctor = self.find_ctor(rec, ctor_t)
            if ctor is not None and ctor.get('isImplicit') and rec.get('definitionData', {}).get('isTriviallyCopyable'):
                ctor = None
            if ctor is None:
                # implicit/defaulted copy or move: memberwise == struct copy for the records we extract
                self.require_trivial_copy(rec, ty)
                self.lowerings['L-ctor(defaulted copy/move -> struct copy)'] += 1
                return self.E(ii[0])
        if not ii and self.ctor_noop(n):
            raise ExtractError('trivial default construction used as a value: %s' % ty)
        ctor = self.find_ctor(rec, ctor_t)
        if ctor is None:
            if not ii:
                # implicit default ctor with default member initialisers
                return self.implicit_default_ctor(rec, ty)
            raise ExtractError('constructor %s of %s not found' % (ctor_t, ty))
        name = self.need(ctor)
        pts = [qt(p) for p in self.params(ctor)]
        return '%s(%s)' % (name, ', '.join(self.arg(a, t) for a, t in zip(ii, pts)))

    E_CXXTemporaryObjectExpr = E_CXXConstructExpr

    def implicit_default_ctor(self, rec, ty):
        cn = self.use_record(rec, ty)
        inits = []
        for f in inner(rec):
            if f.get('kind') == 'FieldDecl':
                fi = inner(f)
                if f.get('hasInClassInitializer') and fi:
                    e = fi[-1]
                    if e['kind'] == 'InitListExpr':
                        inits.append('.%s = %s' % (f['name'], self.init_list(e) if self.ctype_of(qt(f))[0] == 'a' else self.E(e)))
                    else:
                        inits.append('.%s = %s' % (f['name'], self.E(e)))
        if not inits:
            raise ExtractError('implicit default ctor of %s leaves object uninitialised as a value' % ty)
        self.lowerings['L-ctor(implicit default with member initialisers)'] += 1
        return '((struct %s){ %s })' % (cn, ', '.join(inits))

    def is_copy_move_sig(self, ctor_t, rec):
        m = re.match(r'^void \((.*)\)( noexcept)?$', ctor_t)
        if not m:
            return False
        arg = m.group(1)
        try:
            t = T.parse(arg)
        except T.TypeParseError:
            return False
        if t[0] != 'ref':
            return False
        inner_t = T.strip_quals(t[1])
        if inner_t[0] != 'n':
            return False
        r2 = self.tu.find_record(inner_t[1])
        return r2 is not None and r2['id'] == rec['id']

    def require_trivial_copy(self, rec, ty):
        dd = rec.get('definitionData', {})
        if dd.get('isTriviallyCopyable') or dd.get('copyCtor', {}).get('trivial') or dd.get('moveCtor', {}).get('trivial'):
            return
        allow = self.opts.get('allow_memberwise_copy')
        if allow and allow(self, rec, ty):
            return
        raise ExtractError('non-trivial implicit copy/move of %s' % ty)

    def find_ctor(self, rec, ctor_t):
        want = ctor_t.replace(' noexcept', '').strip()
        cands = []
        for fid, fn in self.tu.funcs.items():
            if fn['kind'] == 'CXXConstructorDecl' and self.tu.parent_rec.get(fid, {}).get('id') == rec['id']:
                if fn['type']['qualType'].replace(' noexcept', '').strip() == want:
                    cands.append(fn)
        ids = {f['id'] for f in cands}
        if len(ids) > 1:
            raise ExtractError('ambiguous constructor %s' % ctor_t)
        return cands[0] if cands else None

    def arg(self, a, ptype):
        """bind argument expression a to a parameter of C++ type string ptype"""
        if self.is_ref_type(ptype):
            return self.addr(self.E(a))
        return self.E(a)

    def callee_of(self, e):
        c = e
        while c['kind'] in ('ImplicitCastExpr', 'ParenExpr'):
            c = inner(c)[0]
        return c

    def E_CallExpr(self, n):
        ii = inner(n)
        callee = self.callee_of(ii[0])
        args = ii[1:]
        if callee['kind'] == 'DeclRefExpr' and callee['referencedDecl']['kind'] in FUNC_KINDS:
            rd = callee['referencedDecl']
            fn = self.tu.func(rd['id'])
            if fn is None:
                return self.std_call(rd, n, args, None)
            return self.direct_call(fn, n, args, None)
        if callee['kind'] == 'MemberExpr' and callee.get('referencedMemberDecl') in self.tu.fdecls:
            # static member function called through an object expression
            fn = self.tu.func(callee['referencedMemberDecl'])
            if fn is not None and not self.is_method(fn):
                return self.direct_call(fn, n, args, None)
        # indirect call through a function pointer / callable object
        return self.indirect_call(n, ii[0], args)

    def indirect_call(self, n, callee_e, args):
        hook = self.opts.get('indirect_call')
        if hook:
            r = hook(self, n, callee_e, args)
            if r is not None:
                return r
        ft = T.parse(qt(callee_e))
        while ft[0] in ('p', 'ref'):
            ft = ft[1]
        if ft[0] != 'f':
            raise ExtractError('indirect call through non-function type')
        # a call through a function-pointer variable has no body to verify against: it must be given a contract stub
        # (opts indirect_stubs / param_fn_stubs); left as a C indirect call cbmc would report pointer-check failures that say
        # nothing about the property, so fail closed (exit 2) instead
        c = callee_e
        while c.get('kind') in ('ImplicitCastExpr', 'ParenExpr', 'UnaryOperator') and inner(c):
            if c.get('kind') == 'UnaryOperator' and c.get('opcode') != '*':
                break
            c = inner(c)[0]
        if c.get('kind') == 'DeclRefExpr' and c['referencedDecl'].get('kind') in ('VarDecl', 'ParmVarDecl') and not self.opts.get('allow_unstubbed_indirect_calls'):
            try:
                vt = T.strip_quals(T.strip_ref(T.parse(qt(c))))
            except T.TypeParseError:
                vt = None
            if vt is not None and '(lambda' not in qt(c) and vt[0] == 'p' and T.strip_quals(vt[1])[0] == 'f':
                raise ExtractError('call through function-pointer variable %r (%s | %r) without a contract stub' % (c['referencedDecl'].get('name'), qt(c), c.get('type')))
        ce = self.E(callee_e)
        out = []
        for a, pt in zip(args, ft[2]):
            out.append(self.addr(self.E(a)) if pt[0] == 'ref' else self.E(a))
        self.lowerings['indirect call'] += 1
        s = '(%s)(%s)' % (ce, ', '.join(out))
        if ft[1][0] == 'ref':
            s = '(*%s)' % s
        return s

    def direct_call(self, fn, n, args, obj):
        name = self.need(fn)
        if fn['id'] in self.leaves:
            self.leaf_called.add(fn['id'])
        if fn['id'] in self.leaves and self.leaves[fn['id']][1] in self.opts.get('per_site_leaves', ()):
            # one alias per call site, so that the call-site precondition of the contract is a separate, named
            # obligation for every site (dfcc otherwise shares one assertion between all call sites)
            k = self.site_counter.get(fn['id'], 0) + 1
            self.site_counter[fn['id']] = k
            name = '%s_s%d' % (name, k)
            self.site_alias[name] = [fn['id'], self.leaves[fn['id']][1], self.fname(self.cur_fn), None]
            site_alias_name = name
        else:
            site_alias_name = None
        pts = [qt(p) for p in self.params(fn)]
        al = []
        if obj is not None:
            al.append(obj)
        variadic_extra = args[len(pts):]
        for a, t in zip(args, pts):
            if a.get('kind') == 'CXXDefaultArgExpr':
                raise ExtractError('default argument in call to ' + fn.get('name', '?'))
            al.append(self.arg(a, t))
        for a in variadic_extra:
            al.append(self.E(a))
        s = '%s(%s)' % (name, ', '.join(al))
        if site_alias_name:
            self.site_alias[site_alias_name][3] = s[:300]
        if self.returns_ref(fn):
            s = '(*%s)' % s
        return s

    def std_call(self, rd, n, args, obj_e):
        name = rd.get('name')
        if name in ('forward', 'move', 'as_const') and len(args) == 1:
            self.lowerings['M-id(std::%s)' % name] += 1
            return self.E(args[0])
        m = self.std_models.get(name)
        if m:
            r = m(self, rd, n, args, obj_e)
            if r is not None:
                return r
        if name in (self.opts.get('extern_functions') or ()) and obj_e is None:
            # functions declared by the unit itself outside namespace rlbox (e.g. transition hooks): contract stubs
            self.lowerings['extern stub(%s)' % name] += 1
            return '%s(%s)' % (name, ', '.join(self.E(a) for a in args))
        raise ExtractError('unmodelled callee without body: %s : %s' % (name, rd.get('type', {}).get('qualType')))

    def E_CXXMemberCallExpr(self, n):
        ii = inner(n)
        callee = self.callee_of(ii[0])
        args = ii[1:]
        if callee['kind'] != 'MemberExpr':
            raise ExtractError('member call through ' + callee['kind'])
        mid = callee.get('referencedMemberDecl')
        obj = inner(callee)[0]
        fn = self.tu.func(mid)
        if fn is None:
            rd = self.tu.fdecls.get(mid) or {'name': callee.get('name'), 'type': callee.get('type', {}), 'id': mid}
            hook = self.opts.get('member_call')
            if hook:
                r = hook(self, n, callee, obj, args, rd)
                if r is not None:
                    return r
            raise ExtractError('member callee without body: %s on %s' % (callee.get('name'), qt(obj)))
        hook = self.opts.get('member_call_known')
        if hook:
            r = hook(self, n, callee, obj, args, fn)
            if r is not None:
                return r
        if not self.is_method(fn):
            return self.direct_call(fn, n, args, None)
        if callee.get('isArrow'):
            ox = self.E(obj)
        else:
            ox = self.addr(self.E(obj))
        ox = '(%s)%s' % (self.cdecl(self.this_ctype(fn)), ox)
        return self.direct_call(fn, n, args, ox)

    def E_CXXOperatorCallExpr(self, n):
        ii = inner(n)
        callee = self.callee_of(ii[0])
        args = ii[1:]
        if callee['kind'] != 'DeclRefExpr':
            raise ExtractError('operator call through ' + callee['kind'])
        rd = callee['referencedDecl']
        fn = self.tu.func(rd['id'])
        if fn is None:
            hook = self.opts.get('operator_call')
            if hook:
                r = hook(self, n, rd, args)
                if r is not None:
                    return r
            raise ExtractError('operator callee without body: %s on %s' % (rd.get('name'), qt(args[0]) if args else '?'))
        if self.is_method(fn):
            ox = '(%s)&(%s)' % (self.cdecl(self.this_ctype(fn)), self.E(args[0]))
            return self.direct_call(fn, n, args[1:], ox)
        return self.direct_call(fn, n, args, None)

    def E_LambdaExpr(self, n):
        hook = self.opts.get('lambda')
        if hook:
            r = hook(self, n)
            if r is not None:
                return r
        return self.lambda_default(n)

    def prepare_lambda(self, n):
        """types of the closure fields as the captured variables have them (desugared), for closure records whose FieldDecls spell
        the type with an alias template; must run before the closure struct is laid out"""
        ii = inner(n)
        if not ii or ii[0].get('kind') not in REC_KINDS:
            return
        rec = ii[0]
        fields = [f for f in inner(rec) if f.get('kind') == 'FieldDecl']
        caps = ii[1:len(fields) + 1]
        self.closure_field_types = getattr(self, 'closure_field_types', {})
        for f, c in zip(fields, caps):
            ct = qt(c)
            if ct:
                self.closure_field_types[f['id']] = (ct + ' &') if self.is_ref_type(qt(f)) and not self.is_ref_type(ct) else ct

    def find_lambda_expr(self, e):
        while e is not None and e.get('kind') in ('ExprWithCleanups', 'MaterializeTemporaryExpr', 'CXXBindTemporaryExpr', 'ImplicitCastExpr', 'ParenExpr', 'CXXConstructExpr', 'CXXFunctionalCastExpr') and inner(e):
            e = inner(e)[-1] if e.get('kind') != 'CXXConstructExpr' else inner(e)[0]
        return e if e is not None and e.get('kind') == 'LambdaExpr' else None

    def lambda_default(self, n):
        ii = inner(n)
        rec = ii[0]
        if rec.get('kind') not in REC_KINDS:
            raise ExtractError('lambda without closure record')
        self.tu.rec_by_id.setdefault(rec['id'], rec)
        self.tu.rec_name.setdefault(rec['id'], 'lambda_' + rec['id'][-8:])
        # parameter types name a closure type by its source location "(lambda at f:l:c)", which every instantiation of the
        # enclosing template shares: use the record that name resolves to as the one struct for this location
        canon = self.find_lambda(qt(n)) if qt(n).startswith('(lambda') else None
        if canon is not None and canon['id'] != rec['id']:
            if not hasattr(self, 'lambda_canon'):
                self.lambda_canon = {}
            self.lambda_canon[rec['id']] = canon['id']
        self.prepare_lambda(n)
        fields = [f for f in inner(rec) if f.get('kind') == 'FieldDecl']
        caps = ii[1:len(fields) + 1]
        cn = self.use_record(rec)
        cmap = {}
        for i, (f, c) in enumerate(zip(fields, caps)):
            cc = c
            while (cc.get('kind') in ('ImplicitCastExpr', 'ParenExpr') or (cc.get('kind') == 'CXXConstructExpr' and len(inner(cc)) == 1)) and inner(cc):
                cc = inner(cc)[0]      # a by-copy capture of a class-type variable is a copy construction from that variable
            byref = self.is_ref_type(qt(f))
            fname = f.get('name') or ('_f%d' % i)
            if cc.get('kind') == 'CXXThisExpr':
                cmap['this'] = (fname, False)
            elif cc.get('kind') == 'DeclRefExpr':
                cmap[cc['referencedDecl']['id']] = (fname, byref)
            else:
                raise ExtractError('lambda init-capture / unsupported capture expression ' + str(cc.get('kind')))
        self.closures[rec['id']] = cmap
        inits = []
        for i, (f, c) in enumerate(zip(fields, caps)):
            ft = qt(f)
            nm = f.get('name') or ('_f%d' % i)
            if self.is_ref_type(ft):
                inits.append('.%s = &(%s)' % (nm, self.E(c)))
            else:
                inits.append('.%s = %s' % (nm, self.E(c)))
        self.lowerings['L-lambda(closure struct)'] += 1
        return '((struct %s){ %s })' % (cn, ', '.join(inits) if inits else '0')

    def E_CXXNewExpr(self, n):
        raise ExtractError('new expression')

    def E_CXXDeleteExpr(self, n):
        raise ExtractError('delete expression')

    def E_CXXThrowExpr(self, n):
        raise ExtractError('throw expression')

    def E_OpaqueValueExpr(self, n):
        return self.E(inner(n)[0])

    def E_SizeOfPackExpr(self, n):
        raise ExtractError('sizeof... outside constant expression')

    def E_GNUNullExpr(self, n):
        return '((void*)0)'

    def E_PredefinedExpr(self, n):
        return '"<func>"'

    # ------------------------------------------------------------------ driver
    def emit_all(self, root_fns):
        for fn in root_fns:
            self.needed.setdefault(fn['id'], fn)
        done = set()
        order = []
        while True:
            todo = [f for i, f in self.needed.items() if i not in done]
            if not todo:
                break
            for f in todo:
                done.add(f['id'])
                self.emit_function(f)
                order.append(f['id'])
        # second pass so that return-type overrides learnt late are applied consistently
        self.loop_ordinal = {}
        self.site_counter = {}
        self.site_alias = collections.OrderedDict()
        for fid in order:
            self.emit_function(self.needed[fid])
        return order
