/* prelude.h - shared specification vocabulary for the C translation units that
 * /verif extracts from /repo's headers (DESIGN.md section 4).  Nothing in this
 * file is code of AllenAby/rlbox; it declares ghost state, mathematical
 * integers and the models (M-*) of library types that sit outside the
 * extracted AST. */
#ifndef VERIF_PRELUDE_H
#define VERIF_PRELUDE_H
#include <stddef.h>
#include <stdint.h>

#ifndef VSTD_NEW_MAX_ELEMS
#define VSTD_NEW_MAX_ELEMS 4096UL
#endif
typedef __int128 mathint;            /* 4.3: specs compare in 128-bit integers */
#define MI(x) ((mathint)(x))

/* 4.2 abort: g_noabort==1 means "the caller claims no check fails on this path" */
extern _Bool g_noabort;

/* ---- models of library types (M-lock, M-atomic, M-vec, M-map; DESIGN 3.1) ---- */
struct M_lock { char _unused; };                     /* sequential semantics: locks are no-ops */
struct M_vec_voidp { unsigned long len; void **elem; unsigned long cap; };   /* std::vector<void*> as a sequence view: elem[0..len), capacity cap */
struct M_vec_timing { int _opaque; };                /* std::vector<rlbox_transition_timing>: push_back is the recording stub vstd_timing_push */
struct M_map_str_voidp { int _opaque; };             /* std::map<std::string, void*>: only through map_* stubs */
static inline void vstd_opaque_map_clear(struct M_map_str_voidp *m) { m->_opaque = 0; }

int vstd_uncaught_exceptions(void);
/* M-mem: operator new / make_unique: a fresh, zero-initialised heap object of n*sz bytes (never null: new throws instead).
 * The allocation size is recorded for the specification. */
extern unsigned long g_new_bytes; extern unsigned g_news; extern void *g_new_ptr;
void *malloc(unsigned long);
static inline void *vstd_new(unsigned long n, unsigned long sz)
{
  unsigned long bytes = n * sz;
  __CPROVER_assume(n <= VSTD_NEW_MAX_ELEMS);
  char *p = malloc(bytes == 0 ? 1 : bytes);
  __CPROVER_assume(p != 0);
  __CPROVER_array_set(p, 0);
  g_new_bytes = bytes; g_news = g_news + 1; g_new_ptr = p;
  return p;
}   /* no body: arbitrary result */
#include "stdmodel_vec.h"

#endif
