/* stdmodel_vec.h - M-vec: model of std::vector<void*> (DESIGN.md 3.1).  The sequence view is elem[0..len).
 * Loop-free members are emitted inline by vlib/models.py; the two algorithms with loops (std::find over a
 * vector range, vector::erase) are the functions below.  Callers see only the contracts
 * (--replace-call-with-contract); the bodies are verified against the same contracts by instance
 * "stdmodel_vec_*" of property C14, so the model is at least self-consistent.  That libstdc++ behaves like
 * this model is an assumption listed in evidence. */
#ifndef VERIF_STDMODEL_VEC_H
#define VERIF_STDMODEL_VEC_H
struct M_vecit_voidp { struct M_vec_voidp *v; unsigned long idx; };
extern unsigned long g_vw, g_vw2; /* two ghost witness indices for "forall j" statements about vector contents */
#define M_VEC_MAX 4096UL
#define VEC_WF(v) ((v)->len <= (v)->cap && (v)->cap <= M_VEC_MAX && __CPROVER_rw_ok((v)->elem, (v)->cap * sizeof(void *)))

struct M_vecit_voidp vec_find(struct M_vecit_voidp b, struct M_vecit_voidp e, void *key)
__CPROVER_requires(b.v == e.v && __CPROVER_r_ok(b.v, sizeof(*b.v)) && VEC_WF(b.v) && b.idx <= e.idx && e.idx <= b.v->len)
__CPROVER_requires(g_vw < b.v->cap)
__CPROVER_requires(g_vw2 < b.v->cap)
__CPROVER_ensures(__CPROVER_return_value.v == b.v && __CPROVER_return_value.idx >= b.idx && __CPROVER_return_value.idx <= e.idx)
__CPROVER_ensures(__CPROVER_return_value.idx < e.idx ==> b.v->elem[__CPROVER_return_value.idx] == key)
__CPROVER_ensures((g_vw >= b.idx && g_vw < __CPROVER_return_value.idx) ==> b.v->elem[g_vw] != key)
__CPROVER_ensures((g_vw2 >= b.idx && g_vw2 < __CPROVER_return_value.idx) ==> b.v->elem[g_vw2] != key)
__CPROVER_assigns()
#ifdef STDMODEL_VEC_BODIES
{
  unsigned long i = b.idx;
  for (; i < e.idx; i++)
    __CPROVER_assigns(i)
    __CPROVER_loop_invariant(i >= b.idx && i <= e.idx)
    __CPROVER_loop_invariant((g_vw >= b.idx && g_vw < i) ==> b.v->elem[g_vw] != key)
    __CPROVER_loop_invariant((g_vw2 >= b.idx && g_vw2 < i) ==> b.v->elem[g_vw2] != key)
    __CPROVER_decreases(e.idx - i)
  {
    if (b.v->elem[i] == key) { break; }
  }
  struct M_vecit_voidp r = { b.v, i };
  return r;
}
#else
;
#endif

/* erase [first, last): elements after the range move down, order preserved */
struct M_vecit_voidp vec_erase_range(struct M_vec_voidp *v, unsigned long first, unsigned long last)
__CPROVER_requires(__CPROVER_rw_ok(v, sizeof(*v)) && VEC_WF(v) && first <= last && last <= v->len)
__CPROVER_requires(g_vw < v->cap && g_vw + (last - first) < v->cap) /* the ghost witness designates a slot of the buffer */
__CPROVER_requires(g_vw2 < v->cap && g_vw2 + (last - first) < v->cap) /* the ghost witness designates a slot of the buffer */
__CPROVER_ensures(v->len == __CPROVER_old(v->len) - (last - first) && v->cap == __CPROVER_old(v->cap) && v->elem == __CPROVER_old(v->elem))
__CPROVER_ensures(__CPROVER_return_value.v == v && __CPROVER_return_value.idx == first)
__CPROVER_ensures(g_vw < first ==> v->elem[g_vw] == __CPROVER_old(v->elem[g_vw]))
__CPROVER_ensures(g_vw2 < first ==> v->elem[g_vw2] == __CPROVER_old(v->elem[g_vw2]))
__CPROVER_ensures((g_vw >= first && g_vw < v->len) ==> v->elem[g_vw] == __CPROVER_old(v->elem[g_vw + (last - first)]))
__CPROVER_ensures((g_vw2 >= first && g_vw2 < v->len) ==> v->elem[g_vw2] == __CPROVER_old(v->elem[g_vw2 + (last - first)]))
__CPROVER_assigns(v->len, __CPROVER_object_whole(v->elem))
#ifdef STDMODEL_VEC_BODIES
{
  unsigned long n = last - first;
  unsigned long i = first;
  unsigned long newlen = v->len - n;
  for (; i < newlen; i++)
    __CPROVER_assigns(i, __CPROVER_object_whole(v->elem))
    __CPROVER_loop_invariant(i >= first && i <= newlen && newlen + n == v->len && v->len <= v->cap)
    __CPROVER_loop_invariant(g_vw < first ==> v->elem[g_vw] == __CPROVER_loop_entry(v->elem[g_vw]))
    __CPROVER_loop_invariant(g_vw2 < first ==> v->elem[g_vw2] == __CPROVER_loop_entry(v->elem[g_vw2]))
    __CPROVER_loop_invariant((g_vw >= first && g_vw < i) ==> v->elem[g_vw] == __CPROVER_loop_entry(v->elem[g_vw + n]))
    __CPROVER_loop_invariant((g_vw2 >= first && g_vw2 < i) ==> v->elem[g_vw2] == __CPROVER_loop_entry(v->elem[g_vw2 + n]))
    __CPROVER_loop_invariant((g_vw + n >= i + n && g_vw + n < v->len) ==> v->elem[g_vw + n] == __CPROVER_loop_entry(v->elem[g_vw + n]))
    __CPROVER_loop_invariant((g_vw2 + n >= i + n && g_vw2 + n < v->len) ==> v->elem[g_vw2 + n] == __CPROVER_loop_entry(v->elem[g_vw2 + n]))
    __CPROVER_decreases(newlen - i)
  {
    v->elem[i] = v->elem[i + n];
  }
  v->len = newlen;
  struct M_vecit_voidp r = { v, first };
  return r;
}
#else
;
#endif
#endif
