/* self-consistency of the M-vec model: helper bodies against the contracts callers are verified with */
#define STDMODEL_VEC_BODIES
#include "prelude.h"
#include <stdlib.h>
unsigned long g_vw, g_vw2; _Bool g_noabort;
static void mk(struct M_vec_voidp *v){ unsigned long cap, len; __CPROVER_assume(cap <= M_VEC_MAX && len <= cap); v->elem = malloc(cap * sizeof(void*)); __CPROVER_assume(v->elem != 0); v->cap = cap; v->len = len; }
void h_find(void){ struct M_vec_voidp v; mk(&v); unsigned long w, w2; g_vw = w; g_vw2 = w2; unsigned long a,b; void*k; struct M_vecit_voidp B={&v,a},E={&v,b}; vec_find(B,E,k); }
void h_erase(void){ struct M_vec_voidp v; mk(&v); unsigned long w, w2; g_vw = w; g_vw2 = w2; unsigned long a,b; vec_erase_range(&v,a,b); }
