/* backend_spec.h - A_backend (DESIGN.md 4.1) for the verification backend vsbx, stated over the region table
 * the backend itself keeps (V_BASE/V_SIZE are #defined by the generator to the emitted names of
 * rlbox::vsbx::region_base / region_size). */
#ifndef VERIF_BACKEND_SPEC_H
#define VERIF_BACKEND_SPEC_H
extern unsigned long V_BASE[2];
extern unsigned long V_SIZE[2];
extern _Bool g_backend_nonnull;
extern unsigned long g_expect_example;   /* != 0: the example address the core must hand to the backend (C04) */
extern unsigned long g_expect_malloc_size;   /* 1: call sites must prove the backend is never handed 0/null (C04) */

#define V_LIVE(k) (V_SIZE[k] != 0)
#define V_IN(k, a) (V_SIZE[k] != 0 && (uintptr_t)(a) >= V_BASE[k] && (uintptr_t)(a) - V_BASE[k] < V_SIZE[k])
#define V_WHICH(a) (V_IN(0, a) ? 0 : (V_IN(1, a) ? 1 : -1))
/* mathematical-integer version: the exact (unwrapped) address lies in region k */
#define V_IN_MI(k, m) (V_SIZE[k] != 0 && (m) >= MI(V_BASE[k]) && (m) < MI(V_BASE[k]) + MI(V_SIZE[k]))
#define V_ANY_IN_MI(m) (V_IN_MI(0, m) || V_IN_MI(1, m))

/* well-formed address space: regions (when live) sit in the canonical user half, are at most 4 GiB
 * (32-bit guest pointers) and are disjoint */
/* numeric view: canonical user half (default).  Object view (cells are CBMC objects whose integer address carries
 * the object number in the top bits): units define V_MAX_BASE larger. */
#ifndef V_MAX_BASE
#define V_MAX_BASE 0x7fff00000000UL
#endif
#define V_REGION_WF(k) (V_SIZE[k] == 0 || (V_BASE[k] >= 4096UL && V_BASE[k] <= V_MAX_BASE && V_SIZE[k] <= 0x100000000UL))
#define V_DISJOINT (V_SIZE[0] == 0 || V_SIZE[1] == 0 || V_BASE[0] + V_SIZE[0] <= V_BASE[1] || V_BASE[1] + V_SIZE[1] <= V_BASE[0])
#define V_BACKEND_WF (V_REGION_WF(0) && V_REGION_WF(1) && V_DISJOINT)
#endif
