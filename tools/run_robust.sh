#!/bin/bash
# run_robust.sh [n...] : apply each behaviour-preserving refactoring patch robust/refac_<n>/patch.diff to a scratch worktree of
# /repo's HEAD and run every quick check against it (tools/run_against.sh); every check must exit 0.
cd /verif
rc=0
for n in ${@:-1 2 3 4 5 6 7 8 9 10 11}; do
  W=/tmp/robust_$n_$$; git -C /repo worktree add -q --detach $W HEAD || exit 2
  if git -C $W apply /verif/robust/refac_$n/patch.diff; then
    ./tools/run_against.sh $W | sed "s/^/refac_$n /" | tee /tmp/robust_$n.out
    grep -v "exit=0" /tmp/robust_$n.out && rc=1
  else
    echo "refac_$n: patch does not apply to HEAD (re-base it)"; rc=2
  fi
  git -C /repo worktree remove --force $W
done
exit $rc
