#!/usr/bin/env python3
"""Print the markdown table of seeded changes vs checks from seeded/RESULTS.json (written by tools/seed_matrix.sh)."""
import json, os
V = os.path.dirname(os.path.dirname(os.path.abspath(__file__)))
res = json.load(open(os.path.join(V, 'seeded', 'RESULTS.json')))
print('| seed | change (one line) | check | verdict | obligations that fired (clause tags) | native replay confirmed |')
print('|---|---|---|---|---|---|')
for s in sorted(res):
    meta = json.load(open(os.path.join(V, 'seeded', s, 'meta.json')))
    summ = meta.get('summary', '').split('. ')[0][:170].replace('|', '/').replace('\n', ' ')
    for c, r in sorted(res[s].items()):
        print('| %s | %s | %s | %s | %s | %s of %d |' % (s, summ, c, r['verdict'], ', '.join(x.replace('|', '/')[:70] for x in r['failed_clauses'][:5]) or '-',
                                                      r.get('replay_confirmed', 0), r['violations']))
