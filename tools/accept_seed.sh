#!/bin/bash
# accept_seed.sh <name> : confirm seeded/<name> in a scratch worktree (tools/confirm_seed.sh) and record the verdict in its meta.json
cd /verif
r=$(./tools/confirm_seed.sh seeded/$1 | tail -1)
python3 - "$1" "$r" <<'PY'
import json, sys
n, r = sys.argv[1], json.loads(sys.argv[2])
p = '/verif/seeded/%s/meta.json' % n
m = json.load(open(p))
m['confirmed_by_verifier_author'] = {'how': 'tools/confirm_seed.sh: fresh scratch worktree of /repo; demo on pristine tree, then git apply patch.diff, cmake+ninja build, ctest (71 tests), demo on patched tree', 'result': r}
json.dump(m, open(p, 'w'), indent=1)
print(n, r['ok'], r.get('ctest'), r.get('demo_pristine_exit'), r.get('demo_patched_exit'))
PY
