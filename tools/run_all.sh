#!/bin/bash
# run every claimed check (quick tier unless $1=thorough) on /repo as it is; validate evidence against the schema
cd /verif
TIER=${1:-quick}
git -C /repo status --short | grep -v '^??' && { echo "REPO HAS UNCOMMITTED CHANGES"; }
rc=0
for id in $(python3 -c "import json;print(' '.join(c['property_id'] for c in json.load(open('MANIFEST.json'))['checks']))"); do
  ./check $id --tier $TIER > /tmp/run_all_$id.log 2>&1; e=$?
  tail -1 /tmp/run_all_$id.log | cut -c1-200
  grep -c "^VIOLATION" /tmp/run_all_$id.log | grep -v '^0$' && rc=1
  [ $e -ne 0 ] && { echo "  exit=$e"; rc=1; }
  python3-vt -c "
import json,jsonschema,sys
e=json.load(open('/verif/evidence/$id.json')); jsonschema.validate(e,json.load(open('/root/.vp/EVIDENCE.schema.json')))
c=e['coverage']
assert e['level']!='proof' or c['obligations']==c['discharged'], 'discharged != obligations'
" || { echo "  EVIDENCE INVALID for $id"; rc=1; }
done
exit $rc
