#!/bin/bash
# run_against.sh <repo-tree> [ids...] : run the quick checks against another source tree (a scratch worktree), without touching
# /verif/evidence or /verif/build; prints one line per property.  Used for seeded changes and refactoring-robustness trees.
T=$(realpath $1); shift
cd /verif
export VERIF_REPO=$T VERIF_BUILD=/tmp/ra_$(basename $T)_build
for id in ${@:-$(python3 -c "import json;print(' '.join(c['property_id'] for c in json.load(open('MANIFEST.json'))['checks']))")}; do
  ./check $id --tier quick > /tmp/ra_$(basename $T)_$id.log 2>&1; e=$?
  echo "$id exit=$e :: $(tail -1 /tmp/ra_$(basename $T)_$id.log | cut -c1-150)"
done
rm -rf $VERIF_BUILD
