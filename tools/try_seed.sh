#!/bin/bash
# try_seed.sh <worktree with seed/> <name> [check ids...] : copy the seed's artifacts to seeded/<name> and run the check(s) of its
# property against that worktree (no change to /repo, /verif/evidence or /verif/build)
W=$1; N=$2; shift 2
cd /verif; mkdir -p seeded/$N && cp $W/seed/* seeded/$N/
P=$(python3 -c "import json;print(json.load(open('seeded/$N/meta.json'))['property'])")
for c in ${@:-$P}; do
  VERIF_REPO=$W VERIF_BUILD=/tmp/ts_$N ./check $c --tier quick 2>&1 | grep -E "^VIOLATION|tier=quick|^UNDECIDED" | sed 's/replay=[^ ]* //' | cut -c1-260 | tail -4
done
rm -rf /tmp/ts_$N
