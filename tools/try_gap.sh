#!/bin/bash
# try_gap.sh <worktree> <patch> <check ids...> : apply a patch to a scratch worktree, run quick checks against it, undo (development helper)
W=$1; P=$2; shift 2
git -C $W checkout -q -- . ; git -C $W apply $P || { echo "patch does not apply"; exit 2; }
cd /verif
for id in "$@"; do
  VERIF_REPO=$W VERIF_BUILD=${W}_build ./check $id ${TIER:+--tier $TIER} > /tmp/trygap_$id.log 2>&1; e=$?
  echo "$id exit=$e :: $(grep -c ^VIOLATION /tmp/trygap_$id.log) violations :: $(tail -1 /tmp/trygap_$id.log | cut -c1-140)"
  grep ^VIOLATION /tmp/trygap_$id.log | sed 's/replay=[^ ]* //' | cut -c1-220 | head -${SHOW:-4}
  grep ^UNDECIDED /tmp/trygap_$id.log | cut -c1-300 | head -3
done
git -C $W checkout -q -- .
rm -rf ${W}_build
