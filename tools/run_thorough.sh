#!/bin/bash
# run every claimed check at the thorough tier, one after the other; log per property under /tmp/thorough_<id>.log
cd /verif
for id in ${@:-$(python3 -c "import json;print(' '.join(c['property_id'] for c in json.load(open('MANIFEST.json'))['checks']))")}; do
  s=$(date +%s); ./check $id --tier thorough > /tmp/thorough_$id.log 2>&1; e=$?
  echo "$id exit=$e $(( $(date +%s) - s ))s :: $(tail -1 /tmp/thorough_$id.log | cut -c1-160)"
done
