#!/usr/bin/env python3
"""Regenerate /verif/MANIFEST.json from the property modules that exist (props/Cxx.py with a MANIFEST dict)."""
import json, os, sys, importlib
V = os.path.dirname(os.path.dirname(os.path.abspath(__file__)))
sys.path.insert(0, V)
NA = {
 'C01': "property is about which programs the C++ type checker rejects; a run-time function contract cannot state 'no overload is viable' and CBMC never sees C++ overload resolution (DESIGN.md section 5, C01)",
 'C18': "concurrency/data races across threads; CBMC contract instrumentation (dfcc) is sequential and std::shared_timed_mutex/thread_local are outside the extractable subset (DESIGN.md section 5, C18)",
}
checks = []
na = []
for i in range(1, 21):
    pid = 'C%02d' % i
    try:
        m = importlib.import_module('props.' + pid)
        e = getattr(m, 'MANIFEST', None)
    except ModuleNotFoundError:
        e = None
    if e is None:
        na.append({'property_id': pid, 'reason': NA.get(pid, 'check not built yet (build in progress); see DESIGN.md section 9 for the build order')})
        continue
    checks.append({
        'property_id': pid,
        'quick_cmd': './check %s --tier quick' % pid,
        'thorough_cmd': './check %s --tier thorough' % pid,
        'evidence_file': '/verif/evidence/%s.json' % pid,
        'replay_cmd_template': 'cat {path}',
        'engine': 'cbmc-dfcc',
        'level_claimed': {'category': 'proof', 'text': e['level_text'], 'design_ref': e.get('design_ref', 'DESIGN.md section 5, ' + pid)},
        'level_note': e['level_note'],
        'technique': e.get('technique', 'contract-based deductive verification: CBMC 6.11 code contracts (goto-instrument --dfcc) on C extracted mechanically from the instantiated clang AST of /repo headers'),
    })
man = {
 'version': 1,
 'setup_cmd': 'true',
 'hooks': {'guard': 'ALLENABY_RLBOX_VERIF', 'enable': 'the deductive checks need no hook (contracts are spliced into code extracted from /repo\'s working tree on every run, guard off); the native replays of C09 counterexamples compile /repo\'s headers with -DALLENABY_RLBOX_VERIF, which turns RLBOX_VERIF_INTERLEAVE(n) in rlbox.hpp into a call to allenaby_rlbox_verif_interleave(n) between RLBox\'s successive reads of sandbox memory', 'baseline_off_cmd': 'cd /repo && cmake -G Ninja -B _build -S . >/dev/null && cmake --build _build -j16 >/dev/null && ctest --test-dir _build -j8 --timeout 900', 'source_commits': ['d6e25b4'], 'add_only': True},
 'engines': [{'name': 'cbmc-dfcc', 'path': '/verif/check', 'serves_properties': [c['property_id'] for c in checks], 'kind_free_text': 'clang JSON AST -> C emitter (vlib/emit.py) + contracts (props/*.py) + goto-instrument --dfcc + cbmc; native replay against /repo headers'}],
 'checks': checks,
 'not_applicable': na,
 'notes': 'contract-based deductive verification (CBMC 6.11 dfcc) of C mechanically extracted on every run from clang\'s instantiated AST of /repo\'s headers; exit 2 = undecided (extraction failed closed / solver timeout), never reported as a violation',
}
json.dump(man, open(os.path.join(V, 'MANIFEST.json'), 'w'), indent=1)
print('claimed:', [c['property_id'] for c in checks])
