#!/bin/bash
# confirm_seed.sh <seed_dir containing patch.diff run_demo.sh demo.cpp> : verifies in a scratch worktree that
#  pristine: demo exits 0 ; patched: compiles, 71 tests pass, demo exits non-zero.  Prints a one-line JSON verdict.
set -u
SD=$(realpath "$1"); W=$(mktemp -d /tmp/confirm_XXXX); rmdir $W
git -C /repo worktree add --detach $W HEAD >/dev/null 2>&1 || { echo '{"ok":false,"why":"worktree"}'; exit 2; }
trap 'git -C /repo worktree remove --force $W >/dev/null 2>&1' EXIT
cd $W
( bash $SD/run_demo.sh $W ) >$W/.demo_pristine.log 2>&1; P=$?
git apply $SD/patch.diff || { echo '{"ok":false,"why":"patch does not apply"}'; exit 2; }
cmake -G Ninja -B _build -S . >/dev/null 2>&1 && cmake --build _build -j16 >$W/.build.log 2>&1; B=$?
TP=$(ctest --test-dir _build -j8 2>&1 | grep -o "[0-9]*% tests passed, [0-9]* tests failed out of [0-9]*")
( bash $SD/run_demo.sh $W ) >$W/.demo_patched.log 2>&1; Q=$?
OK=false; [ $P -eq 0 ] && [ $B -eq 0 ] && [ "$TP" = "100% tests passed, 0 tests failed out of 71" ] && [ $Q -ne 0 ] && OK=true
echo "{\"ok\":$OK,\"demo_pristine_exit\":$P,\"build_exit\":$B,\"ctest\":\"$TP\",\"demo_patched_exit\":$Q,\"patched_demo_tail\":$(tail -3 $W/.demo_patched.log | python3 -c 'import json,sys;print(json.dumps(sys.stdin.read()[-400:]))')}"
