#!/bin/bash
# seed_matrix.sh [seed ...] : for each /verif/seeded/<seed>/patch.diff apply it to a scratch worktree of /repo's HEAD
# (under /tmp, removed at the end; /repo itself is not touched), run the checks listed for it against that tree
# (VERIF_REPO / VERIF_BUILD: default the check of the property it was written for; extra checks in seeded/<seed>/also.txt),
# undo it, and record which obligations fired in /verif/seeded/RESULTS.json.
# The same can be done on /repo itself: git -C /repo apply <patch>; ./check <id>; git -C /repo checkout -- .
cd /verif
SEEDS=${@:-$(ls seeded | grep -v RESULTS)}
W=/tmp/seedmx_$$; git -C /repo worktree add -q --detach $W HEAD || exit 2
trap 'git -C /repo worktree remove --force $W >/dev/null 2>&1; rm -rf ${W}_build' EXIT
export VERIF_REPO=$W VERIF_BUILD=${W}_build
for s in $SEEDS; do
  [ -f seeded/$s/patch.diff ] || continue
  prop=$(python3 -c "import json;print(json.load(open('seeded/$s/meta.json'))['property'])")
  checks="$prop $(cat seeded/$s/also.txt 2>/dev/null)"
  git -C $W apply /verif/seeded/$s/patch.diff || { echo "$s: patch does not apply"; continue; }
  for c in $checks; do
    ./check $c --tier quick > /tmp/seedrun_${s}_$c.log 2>&1; e=$?
    python3 - "$s" "$c" "$e" /tmp/seedrun_${s}_$c.log <<'EOF'
import json, sys, re, os
s, c, e, log = sys.argv[1:5]
txt = open(log).read()
viol = re.findall(r'^VIOLATION property=\S+ replay=\S+ instance=(\S+) obligation=(\S+)( no-failing-input-found)?', txt, re.M)
und = re.findall(r'^UNDECIDED .*', txt, re.M)
p = '/verif/seeded/RESULTS.json'
d = json.load(open(p)) if os.path.exists(p) else {}
clauses = []
for rp in re.findall(r'^VIOLATION property=\S+ replay=(\S+)', txt, re.M)[:40]:
    try:
        r = json.load(open(rp)); m = re.search(r'\[clause:([^\]]+)\]', r.get('obligation_text', '')); m2 = re.search(r'\[site: ([^\]]+)\]', r.get('obligation_text', ''))
        clauses.append((m.group(1) if m else (('site ' + m2.group(1)[:80]) if m2 else r.get('obligation_text', '')[:80]), bool(r.get('confirmed'))))
    except Exception:
        pass
d.setdefault(s, {})[c] = {'exit': int(e), 'violations': len(viol), 'instances': sorted(set(v[0] for v in viol))[:12],
                          'failed_clauses': sorted(set(k for k, _ in clauses))[:12], 'replay_confirmed': sum(1 for _, ok in clauses if ok),
                          'undecided': len(und), 'verdict': 'detected' if (e == '1' and viol) else ('undecided' if e == '2' else 'missed')}
json.dump(d, open(p, 'w'), indent=1, sort_keys=True)
print(s, c, d[s][c]['verdict'], len(viol), 'violations', d[s][c]['failed_clauses'][:4])
EOF
  done
  git -C $W checkout -- .
done
exit 0
